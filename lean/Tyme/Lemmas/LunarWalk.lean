import Tyme.Lemmas.Lunar
import Tyme.Facts.Months
/-! Helper lemmas for C02: the guess-and-walk of `SolarDay::get_lunar_day` finds the month containing the day. -/
namespace Tyme.Lunar
open Tyme

/-- tiling hypothesis on a closed interval of lunar years -/
def TilesOn (E : Eph) (a b : Int) : Prop := ∀ y, a ≤ y → y ≤ b → TilesYear E y

def succM (E : Eph) (x : Month) : Month :=
  if x.idx + 1 < E.cnt x.y then ⟨x.y, x.idx + 1⟩ else ⟨x.y + 1, 0⟩

theorem gpos_succM (E : Eph) (x : Month) (h0 : 0 ≤ x.y) (hi : x.idx < E.cnt x.y) :
    gpos E (succM E x) = gpos E x + 1 := by
  unfold succM gpos
  split
  · simp; omega
  · have := cumI_succ E x.y h0
    simp only [this]
    have : x.idx + 1 = E.cnt x.y := by omega
    simp; omega

theorem cumI_lt_of_lt (E : Eph) (p q : Int) (hp : 0 ≤ p) (hlt : p < q) : cumI E p + E.cnt p ≤ cumI E q := by
  have := cumI_mono E (q - (p + 1)).toNat (p + 1) (by omega)
  have e : p + 1 + ((q - (p + 1)).toNat : Int) = q := by omega
  rw [e] at this
  have := cumI_succ E p hp
  omega

/-- consecutive positions are successor months -/
theorem succM_of_gpos (E : Eph) (x' x : Month) (h' : WF E x') (h : WF E x) (hg : gpos E x = gpos E x' + 1) :
    x = succM E x' := by
  obtain ⟨a1, a2, a3⟩ := h'
  obtain ⟨b1, b2, b3⟩ := h
  by_cases hin : x'.idx + 1 < E.cnt x'.y
  · have hw : WF E (succM E x') := by
      unfold succM; simp only [hin, if_true]; exact ⟨a1, a2, hin⟩
    exact gpos_inj E _ _ ⟨b1, b2, b3⟩ hw (by rw [gpos_succM E x' a1 a3]; exact hg)
  · by_cases h9 : x'.y + 1 ≤ 9999
    · have hc := cnt_cases E (x'.y + 1)
      have hw : WF E (succM E x') := by
        unfold succM; simp only [hin, if_false]; exact ⟨by dsimp only; omega, by dsimp only; exact h9, by dsimp only; omega⟩
      exact gpos_inj E _ _ ⟨b1, b2, b3⟩ hw (by rw [gpos_succM E x' a1 a3]; exact hg)
    · -- x' is the last month of year 9999: no WF month sits one place later
      exfalso
      unfold gpos at hg
      have hx9 : x'.y = 9999 := by omega
      have hle : x.y ≤ x'.y := by omega
      rcases Int.lt_or_eq_of_le hle with hlt | heq
      · have := cumI_lt_of_lt E x.y x'.y b1 hlt
        omega
      · rw [heq] at hg b3; omega

theorem tiles_step (E : Eph) (x : Month) (ht : TilesYear E x.y) (hi : x.idx < E.cnt x.y) :
    first E (succM E x) = first E x + len E x ∧ (len E x = 29 ∨ len E x = 30) := by
  unfold succM first len
  refine ⟨?_, ht.len x.idx hi⟩
  split
  · rename_i h; exact ht.inner x.idx h
  · rename_i h
    have : x.idx = E.cnt x.y - 1 := by omega
    rw [this]; exact ht.junction

theorem fromYm_WF (E : Eph) (hl : ∀ y, E.leap y ≤ 12) (y m : Int) (x : Month) (h : fromYm E y m = some x) :
    WF E x ∧ x.y = y := by
  have hy := fromYm_some_year E y m x h
  unfold fromYm at h
  split at h
  · simp at h
  · split at h
    · simp at h
    · rename_i hm
      split at h
      · simp at h
      · rename_i hlp
        simp only [Option.some.injEq] at h
        subst h
        refine ⟨⟨hy.1, hy.2.1, ?_⟩, rfl⟩
        have := hl y
        unfold Eph.cnt
        dsimp only
        generalize E.leap y = lp at *
        repeat' split
        all_goals omega

/-- backward walk: partial correctness -/
theorem walkBack_spec (E : Eph) (hl : ∀ y, E.leap y ≤ 12) (a b : Int) (ht : TilesOn E a b) (j : Int)
    (hlo : first E ⟨a, 0⟩ ≤ j) :
    ∀ (f : Nat) (x : Month) (days : Int) (r : Month × Int), WF E x → a ≤ x.y → x.y ≤ b →
      days = j - first E x → walkBack E f x days = some r →
      WF E r.1 ∧ a ≤ r.1.y ∧ r.1.y ≤ b ∧ r.2 = j - first E r.1 ∧ 0 ≤ r.2 := by
  intro f
  induction f with
  | zero => intro x days r _ _ _ _ h; simp [walkBack] at h
  | succ f ih =>
    intro x days r hw ha hb hd h
    simp only [walkBack] at h
    split at h
    · rename_i hneg
      split at h
      · simp at h
      · rename_i x' hn
        obtain ⟨w', g'⟩ := next_gpos E hl x hw (-1) x' hn
        have hs := succM_of_gpos E x' x w' hw (by omega)
        have hy' : a ≤ x'.y := by
          by_cases hge : a ≤ x'.y
          · exact hge
          · exfalso
            have hxa : x = ⟨a, 0⟩ := by
              rw [hs]; unfold succM
              rw [hs] at ha; unfold succM at ha
              split
              · rename_i hh; simp only [hh, if_true] at ha; omega
              · rename_i hh; simp only [hh, if_false] at ha
                have : x'.y + 1 = a := by omega
                rw [this]
            rw [hxa] at hd
            omega
        have hyb : x'.y ≤ b := by
          rw [hs] at hb; unfold succM at hb; split at hb <;> (simp only at hb; omega)
        have := tiles_step E x' (ht x'.y hy' hyb) w'.2.2
        rw [← hs] at this
        exact ih x' (days + len E x') r w' hy' hyb (by omega) h
    · rename_i hnn
      simp only [Option.some.injEq] at h
      subst h
      exact ⟨hw, ha, hb, hd, by omega⟩

/-- forward walk: partial correctness -/
theorem walkFwd_spec (E : Eph) (hl : ∀ y, E.leap y ≤ 12) (a b : Int) (ht : TilesOn E a b) (j : Int)
    (hhi : j < first E ⟨b + 1, 0⟩) :
    ∀ (f : Nat) (x : Month) (days : Int) (r : Month × Int), WF E x → a ≤ x.y → x.y ≤ b →
      days = j - first E x → 0 ≤ days → walkFwd E f x days = some r →
      WF E r.1 ∧ a ≤ r.1.y ∧ r.1.y ≤ b ∧ r.2 = j - first E r.1 ∧ 0 ≤ r.2 ∧ r.2 < len E r.1 := by
  intro f
  induction f with
  | zero => intro x days r _ _ _ _ _ h; simp [walkFwd] at h
  | succ f ih =>
    intro x days r hw ha hb hd h0 h
    simp only [walkFwd] at h
    split at h
    · rename_i hge
      split at h
      · simp at h
      · rename_i x' hn
        obtain ⟨w', g'⟩ := next_gpos E hl x hw 1 x' hn
        have hs := succM_of_gpos E x x' hw w' g'
        have hts := tiles_step E x (ht x.y ha hb) hw.2.2
        rw [← hs] at hts
        have hyb : x'.y ≤ b := by
          by_cases hle : x'.y ≤ b
          · exact hle
          · exfalso
            have hx' : x' = ⟨b + 1, 0⟩ := by
              rw [hs]; unfold succM
              rw [hs] at hle; unfold succM at hle
              split
              · rename_i hh; simp only [hh, if_true] at hle; omega
              · rename_i hh; simp only [hh, if_false] at hle
                have : x.y = b := by omega
                rw [this]
            rw [hx'] at hts
            omega
        have hya : a ≤ x'.y := by
          rw [hs]; unfold succM; split <;> (simp only; omega)
        exact ih x' (days - len E x) r w' hya hyb (by omega) (by omega) h
    · rename_i hlt
      simp only [Option.some.injEq] at h
      subst h
      dsimp only
      exact ⟨hw, ha, hb, hd, h0, by omega⟩

/-- `get_lunar_day`: whatever it returns is the month containing the day, with the right day number -/
theorem ofSolar_spec (E : Eph) (hl : ∀ y, E.leap y ≤ 12) (a b : Int) (ht : TilesOn E a b) (Y M D : Int)
    (hY : a ≤ Y) (hY2 : Y ≤ b) (hlo : first E ⟨a, 0⟩ ≤ jdn Y M D) (hhi : jdn Y M D < first E ⟨b + 1, 0⟩)
    (r : Month × Int) (h : ofSolar E Y M D = some r) :
    WF E r.1 ∧ a ≤ r.1.y ∧ r.1.y ≤ b ∧ first E r.1 + r.2 - 1 = jdn Y M D ∧ 1 ≤ r.2 ∧ r.2 ≤ len E r.1 := by
  unfold ofSolar at h
  cases h0 : fromYm E Y M with
  | none => simp [h0] at h
  | some x0 =>
    obtain ⟨w0, y0⟩ := fromYm_WF E hl Y M x0 h0
    simp only [h0] at h
    split at h
    · simp at h
    · cases hb1 : walkBack E WALK_FUEL x0 (jdn Y M D - first E x0) with
      | none => simp [hb1] at h
      | some p1 =>
        obtain ⟨x1, d1⟩ := p1
        obtain ⟨w1, a1, b1, e1, n1⟩ := walkBack_spec E hl a b ht _ hlo _ x0 _ (x1, d1) w0 (by omega) (by omega) rfl hb1
        simp only [hb1] at h
        cases hf2 : walkFwd E WALK_FUEL x1 d1 with
        | none => simp [hf2] at h
        | some p2 =>
          obtain ⟨x2, d2⟩ := p2
          obtain ⟨w2, a2, b2, e2, n2, l2⟩ := walkFwd_spec E hl a b ht _ hhi _ x1 d1 (x2, d2) w1 a1 b1 e1 n1 hf2
          simp only [hf2] at h
          split at h
          · simp at h
          · simp only [Option.some.injEq] at h
            subst h
            dsimp only at *
            exact ⟨w2, a2, b2, by omega, by omega, by omega⟩

end Tyme.Lunar

namespace Tyme.Lunar
open Tyme

theorem gpos_lt_next_year (E : Eph) (v : Month) (hv : WF E v) : gpos E v < cumI E (v.y + 1) := by
  have := cumI_succ E v.y hv.1
  unfold gpos; have := hv.2.2; omega

theorem cumI_le_of_le (E : Eph) (p q : Int) (hp : 0 ≤ p) (hle : p ≤ q) : cumI E p ≤ cumI E q := by
  rcases Int.lt_or_eq_of_le hle with h | h
  · have := cumI_lt_of_lt E p q hp h; have := cnt_cases E p; omega
  · rw [h]; exact Int.le_refl _

theorem WF_succM (E : Eph) (u : Month) (hu : WF E u) (h9 : u.y + 1 ≤ 9999) : WF E (succM E u) := by
  unfold succM
  split
  · rename_i h; exact ⟨hu.1, hu.2.1, h⟩
  · have hc := cnt_cases E (u.y + 1)
    exact ⟨by dsimp only; have := hu.1; omega, by dsimp only; exact h9, by dsimp only; omega⟩

/-- first days are strictly increasing along the listing inside a tiling interval -/
theorem first_mono (E : Eph) (a b : Int) (hb9 : b + 1 ≤ 9999) (ht : TilesOn E a b) (v : Month) (hv : WF E v)
    (hvb : v.y ≤ b ∨ v = ⟨b + 1, 0⟩) :
    ∀ (n : Nat) (u : Month), WF E u → a ≤ u.y → gpos E v = gpos E u + 1 + n → first E u + len E u ≤ first E v := by
  have hvy : v.y ≤ b + 1 := by
    rcases hvb with h | h
    · omega
    · rw [h]; simp
  have hb0 : 0 ≤ b + 1 := by have := hv.1; omega
  have hvmax : gpos E v ≤ cumI E (b + 1) := by
    rcases hvb with h | h
    · have := gpos_lt_next_year E v hv
      have := cumI_le_of_le E (v.y + 1) (b + 1) (by have := hv.1; omega) (by omega)
      omega
    · rw [h]; simp [gpos]
  intro n
  induction n with
  | zero =>
    intro u hu ha hg
    have hub : u.y ≤ b := by
      by_cases h : u.y ≤ b
      · exact h
      · exfalso
        have := cumI_le_of_le E (b + 1) u.y hb0 (by omega)
        unfold gpos at hg hvmax; omega
    have hs := succM_of_gpos E u v hu hv (by omega)
    have := tiles_step E u (ht u.y ha hub) hu.2.2
    rw [← hs] at this; omega
  | succ n ih =>
    intro u hu ha hg
    have hub : u.y ≤ b := by
      by_cases h : u.y ≤ b
      · exact h
      · exfalso
        have := cumI_le_of_le E (b + 1) u.y hb0 (by omega)
        unfold gpos at hg hvmax; omega
    have hts := tiles_step E u (ht u.y ha hub) hu.2.2
    have hw' := WF_succM E u hu (by omega)
    have hg' := gpos_succM E u hu.1 hu.2.2
    have hya : a ≤ (succM E u).y := by unfold succM; split <;> (dsimp only; omega)
    have := ih (succM E u) hw' hya (by omega)
    -- len of the successor is positive
    have hub' : (succM E u).y ≤ b := by
      by_cases h : (succM E u).y ≤ b
      · exact h
      · exfalso
        have := cumI_le_of_le E (b + 1) (succM E u).y hb0 (by omega)
        unfold gpos at hg hg' hvmax; omega
    have hl' := (tiles_step E (succM E u) (ht _ hya hub') hw'.2.2).2
    omega

/-- a day lies in at most one month of a tiling interval -/
theorem month_unique (E : Eph) (a b : Int) (hb9 : b + 1 ≤ 9999) (ht : TilesOn E a b) (u v : Month)
    (hu : WF E u) (hv : WF E v) (hua : a ≤ u.y) (hub : u.y ≤ b) (hva : a ≤ v.y) (hvb : v.y ≤ b) (j : Int)
    (h1 : first E u ≤ j) (h2 : j < first E u + len E u) (h3 : first E v ≤ j) (h4 : j < first E v + len E v) :
    u = v := by
  rcases Int.lt_trichotomy (gpos E u) (gpos E v) with h | h | h
  · have := first_mono E a b hb9 ht v hv (Or.inl hvb) (gpos E v - gpos E u - 1).toNat u hu hua (by omega)
    omega
  · exact gpos_inj E u v hu hv h
  · have := first_mono E a b hb9 ht u hu (Or.inl hub) (gpos E u - gpos E v - 1).toNat v hv hva (by omega)
    omega

end Tyme.Lunar

namespace Tyme.Lunar
open Tyme

theorem year_le_of_gpos_lt (E : Eph) (b : Int) (v : Month) (hv : WF E v) (hvb : v.y ≤ b ∨ v = ⟨b + 1, 0⟩)
    (u : Month) (hu : WF E u) (hg : gpos E u < gpos E v) : u.y ≤ b := by
  have hb0 : 0 ≤ b + 1 := by
    rcases hvb with h | h
    · have := hv.1; omega
    · have := hv.1; rw [h] at this; simpa using this
  have hvmax : gpos E v ≤ cumI E (b + 1) := by
    rcases hvb with h | h
    · have := gpos_lt_next_year E v hv
      have := cumI_le_of_le E (v.y + 1) (b + 1) (by have := hv.1; omega) (by omega)
      omega
    · rw [h]; simp [gpos]
  by_cases h : u.y ≤ b
  · exact h
  · exfalso
    have := cumI_le_of_le E (b + 1) u.y hb0 (by omega)
    unfold gpos at hg hvmax; omega

theorem gpos_lt_of_year_lt (E : Eph) (u v : Month) (hu : WF E u) (h : u.y < v.y) : gpos E u < gpos E v := by
  have := cumI_lt_of_lt E u.y v.y hu.1 h
  unfold gpos; have := hu.2.2; omega

/-- chronological order of (month, day) pairs -/
def lunarLt (E : Eph) (p q : Month × Int) : Prop := gpos E p.1 < gpos E q.1 ∨ (p.1 = q.1 ∧ p.2 < q.2)

theorem lunarLt_iff_jdn (E : Eph) (a b : Int) (hb9 : b + 1 ≤ 9999) (ht : TilesOn E a b) (p q : Month × Int)
    (hp : WF E p.1) (hq : WF E q.1) (hpa : a ≤ p.1.y) (hpb : p.1.y ≤ b) (hqa : a ≤ q.1.y) (hqb : q.1.y ≤ b)
    (hp1 : 1 ≤ p.2) (hp2 : p.2 ≤ len E p.1) (hq1 : 1 ≤ q.2) (hq2 : q.2 ≤ len E q.1) :
    lunarLt E p q ↔ first E p.1 + p.2 - 1 < first E q.1 + q.2 - 1 := by
  unfold lunarLt
  rcases Int.lt_trichotomy (gpos E p.1) (gpos E q.1) with h | h | h
  · have := first_mono E a b hb9 ht q.1 hq (Or.inl hqb) (gpos E q.1 - gpos E p.1 - 1).toNat p.1 hp hpa (by omega)
    constructor
    · intro _; omega
    · intro _; exact Or.inl h
  · have e := gpos_inj E _ _ hp hq h
    constructor
    · rintro (h' | ⟨_, h'⟩)
      · omega
      · rw [e]; omega
    · intro h'; right; refine ⟨e, ?_⟩; rw [e] at h'; omega
  · have := first_mono E a b hb9 ht p.1 hp (Or.inl hpb) (gpos E p.1 - gpos E q.1 - 1).toNat q.1 hq hqa (by omega)
    constructor
    · rintro (h' | ⟨e, _⟩)
      · omega
      · rw [e] at h; omega
    · intro _; omega

end Tyme.Lunar
