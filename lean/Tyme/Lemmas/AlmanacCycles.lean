import Tyme.Model.AlmanacCycles
import Tyme.Spec.AlmanacCycles
import Tyme.Lemmas.Cycle
/-! Helper lemmas for C17: `index_of` is the mathematical modulo for every size the almanac cycles use. -/
namespace Tyme.Alm
open Tyme

/-- `index_of i n = i mod n` for a literal size (same script as Lemmas/Cycle) -/
local macro "idx_tac" n:num : tactic => `(tactic| (
  intro i
  unfold indexOf Term.indexOf
  have e := Int.mul_tdiv_add_tmod i $n
  have b1 := Int.tmod_lt_of_pos i (show (0 : Int) < $n by decide)
  have b2 := Int.lt_tmod_of_pos i (show (0 : Int) < $n by decide)
  rcases Int.le_total 0 i with hv | hv
  · have := Int.tmod_nonneg $n hv
    dsimp only; split <;> omega
  · have hneg : Int.tmod i $n ≤ 0 := by
      have h := Int.tmod_nonneg (a := -i) $n (by omega)
      rw [Int.neg_tmod] at h; omega
    dsimp only; split <;> omega))

theorem indexOf_6 : ∀ i : Int, indexOf i 6 = i % 6 := by idx_tac 6
theorem indexOf_7 : ∀ i : Int, indexOf i 7 = i % 7 := by idx_tac 7
theorem indexOf_9 : ∀ i : Int, indexOf i 9 = i % 9 := by idx_tac 9
theorem indexOf_12 : ∀ i : Int, indexOf i 12 = i % 12 := by idx_tac 12
theorem indexOf_28 : ∀ i : Int, indexOf i 28 = i % 28 := by idx_tac 28
theorem indexOf_30 : ∀ i : Int, indexOf i 30 = i % 30 := by idx_tac 30
theorem indexOf_60 : ∀ i : Int, indexOf i 60 = i % 60 := by idx_tac 60

/-- Rust `%` on a non-negative dividend is the mathematical modulo -/
theorem tmod_nonneg_eq (a n : Int) (ha : 0 ≤ a) : Int.tmod a n = a % n := Int.tmod_eq_emod_of_nonneg ha

theorem branch_eq (p : Int) : branch p = p % 12 := indexOf_12 p

theorem branch_range (p : Int) : 0 ≤ branch p ∧ branch p < 12 := by
  rw [branch_eq]; omega

/-- the literal mansion table is 8·weekday + 10 (mod 28) -/
theorem mansionBase_of (w : Int) (h0 : 0 ≤ w) (h6 : w ≤ 6) : mansionBase w = some ((8 * w + 10) % 28) := by
  have hc : w = 0 ∨ w = 1 ∨ w = 2 ∨ w = 3 ∨ w = 4 ∨ w = 5 ∨ w = 6 := by omega
  rcases hc with h | h | h | h | h | h | h <;> (subst h; decide)

end Tyme.Alm
