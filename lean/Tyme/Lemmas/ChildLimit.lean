import Tyme.Model.ChildLimit
import Tyme.Lemmas.Jd
import Tyme.Lemmas.Clock
import Tyme.Lemmas.Cycle
/-! Helper lemmas for C16 (calendar addition of `next`, month starts on the day line). Core Lean only. -/
namespace Tyme
open CL

/-- month with linear index i = 12·y + (m − 1) -/
def ofMonthIdx (i : Int) : Int × Int := (i / 12, i % 12 + 1)

theorem monthLen_pos (y m : Int) : 21 ≤ monthLen y m ∧ monthLen y m ≤ 31 := by
  rw [monthLen_eq]
  repeat' split
  all_goals omega

/-- the first of the following month is `get_day_count` days after the first of this month — for every month
of 0001-01 .. 9999-11, October 1582 (21 days) included -/
theorem jdn_month_succ (y m : Int) (hy : 1 ≤ y) (hy2 : y ≤ 9999) (hm : 1 ≤ m) (hm2 : m ≤ 12) :
    jdn (if m = 12 then y + 1 else y) (if m = 12 then 1 else m + 1) 1 = jdn y m 1 + monthLen y m := by
  rw [monthLen_eq]
  simp only [isLeap_iff]
  have hmm : m = 1 ∨ m = 2 ∨ m = 3 ∨ m = 4 ∨ m = 5 ∨ m = 6 ∨ m = 7 ∨ m = 8 ∨ m = 9 ∨ m = 10 ∨ m = 11 ∨ m = 12 := by omega
  rcases hmm with rfl|rfl|rfl|rfl|rfl|rfl|rfl|rfl|rfl|rfl|rfl|rfl
  all_goals (
    simp only [jdn_nf]
    simp
    repeat' split
    all_goals omega)

theorem tIndexOf_12 (i : Int) : Term.indexOf i 12 = i % 12 := SC.indexOf_12 i

/-- `SolarMonth::next` with a non-negative step from a valid month is addition on the linear month index -/
theorem monthNext_eq (y m n : Int) (hy : 0 ≤ y) (hm : 1 ≤ m) (hm2 : m ≤ 12) (hn : 0 ≤ n) :
    monthNext y m n =
      if (12 * y + (m - 1) + n) / 12 < 1 ∨ (12 * y + (m - 1) + n) / 12 > 9999 then none
      else some (ofMonthIdx (12 * y + (m - 1) + n)) := by
  unfold monthNext ofMonthIdx
  dsimp only
  rw [tIndexOf_12]
  have e : Int.tdiv (y * 12 + (m - 1 + n)) 12 = (12 * y + (m - 1) + n) / 12 := by
    rw [Int.tdiv_eq_ediv_of_nonneg (by omega)]
    congr 1; omega
  rw [e]
  have e2 : (m - 1 + n) % 12 = (12 * y + (m - 1) + n) % 12 := by omega
  rw [e2]

/-- one step on the month index: the day number of the first of month i+1 -/
theorem jdn_idx_succ (i : Int) (h1 : 12 ≤ i) (h2 : i ≤ 12 * 9999 + 11) :
    jdn (ofMonthIdx (i + 1)).1 (ofMonthIdx (i + 1)).2 1 =
      jdn (ofMonthIdx i).1 (ofMonthIdx i).2 1 + monthLen (ofMonthIdx i).1 (ofMonthIdx i).2 := by
  have := jdn_month_succ (i / 12) (i % 12 + 1) (by omega) (by omega) (by omega) (by omega)
  unfold ofMonthIdx
  dsimp only
  by_cases h : i % 12 + 1 = 12
  · rw [if_pos h, if_pos h] at this
    have a : (i + 1) / 12 = i / 12 + 1 := by omega
    have b : (i + 1) % 12 + 1 = 1 := by omega
    rw [a, b]; exact this
  · rw [if_neg h, if_neg h] at this
    have a : (i + 1) / 12 = i / 12 := by omega
    have b : (i + 1) % 12 + 1 = i % 12 + 1 + 1 := by omega
    rw [a, b]; exact this

/-- month starts are monotone on the day line and at most 31 days apart per month -/
theorem jdn_idx_add : ∀ (n : Nat) (i : Int), 12 ≤ i → i + n ≤ 12 * 9999 + 12 →
    jdn (ofMonthIdx i).1 (ofMonthIdx i).2 1 + 21 * n ≤ jdn (ofMonthIdx (i + n)).1 (ofMonthIdx (i + n)).2 1 ∧
    jdn (ofMonthIdx (i + n)).1 (ofMonthIdx (i + n)).2 1 ≤ jdn (ofMonthIdx i).1 (ofMonthIdx i).2 1 + 31 * n := by
  intro n
  induction n with
  | zero => intro i _ _; simp
  | succ n ih =>
    intro i h1 h2
    have := ih i h1 (by omega)
    have s := jdn_idx_succ (i + n) (by omega) (by omega)
    have l := monthLen_pos (ofMonthIdx (i + (n : Int))).1 (ofMonthIdx (i + (n : Int))).2
    have e : i + ((n + 1 : Nat) : Int) = i + n + 1 := by omega
    rw [e, s]
    omega

/-- inside a month the day number advances with the day-of-month label, except across the ten dropped days -/
theorem jdn_day_offset (y m d : Int) (hm : 1 ≤ m) (hm2 : m ≤ 12) (hd : 1 ≤ d) (hd2 : d ≤ 31)
    (hx : ¬ (y = 1582 ∧ m = 10 ∧ 5 ≤ d)) : jdn y m d = jdn y m 1 + d - 1 := by
  simp only [jdn_nf]
  repeat' split
  all_goals omega

/-- October 1582: labels 15..31 lie 10 day numbers lower than label arithmetic from the 1st would give -/
theorem jdn_oct1582 (d : Int) (h1 : 15 ≤ d) (h2 : d ≤ 31) : jdn 1582 10 d = jdn 1582 10 1 + d - 11 := by
  simp only [jdn_nf]
  repeat' split
  all_goals omega

/-- the carries of `next` conserve the total and normalise hour, minute, second -/
theorem carries_spec (d h mi s : Int) (hh : 0 ≤ h) (hmi : 0 ≤ mi) (hs : 0 ≤ s) :
    let k := carries d h mi s
    86400 * k.1 + 3600 * k.2.1 + 60 * k.2.2.1 + k.2.2.2 = 86400 * d + 3600 * h + 60 * mi + s ∧
    d ≤ k.1 ∧ 0 ≤ k.2.1 ∧ k.2.1 ≤ 23 ∧ 0 ≤ k.2.2.1 ∧ k.2.2.1 ≤ 59 ∧ 0 ≤ k.2.2.2 ∧ k.2.2.2 ≤ 59 := by
  unfold carries
  dsimp only
  omega

/-- the overflow walk: it ends in a month where the remaining day number fits, and month start + day number is conserved -/
theorem walk_spec : ∀ (f : Nat) (d : Int) (sm : Int × Int) (r : Int × Int × Int),
    1 ≤ sm.1 → sm.1 ≤ 9999 → 1 ≤ sm.2 → sm.2 ≤ 12 → 1 ≤ d → walk f d sm = some r →
    1 ≤ r.1 ∧ r.1 ≤ 9999 ∧ 1 ≤ r.2.1 ∧ r.2.1 ≤ 12 ∧ 1 ≤ r.2.2 ∧ r.2.2 ≤ monthLen r.1 r.2.1 ∧
    jdn r.1 r.2.1 1 + r.2.2 = jdn sm.1 sm.2 1 + d ∧
    12 * sm.1 + sm.2 ≤ 12 * r.1 + r.2.1 ∧ (d ≤ monthLen sm.1 sm.2 → r = (sm.1, sm.2, d)) := by
  intro f
  induction f with
  | zero => intro d sm r _ _ _ _ _ h; simp [walk] at h
  | succ f ih =>
    intro d sm r h1 h2 h3 h4 h5 h
    simp only [walk] at h
    split at h
    · rename_i hgt
      rw [monthNext_eq sm.1 sm.2 1 (by omega) h3 h4 (by omega)] at h
      by_cases hr : (12 * sm.1 + (sm.2 - 1) + 1) / 12 < 1 ∨ (12 * sm.1 + (sm.2 - 1) + 1) / 12 > 9999
      · rw [if_pos hr] at h; simp at h
      · rw [if_neg hr] at h
        dsimp only at h
        have hs := jdn_idx_succ (12 * sm.1 + (sm.2 - 1)) (by omega) (by omega)
        have e0 : ofMonthIdx (12 * sm.1 + (sm.2 - 1)) = (sm.1, sm.2) := by
          unfold ofMonthIdx; apply Prod.ext <;> (dsimp only; omega)
        rw [e0] at hs
        dsimp only at hs
        have l := monthLen_pos sm.1 sm.2
        have hv : 1 ≤ (ofMonthIdx (12 * sm.1 + (sm.2 - 1) + 1)).1 ∧ (ofMonthIdx (12 * sm.1 + (sm.2 - 1) + 1)).1 ≤ 9999 ∧
            1 ≤ (ofMonthIdx (12 * sm.1 + (sm.2 - 1) + 1)).2 ∧ (ofMonthIdx (12 * sm.1 + (sm.2 - 1) + 1)).2 ≤ 12 ∧
            12 * sm.1 + sm.2 + 1 = 12 * (ofMonthIdx (12 * sm.1 + (sm.2 - 1) + 1)).1 + (ofMonthIdx (12 * sm.1 + (sm.2 - 1) + 1)).2 := by
          unfold ofMonthIdx; dsimp only; omega
        obtain ⟨a1, a2, a3, a4, a5, a6, a7, a8, _⟩ := ih _ _ r hv.1 hv.2.1 hv.2.2.1 hv.2.2.2.1 (by omega) h
        refine ⟨a1, a2, a3, a4, a5, a6, by omega, by omega, ?_⟩
        intro hle; omega
    · rename_i hle
      simp only [Option.some.injEq] at h
      subst h
      refine ⟨h1, h2, h3, h4, h5, ?_, rfl, ?_, fun _ => rfl⟩ <;> dsimp only <;> omega

/-- the fuel never runs out: `walk` with fuel above the day number returns `none` only by leaving year 9999 -/
theorem walk_fuel : ∀ (f : Nat) (d : Int) (sm : Int × Int),
    1 ≤ sm.1 → sm.1 ≤ 9999 → 1 ≤ sm.2 → sm.2 ≤ 12 → 0 ≤ d → d < f →
    jdn sm.1 sm.2 1 + d - 1 ≤ jdnLast → (walk f d sm).isSome = true := by
  intro f
  induction f with
  | zero => intro d sm _ _ _ _ h0 h _; exfalso; omega
  | succ f ih =>
    intro d sm h1 h2 h3 h4 h0 h5 h6
    simp only [walk]
    split
    · rename_i hgt
      rw [monthNext_eq sm.1 sm.2 1 (by omega) h3 h4 (by omega)]
      have l := monthLen_pos sm.1 sm.2
      have hin : ¬ (sm.1 = 9999 ∧ sm.2 = 12) := by
        rintro ⟨e1, e2⟩
        rw [e1, e2] at h6 hgt
        have e3 : jdn 9999 12 1 = jdnLast - 30 := by decide
        have e4 : monthLen 9999 12 = 31 := by decide
        omega
      by_cases hr : (12 * sm.1 + (sm.2 - 1) + 1) / 12 < 1 ∨ (12 * sm.1 + (sm.2 - 1) + 1) / 12 > 9999
      · exfalso; omega
      · rw [if_neg hr]
        dsimp only
        have hs := jdn_idx_succ (12 * sm.1 + (sm.2 - 1)) (by omega) (by omega)
        have e0 : ofMonthIdx (12 * sm.1 + (sm.2 - 1)) = (sm.1, sm.2) := by
          unfold ofMonthIdx; apply Prod.ext <;> (dsimp only; omega)
        rw [e0] at hs
        dsimp only at hs
        have hv : 1 ≤ (ofMonthIdx (12 * sm.1 + (sm.2 - 1) + 1)).1 ∧ (ofMonthIdx (12 * sm.1 + (sm.2 - 1) + 1)).1 ≤ 9999 ∧
            1 ≤ (ofMonthIdx (12 * sm.1 + (sm.2 - 1) + 1)).2 ∧ (ofMonthIdx (12 * sm.1 + (sm.2 - 1) + 1)).2 ≤ 12 := by
          unfold ofMonthIdx; dsimp only; omega
        exact ih _ _ hv.1 hv.2.1 hv.2.2.1 hv.2.2.2 (by omega) (by omega) (by omega)
    · simp

end Tyme
