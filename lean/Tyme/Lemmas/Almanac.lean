import Tyme.Model.Almanac
import Tyme.Spec.Almanac
/-!
Helper lemmas for C18 (generic: no generated data here).

* walkers `allN`, `all3` (what the kernel evaluates sequentially) and their lifting lemmas to `∀ i < n`;
* a well-formed field (spec) is decoded by the code's hex-pair loop to exactly its values, unwrapped;
* `index_of` / `steps_to` stay below the list size; kitchen-god numbers for every pillar.
-/
namespace Tyme.Almanac
open Tyme.AlmanacSpec

/-! ### walkers -/

/-- `f k x₀ && f (k+1) x₁ && … ` over the first `n` entries; false if the list has fewer than `n` -/
def allN {α : Type} (f : Nat → α → Bool) : Nat → Nat → List α → Bool
  | 0, _, _ => true
  | _ + 1, _, [] => false
  | n + 1, k, x :: r => f k x && allN f n (k + 1) r

theorem allN_spec {α : Type} (f : Nat → α → Bool) :
    ∀ (n k : Nat) (l : List α), allN f n k l = true → ∀ i, i < n → ∃ x, l[i]? = some x ∧ f (k + i) x = true := by
  intro n
  induction n with
  | zero => intro k l _ i hi; omega
  | succ n ih =>
    intro k l h i hi
    cases l with
    | nil => simp [allN] at h
    | cons x r =>
      simp only [allN, Bool.and_eq_true] at h
      cases i with
      | zero => exact ⟨x, by simp, by simpa using h.1⟩
      | succ j =>
        obtain ⟨y, hy, hf⟩ := ih (k + 1) r h.2 j (by omega)
        refine ⟨y, by simpa using hy, ?_⟩
        have : k + (j + 1) = k + 1 + j := by omega
        rw [this]; exact hf

/-- three lists walked in step over the first `n` entries -/
def all3 {α β γ : Type} (f : Nat → α → β → γ → Bool) : Nat → Nat → List α → List β → List γ → Bool
  | 0, _, _, _, _ => true
  | n + 1, k, a :: as, b :: bs, c :: cs => f k a b c && all3 f n (k + 1) as bs cs
  | _ + 1, _, _, _, _ => false

theorem all3_spec {α β γ : Type} (f : Nat → α → β → γ → Bool) :
    ∀ (n k : Nat) (as : List α) (bs : List β) (cs : List γ), all3 f n k as bs cs = true →
      ∀ i, i < n → ∃ a b c, as[i]? = some a ∧ bs[i]? = some b ∧ cs[i]? = some c ∧ f (k + i) a b c = true := by
  intro n
  induction n with
  | zero => intro k as bs cs _ i hi; omega
  | succ n ih =>
    intro k as bs cs h i hi
    match as, bs, cs, h with
    | a :: as, b :: bs, c :: cs, h =>
      simp only [all3, Bool.and_eq_true] at h
      cases i with
      | zero => exact ⟨a, b, c, by simp, by simp, by simp, by simpa using h.1⟩
      | succ j =>
        obtain ⟨x, y, z, hx, hy, hz, hf⟩ := ih (k + 1) as bs cs h.2 j (by omega)
        refine ⟨x, y, z, by simpa using hx, by simpa using hy, by simpa using hz, ?_⟩
        have : k + (j + 1) = k + 1 + j := by omega
        rw [this]; exact hf
    | [], _, _, h => simp [all3] at h
    | _ :: _, [], _, h => simp [all3] at h
    | _ :: _, _ :: _, [], h => simp [all3] at h

theorem forall_lt_12 {P : Nat → Prop} (h0 : P 0) (h1 : P 1) (h2 : P 2) (h3 : P 3) (h4 : P 4) (h5 : P 5)
    (h6 : P 6) (h7 : P 7) (h8 : P 8) (h9 : P 9) (h10 : P 10) (h11 : P 11) : ∀ n, n < 12 → P n := by
  intro n hn
  match n, hn with
  | 0, _ => exact h0 | 1, _ => exact h1 | 2, _ => exact h2 | 3, _ => exact h3
  | 4, _ => exact h4 | 5, _ => exact h5 | 6, _ => exact h6 | 7, _ => exact h7
  | 8, _ => exact h8 | 9, _ => exact h9 | 10, _ => exact h10 | 11, _ => exact h11
  | n + 12, h => omega

/-! ### hex fields: spec ⇒ the code's decoder -/

theorem digit_hexDigit (c : Nat) : hexDigit c = digit? c := rfl

theorem digit_not_sign {c v : Nat} (h : digit? c = some v) : (c == 43) = false ∧ (c == 45) = false := by
  unfold digit? at h
  constructor
  · cases hc : c == 43 with
    | false => rfl
    | true => have := beq_iff_eq.mp hc; subst this; simp at h
  · cases hc : c == 45 with
    | false => rfl
    | true => have := beq_iff_eq.mp hc; subst this; simp at h

/-- a pair of hex digits is read by `from_str_radix` as the number `16·hi + lo` (no sign, nothing negative) -/
theorem parse2_of_digits {a b x y : Nat} (ha : digit? a = some x) (hb : digit? b = some y) :
    parse2 a b = some (Int.ofNat (16 * x + y)) := by
  have hs := digit_not_sign ha
  unfold parse2
  simp only [hs.1, hs.2, digit_hexDigit, ha, hb]
  rfl

/-- **a well-formed field is decoded by the hex-pair loop to exactly its values** (no failure, no negative value) -/
theorem hexPairs_of_fieldValues : ∀ (f : List Nat) (e : List Nat), fieldValues f = some e →
    hexPairs f = some (e.map Int.ofNat)
  | [], e, h => by simp [fieldValues] at h; subst h; rfl
  | [_], e, h => by simp [fieldValues] at h
  | a :: b :: r, e, h => by
    unfold fieldValues at h
    split at h
    · rename_i x y t hx hy ht
      injection h with h; subst h
      have ih := hexPairs_of_fieldValues r t ht
      unfold hexPairs
      rw [parse2_of_digits hx hy, ih]
      rfl
    · cases h

/-- a well-formed field has an even number of bytes: two per value -/
theorem length_of_fieldValues : ∀ (f : List Nat) (e : List Nat), fieldValues f = some e → f.length = 2 * e.length
  | [], e, h => by simp [fieldValues] at h; subst h; rfl
  | [_], e, h => by simp [fieldValues] at h
  | a :: b :: r, e, h => by
    unfold fieldValues at h
    split at h
    · rename_i x y t hx hy ht
      injection h with h; subst h
      have ih := length_of_fieldValues r t ht
      simp only [List.length_cons, ih]; omega
    · cases h

/-! ### index_of -/

theorem indexOf_lt (i : Int) {n : Nat} (hn : 0 < n) : indexOf i n < n := by
  unfold indexOf
  have hpos : (0 : Int) < (n : Int) := by omega
  have h1 := Int.tmod_lt_of_pos i hpos
  have h2 := Int.lt_tmod_of_pos i hpos
  dsimp only
  split <;> omega

/-- `index_of` is the mathematical residue -/
theorem indexOf_eq_emod (i : Int) {n : Nat} (hn : 0 < n) : (indexOf i n : Int) = i % (n : Int) := by
  unfold indexOf
  have hpos : (0 : Int) < (n : Int) := by omega
  have h1 := Int.tmod_lt_of_pos i hpos
  have h2 := Int.lt_tmod_of_pos i hpos
  have h3 := Int.mul_tdiv_add_tmod i n
  have h4 := Int.emod_add_mul_ediv i n
  have h5 := Int.emod_nonneg i (show (n : Int) ≠ 0 by omega)
  have h6 := Int.emod_lt_of_pos i hpos
  dsimp only
  -- i = n * q + r = n * q' + r', both r, r' (after repair) in [0, n): equal
  have key : ∀ r : Int, 0 ≤ r → r < n → (∃ q : Int, i = n * q + r) → r = i % (n : Int) := by
    intro r hr0 hrn ⟨q, hq⟩
    have : (n : Int) * (q - i / n) = i % n - r := by
      have : (n : Int) * (q - i / n) = n * q - n * (i / n) := by rw [Int.mul_sub]
      rw [this]; omega
    have hdiv : (n : Int) ∣ (i % n - r) := ⟨_, this.symm⟩
    have hlt : (i % (n : Int) - r).natAbs < n := by omega
    have := Int.eq_zero_of_dvd_of_natAbs_lt_natAbs hdiv (by simpa using hlt)
    omega
  split
  · rename_i hneg
    rw [Int.toNat_of_nonneg (by omega)]
    exact key _ (by omega) (by omega) ⟨i.tdiv n - 1, by rw [Int.mul_sub]; omega⟩
  · rename_i hneg
    rw [Int.toNat_of_nonneg (by omega)]
    exact key _ (by omega) (by omega) ⟨i.tdiv n, by omega⟩

/-- a value inside the list is not moved by `from_index` -/
theorem indexOf_ofNat_of_lt {v n : Nat} (h : v < n) : indexOf (Int.ofNat v) n = v := by
  have := indexOf_eq_emod (Int.ofNat v) (show 0 < n by omega)
  have h2 : (Int.ofNat v) % (n : Int) = v := Int.emod_eq_of_lt (by simp) (by simp; omega)
  rw [h2] at this
  exact Int.ofNat.inj this

theorem wrapAll_of_lt {n : Nat} (e : List Nat) (h : ∀ v ∈ e, v < n) :
    wrapAll n (some (e.map Int.ofNat)) = some e := by
  unfold wrapAll
  simp only [Option.map_some, List.map_map, Option.some.injEq]
  induction e with
  | nil => rfl
  | cons a t ih =>
    simp only [List.map_cons, List.cons.injEq]
    refine ⟨indexOf_ofNat_of_lt (h a (by simp)), ih (fun v hv => h v (by simp [hv]))⟩

/-- **`steps_to` of any target, from any element, is below the list size** -/
theorem stepsTo_lt (index : Nat) {size : Nat} (h : 0 < size) (target : Int) : stepsTo index size target < size :=
  indexOf_lt _ h

end Tyme.Almanac

namespace Tyme.Almanac
open Tyme.AlmanacSpec

/-! ### packed records -/

/-- consecutive `w`-bit records of `n`, least significant first: `f i r₀ && f (i+1) r₁ && …` over `c` records.
This is what the kernel evaluates (a handful of GMP operations per record). -/
def walkRecs (w : Nat) (f : Nat → Nat → Bool) : Nat → Nat → Nat → Bool
  | 0, _, _ => true
  | c + 1, i, n => f i (n % 2 ^ w) && walkRecs w f c (i + 1) (n >>> w)

theorem walkRecs_spec (w : Nat) (f : Nat → Nat → Bool) :
    ∀ (c i n : Nat), walkRecs w f c i n = true → ∀ j, j < c → f (i + j) ((n >>> (w * j)) % 2 ^ w) = true := by
  intro c
  induction c with
  | zero => intro i n _ j hj; omega
  | succ c ih =>
    intro i n h j hj
    simp only [walkRecs, Bool.and_eq_true] at h
    cases j with
    | zero => simpa using h.1
    | succ k =>
      have := ih (i + 1) (n >>> w) h.2 k (by omega)
      have e1 : i + 1 + k = i + (k + 1) := by omega
      have e2 : n >>> w >>> (w * k) = n >>> (w * (k + 1)) := by
        rw [← Nat.shiftRight_add]; congr 1; rw [Nat.mul_succ]; omega
      rw [e1, e2] at this
      exact this

/-! ### kitchen god: every pillar -/

/-- the model's answer for each of the 60 pillars as 136-bit records `p, n₁ … n₁₆` (one byte each), pillar 0 lowest.
A constant of the model (not data): its correctness is `kitchenT60_spec`. Lets the kernel compare a year's record
with the model in O(1). -/
def kitchenT60 : Nat := 0x5040404090402010B0B0806050302023B060505050A0503020C0C0907060403033A070606060106040301010A080705040439080707070207050402020B090806050538090808080308060503030C0A09070606370A090909040907060404010B0A08070736010A0A0A050A08070505020C0B09080835020B010B06010908060603010C0A090934030C020C07020A0907070402010B0A0A33040103010803010A08080503020C0B0B32050204020904020B0909060403010C0C31060305030A05030C0A0A0705040201013007040604010604010B0B0806050302022F08050705020705020C0C0907060403032E090608060308060301010A08070504042D0A0709070409070402020B09080605052C01080A08050A080503030C0A090706062B02090109060109060404010B0A0807072A030A020A07020A070505020C0B09080829040B030B08030108060603010C0A090928050C040C0904020907070402010B0A0A27060105010A05030A08080503020C0B0B26070206020106040B0909060403010C0C25080307030207050C0A0A0705040201012409040804030806010B0B080605030202230A050905040907020C0C0907060403032201060A06050A080301010A080705040421020701070601090402020B0908060505200308020807020A0503030C0A090706061F04090309080301060404010B0A0807071E050A040A090402070505020C0B0908081D060B050B0A050308060603010C0A09091C070C060C0106040907070402010B0A0A1B080107010207050A08080503020C0B0B1A090208020308060B0909060403010C0C190A0309030409070C0A0A0705040201011801040A04050A08010B0B0806050302021702050105060109020C0C090706040303160306020607020A0301010A080705040415040703070803010402020B090806050514050804080904020503030C0A0907060613060905090A0503060404010B0A08070712070A060A010604070505020C0B09080811080B070B02070508060603010C0A090910090C080C0308060907070402010B0A0A0F0A0109010409070A08080503020C0B0B0E01020A02050A080B0909060403010C0C0D020301030601090C0A0A0705040201010C0304020407020A010B0B0806050302020B04050305080301020C0C0907060403030A050604060904020301010A080705040409060705070A05030402020B090806050508070806080106040503030C0A090706060708090709020705060404010B0A08070706090A080A030806070505020C0B090808050A0B090B04090708060603010C0A090904010C0A0C050A080907070402010B0A0A03020101010601090A08080503020C0B0B020302020207020A0B0909060403010C0C01040303030803010C0A0A07050402010100

/-- record of pillar `p` -/
def kitchenT60At (p : Nat) : Nat := (kitchenT60 >>> (136 * p)) % 2 ^ 136

/-- the 16 numbers of a 136-bit record -/
def numsOfRec (r : Nat) : List Nat := unpack 16 (r / 256)

/-- for every pillar: the table entry is the model's answer, which is the spec's (ordinal of the first day carrying
the sign), and all 16 numbers are in 1..12 -/
theorem kitchenT60_spec : ∀ p, p < 60 →
    kitchenT60At p % 256 = p ∧ kitchen p = some (numsOfRec (kitchenT60At p)) ∧
    AlmanacSpec.kitchen p = (numsOfRec (kitchenT60At p)).map some ∧
    ∀ x ∈ numsOfRec (kitchenT60At p), 1 ≤ x ∧ x ≤ 12 := by decide +kernel

end Tyme.Almanac

namespace Tyme.Almanac

/-! ### block layout ⇒ the leftmost scan returns the aligned record (all strings) -/

/-- `;` a b field `;` a b field … : the text of a list of labelled records -/
def renderBlocks : List (Nat × Nat × List Nat) → List Nat
  | [] => []
  | (a, b, f) :: rest => 59 :: a :: b :: (f ++ renderBlocks rest)

/-- neither `;` nor `\n` -/
def cleanByte (c : Nat) : Bool := c != 59 && c != 10

/-- label and field bytes are clean, the field is not empty -/
def cleanBlock (blk : Nat × Nat × List Nat) : Bool :=
  cleanByte blk.1 && cleanByte blk.2.1 && !blk.2.2.isEmpty && blk.2.2.all cleanByte

theorem findRecord_skip (h1 h2 : Nat) : ∀ (l R : List Nat), (∀ c ∈ l, (c == 59) = false) →
    findRecord h1 h2 (l ++ R) = findRecord h1 h2 R
  | [], R, _ => rfl
  | c :: l, R, h => by
    have hc : (c == 59) = false := h c (by simp)
    have ih := findRecord_skip h1 h2 l R (fun x hx => h x (by simp [hx]))
    have step : findRecord h1 h2 (c :: (l ++ R)) = findRecord h1 h2 (l ++ R) := by
      rw [findRecord]; simp only [hc, Bool.false_eq_true, if_false]
    show findRecord h1 h2 (c :: (l ++ R)) = _
    rw [step]; exact ih

theorem takeField_append (l R : List Nat) (hl : ∀ c ∈ l, (c == 59) = false) (hR : R = [] ∨ ∃ t, R = 59 :: t) :
    takeField (l ++ R) = l := by
  induction l with
  | nil =>
    rcases hR with rfl | ⟨t, rfl⟩
    · rfl
    · simp [takeField]
  | cons c l ih =>
    have hc : (c == 59) = false := hl c (by simp)
    have step : takeField (c :: (l ++ R)) = c :: takeField (l ++ R) := by
      rw [takeField]; simp only [hc, Bool.false_eq_true, if_false]
    show takeField (c :: (l ++ R)) = _
    rw [step, ih (fun x hx => hl x (by simp [hx]))]

theorem cleanByte_ne59 {c : Nat} (h : cleanByte c = true) : (c == 59) = false := by
  unfold cleanByte at h
  simp only [Bool.and_eq_true, bne_iff_ne, ne_eq] at h
  exact beq_false_of_ne h.1

theorem cleanByte_ne10 {c : Nat} (h : cleanByte c = true) : (c != 10) = true := by
  unfold cleanByte at h
  simp only [Bool.and_eq_true] at h
  exact h.2

theorem renderBlocks_head (blocks : List (Nat × Nat × List Nat)) (tail : List Nat) (ht : tail = [] ∨ tail = [59]) :
    renderBlocks blocks ++ tail = [] ∨ ∃ t, renderBlocks blocks ++ tail = 59 :: t := by
  cases blocks with
  | nil => rcases ht with rfl | rfl <;> simp [renderBlocks]
  | cons b rest => obtain ⟨a, b, f⟩ := b; right; exact ⟨_, rfl⟩

/-- **For ANY text laid out as labelled records** (`;` + two label bytes + non-empty field, all bytes clean, optionally one
trailing `;`) and any label not containing `;`: the leftmost match of `;H₁H₂(.[^;]*)` is the field of the first record
carrying that label — never a misaligned piece of another record. -/
theorem findRecord_render (h1 h2 : Nat) (tail : List Nat) (ht : tail = [] ∨ tail = [59]) :
    ∀ (blocks : List (Nat × Nat × List Nat)), (∀ blk ∈ blocks, cleanBlock blk = true) →
      findRecord h1 h2 (renderBlocks blocks ++ tail) =
        (blocks.find? fun blk => blk.1 == h1 && blk.2.1 == h2).map (·.2.2)
  | [], _ => by
    rcases ht with rfl | rfl
    · rfl
    · simp [renderBlocks, findRecord, matchHere]
  | (a, b, f) :: rest, hclean => by
    have hb : cleanBlock (a, b, f) = true := hclean _ (by simp)
    have ih := findRecord_render h1 h2 tail ht rest (fun blk hblk => hclean blk (by simp [hblk]))
    unfold cleanBlock at hb
    simp only [Bool.and_eq_true, Bool.not_eq_true', List.isEmpty_eq_false_iff, List.all_eq_true] at hb
    obtain ⟨⟨⟨ha, hb'⟩, hne⟩, hf⟩ := hb
    cases f with
    | nil => exact absurd rfl hne
    | cons x f' =>
      have hx10 : (x != 10) = true := cleanByte_ne10 (hf x (by simp))
      have hf59 : ∀ c ∈ x :: f', (c == 59) = false := fun c hc => cleanByte_ne59 (hf c hc)
      have hR := renderBlocks_head rest tail ht
      show findRecord h1 h2 (59 :: a :: b :: x :: (f' ++ renderBlocks rest) ++ tail) = _
      have e : (59 :: a :: b :: x :: (f' ++ renderBlocks rest) ++ tail) = 59 :: a :: b :: x :: (f' ++ (renderBlocks rest ++ tail)) := by
        simp [List.append_assoc]
      rw [e, findRecord]
      simp only [beq_self_eq_true, if_true]
      by_cases hm : (a == h1 && b == h2) = true
      · simp only [matchHere, List.find?_cons, hm, hx10, Bool.and_true, if_true, Option.map_some]
        rw [takeField_append f' _ (fun c hc => hf59 c (by simp [hc])) hR]
      · have hm' : (a == h1 && b == h2) = false := by simpa using hm
        simp only [matchHere, List.find?_cons, hm', Bool.false_and, Bool.false_eq_true, if_false]
        -- continue the scan inside this record: a, b and the field contain no `;`
        have hskip := findRecord_skip h1 h2 (a :: b :: x :: f') (renderBlocks rest ++ tail)
          (by
            intro c hc
            simp only [List.mem_cons] at hc
            rcases hc with rfl | rfl | hc
            · exact cleanByte_ne59 ha
            · exact cleanByte_ne59 hb'
            · exact hf59 c (by simpa using hc))
        have e2 : a :: b :: x :: (f' ++ (renderBlocks rest ++ tail)) = (a :: b :: x :: f') ++ (renderBlocks rest ++ tail) := by simp
        rw [e2, hskip, ih]


/-- (untrusted helper) the records a text seems to consist of: pieces between `;`, first two bytes = label -/
def blockOfPiece : List Nat → Option (Nat × Nat × List Nat)
  | a :: b :: f => some (a, b, f)
  | _ => none

def blocksOf (s : List Nat) : List (Nat × Nat × List Nat) := ((splitOn 59 s).drop 1).filterMap blockOfPiece

/-- `s` IS the text of `blocks` (optionally followed by one `;`) and every block is clean — checked, not assumed -/
def layoutOk (s : List Nat) (blocks : List (Nat × Nat × List Nat)) : Bool :=
  (decide (renderBlocks blocks = s) || decide (renderBlocks blocks ++ [59] = s)) && blocks.all cleanBlock

/-- the field of the first block labelled `h1 h2` -/
def blockField (blocks : List (Nat × Nat × List Nat)) (h1 h2 : Nat) : Option (List Nat) :=
  (blocks.find? fun blk => blk.1 == h1 && blk.2.1 == h2).map (·.2.2)

theorem findRecord_of_layout {s : List Nat} {blocks : List (Nat × Nat × List Nat)} (h : layoutOk s blocks = true)
    (h1 h2 : Nat) : findRecord h1 h2 s = blockField blocks h1 h2 := by
  unfold layoutOk at h
  simp only [Bool.and_eq_true, Bool.or_eq_true, decide_eq_true_eq, List.all_eq_true] at h
  obtain ⟨hs, hclean⟩ := h
  rcases hs with hs | hs
  · have := findRecord_render h1 h2 [] (Or.inl rfl) blocks hclean
    rw [List.append_nil, hs] at this; exact this
  · have := findRecord_render h1 h2 [59] (Or.inr rfl) blocks hclean
    rw [hs] at this; exact this

end Tyme.Almanac
