import Tyme.Lemmas.Containers
import Tyme.Lemmas.LunarWalk
import Tyme.Thm.C06
import Tyme.Thm.C08
/-!
Helper lemmas for C13: `SixtyCycleMonth::get_days` lists exactly the days from the month's Jie day to the day before the
next Jie day. Everything is stated for an abstract ephemeris under named facts (`TermFacts`, `NewYearFacts`), which are
kernel-decided for `realEph` in Facts/C13Win.lean.
-/
namespace Tyme.Cont
open Tyme

/-! ### January 1 as a function of the year -/

theorem jan1_step (y : Int) (h : 1 ≤ y) : jdn y 1 1 + 355 ≤ jdn (y + 1) 1 1 ∧ jdn (y + 1) 1 1 ≤ jdn y 1 1 + 366 := by
  rw [jdn_nf, jdn_nf]
  have h12 : (1 : Int) ≤ 2 := by decide
  simp only [h12, if_true]
  have e : y + 1 - 1 = y := by omega
  rw [e]
  constructor
  · split <;> split <;> omega
  · split <;> split <;> omega

theorem jan1_mono (a b : Int) (ha : 1 ≤ a) (hab : a ≤ b) : jdn a 1 1 ≤ jdn b 1 1 := by
  have key : ∀ n : Nat, jdn a 1 1 ≤ jdn (a + n) 1 1 := by
    intro n
    induction n with
    | zero => simp
    | succ n ih =>
      have := (jan1_step (a + n) (by omega)).1
      have e : a + ((n + 1 : Nat) : Int) = a + n + 1 := by omega
      rw [e]; omega
  have := key (b - a).toNat
  have e : a + ((b - a).toNat : Int) = b := by omega
  rw [e] at this; exact this

theorem jan1_strict (a b : Int) (ha : 1 ≤ a) (hab : a < b) : jdn a 1 1 + 355 ≤ jdn b 1 1 := by
  have := (jan1_step a ha).1
  have := jan1_mono (a + 1) b (by omega) (by omega)
  omega

/-- a date lies between January 1 of its year and January 1 of the next -/
theorem year_bounds (Y M D : Int) (hv : Civil.valid Y M D = true) :
    jdn Y 1 1 ≤ jdn Y M D ∧ jdn Y M D < jdn (Y + 1) 1 1 := by
  obtain ⟨h1, h2, h3, h4, h5, h6, h7⟩ := (valid_iff Y M D).1 hv
  have i := C01_indexInYear Y M D hv
  refine ⟨by have : dayIndexInYear (Y, M, D) = jdn Y M D - jdn Y 1 1 := rfl; omega, ?_⟩
  -- (Y, M, D) is not after (Y, 12, 31), and January 1 follows December 31
  have hv31 : Civil.valid Y 12 31 = true := by rw [valid_iff, lastDay_eq]; simp; omega
  have hle : jdn Y M D ≤ jdn Y 12 31 := by
    by_cases hlt : jdn Y 12 31 < jdn Y M D
    · have := (C01_lt_iff (Y, 12, 31) (Y, M, D) hv31 hv).2 hlt
      have hl := lastDay_cases Y M
      unfold Civil.lt at this; dsimp only at this; omega
    · omega
  have : jdn (Y + 1) 1 1 = jdn Y 12 31 + 1 := by
    rw [jdn_nf, jdn_nf]
    have h12 : (1 : Int) ≤ 2 := by decide
    have h122 : ¬ ((12 : Int) ≤ 2) := by decide
    simp only [h12, h122, if_true, if_false]
    have e : Y + 1 - 1 = Y := by omega
    rw [e]
    split <;> split <;> omega
  omega

/-- the civil year of a date is determined by the day number -/
theorem year_unique (Y M D G : Int) (hv : Civil.valid Y M D = true) (hG : 1 ≤ G)
    (h1 : jdn G 1 1 ≤ jdn Y M D) (h2 : jdn Y M D < jdn (G + 1) 1 1) : Y = G := by
  obtain ⟨b1, b2⟩ := year_bounds Y M D hv
  obtain ⟨hy, _⟩ := (valid_iff Y M D).1 hv
  rcases Int.lt_trichotomy Y G with h | h | h
  · have := jan1_mono (Y + 1) G (by omega) (by omega); omega
  · exact h
  · have := jan1_mono (G + 1) Y (by omega) (by omega); omega

/-! ### named facts about the ephemeris -/

/-- what the term table must satisfy (kernel-decided for `realEph`: C06_inc_fact, terms_repr_fact, c13_termWin_all) -/
structure TermFacts (E : Eph) : Prop where
  /-- exactly the terms 1..239977 have a representable civil instant -/
  repr : ∀ g : Nat, E.termDay g = 0 ↔ (g = 0 ∨ 239978 ≤ g)
  /-- successive term days are 14..16 days apart -/
  inc : ∀ g : Nat, 1 ≤ g → g + 1 ≤ 239977 → E.termDay g + 14 ≤ E.termDay (g + 1) ∧ E.termDay (g + 1) ≤ E.termDay g + 16
  /-- Lichun of civil year Y falls 24..36 days after January 1 of Y -/
  lichun : ∀ Y : Nat, 1 ≤ Y → Y ≤ 9999 →
    jdn (Y : Int) 1 1 + 24 ≤ E.termDay (24 * (Y - 1) + 3) ∧ E.termDay (24 * (Y - 1) + 3) ≤ jdn (Y : Int) 1 1 + 36
  /-- the winter solstice opening term-year Y falls at least 9 days before January 1 of Y -/
  dongzhi : ∀ Y : Nat, 2 ≤ Y → Y ≤ 10000 → E.termDay (24 * (Y - 1)) + 9 ≤ jdn (Y : Int) 1 1

theorem term_mono (E : Eph) (tf : TermFacts E) (a b : Nat) (ha : 1 ≤ a) (hab : a ≤ b) (hb : b ≤ 239977) :
    E.termDay a + 14 * ((b : Int) - a) ≤ E.termDay b := by
  have key : ∀ n : Nat, a + n ≤ 239977 → E.termDay a + 14 * (n : Int) ≤ E.termDay (a + n) := by
    intro n
    induction n with
    | zero => intro _; simp
    | succ n ih =>
      intro h
      have := ih (by omega)
      have := (tf.inc (a + n) (by omega) (by omega)).1
      have e : a + (n + 1) = a + n + 1 := by omega
      rw [e]; push_cast; omega
  have := key (b - a) (by omega)
  have e : a + (b - a) = b := by omega
  rw [e] at this
  have e2 : ((b - a : Nat) : Int) = (b : Int) - a := by omega
  rw [e2] at this; exact this

/-- the term that contains a day is unique -/
theorem term_unique (E : Eph) (tf : TermFacts E) (a b : Nat) (j : Int) (ha : 1 ≤ a) (hb : 1 ≤ b)
    (ha2 : a + 1 ≤ 239977) (hb2 : b + 1 ≤ 239977)
    (a1 : E.termDay a ≤ j) (a2 : j < E.termDay (a + 1)) (b1 : E.termDay b ≤ j) (b2 : j < E.termDay (b + 1)) : a = b := by
  rcases Nat.lt_trichotomy a b with h | h | h
  · have := term_mono E tf (a + 1) b (by omega) (by omega) (by omega); omega
  · exact h
  · have := term_mono E tf (b + 1) a (by omega) (by omega) (by omega); omega

/-! ### the sexagenary view of a day, in terms of the term that contains it -/

/-- the lunar year of the day is one the year-pillar adjustment handles: the civil year, the one before, or the one
after when the day is not before Lichun (late-December new year) -/
def LunarYearOK (E : Eph) (Y M D : Int) : Prop :=
  ∀ x k, Lunar.ofSolar E Y M D = some (x, k) →
    x.y = Y ∨ x.y = Y - 1 ∨ (x.y = Y + 1 ∧ ¬ jdn Y M D < E.termDay (24 * (Y - 1) + 3).toNat)

/-- ordinal of the sexagenary month that the days of term g belong to: months counted from the first month of
sexagenary year 1 (month k of year y has ordinal 12(y−1) + k; it consists of the terms 24(y−1)+3+2k and the next) -/
def monthOrd (g : Nat) : Int := ((g : Int) - 3) / 2

theorem cycNext_eq (p n : Int) : SC.cycNext p n = (p + n) % 60 := by
  unfold SC.cycNext; rw [SC.indexOf_60]

set_option maxHeartbeats 1000000 in
/-- END-TO-END (C08): whenever `SixtyCycleDay::from_solar_day` returns, the year pillar is that of the sexagenary year
and the month pillar that of the sexagenary month (Five Tigers) containing the term g the day lies in. -/
theorem view_of_day (E : Eph) (tf : TermFacts E) (Y M D : Int) (hv : Civil.valid Y M D = true) (hY : Y ≤ 9998)
    (v : SC.DayView) (hview : SC.ofSolarDay E Y M D = some v) (hLY : LunarYearOK E Y M D) :
    ∃ g : Nat, 1 ≤ g ∧ g + 1 ≤ 239977 ∧ E.termDay g ≤ jdn Y M D ∧ jdn Y M D < E.termDay (g + 1) ∧
      ∃ fm, SC.lunarMonthPillar (monthOrd g / 12 + 1) 0 = some fm ∧
        v.year = SC.yearPillar (monthOrd g / 12 + 1) ∧ v.month = SC.cycNext fm (monthOrd g % 12) := by
  obtain ⟨x, k, g, kk, fm, hr, hg, hfm, hyear, hmonth⟩ := C08_day_view E Y M D v hview
  obtain ⟨t1, t2, t3, _, _⟩ := C06_ofDay_spec E Y M D g kk hg
  obtain ⟨hY1, _, _⟩ := (valid_iff Y M D).1 hv
  obtain ⟨yb1, yb2⟩ := year_bounds Y M D hv
  have hly := hLY x k hr
  generalize hj : jdn Y M D = j at *
  -- g is representable and well below the end of the table
  have hg1 : 1 ≤ g ∧ g ≤ 239977 := by
    by_cases h : g = 0 ∨ 239978 ≤ g
    · exact absurd ((tf.repr g).2 h) t1
    · omega
  have hgu : g < 24 * 9998 + 3 := by
    by_cases h : g < 24 * 9998 + 3
    · exact h
    · exfalso
      have m := term_mono E tf (24 * 9998 + 3) g (by omega) (by omega) hg1.2
      have l := (tf.lichun 9999 (by omega) (by omega)).1
      have e : 24 * (9999 - 1) + 3 = 24 * 9998 + 3 := rfl
      rw [e] at l
      have := jan1_mono (Y + 1) ((9999 : Nat) : Int) (by omega) (by omega)
      omega
  have t3' : j < E.termDay (g + 1) := by
    rcases t3 with h | h
    · have := (tf.repr (g + 1)).1 h; omega
    · exact h
  refine ⟨g, hg1.1, by omega, t2, t3', ?_⟩
  -- split g = 24 (G − 1) + r
  obtain ⟨G, r, hG, hr24, hgG⟩ : ∃ G r : Nat, 1 ≤ G ∧ r < 24 ∧ g = 24 * (G - 1) + r := ⟨g / 24 + 1, g % 24, by omega, by omega, by omega⟩
  have hG9 : G ≤ 9999 := by omega
  have hmod : g % 24 = r := by omega
  rw [hmod] at hmonth
  have lG := tf.lichun G hG hG9
  by_cases hr3 : 3 ≤ r
  · -- terms Lichun .. Daxue: the day lies in civil year G, on or after Lichun
    have m1 := term_mono E tf (24 * (G - 1) + 3) g (by omega) (by omega) hg1.2
    have m2 := term_mono E tf (g + 1) (24 * G) (by omega) (by omega) (by omega)
    have dz := tf.dongzhi (G + 1) (by omega) (by omega)
    have e1 : 24 * (G + 1 - 1) = 24 * G := by omega
    rw [e1] at dz
    have eY : Y = (G : Int) := by
      apply year_unique Y M D (G : Int) hv (by omega)
      · rw [hj]; omega
      · rw [hj]; push_cast at dz ⊢; omega
    subst eY
    have esp : (24 * ((G : Int) - 1) + 3).toNat = 24 * (G - 1) + 3 := by omega
    rw [esp] at hyear hmonth hly
    have hb : decide (j < E.termDay (24 * (G - 1) + 3)) = false := by simp; omega
    have hadj := C08_adjYear (G : Int) x.y false (by
      rcases hly with h | h | ⟨h, _⟩
      · exact Or.inl h
      · exact Or.inr (Or.inl h)
      · exact Or.inr (Or.inr ⟨h, rfl⟩))
    rw [hb, hadj] at hyear
    have hmo := C08_monthOffset (r : Int) (by omega) (by omega) (decide (E.termDay g > E.termDay (24 * (G - 1) + 3)))
    have h3 : (3 : Int) ≤ (r : Int) := by omega
    simp only [h3, if_true] at hmo
    rw [hmo] at hmonth
    have eN : monthOrd g = 12 * ((G : Int) - 1) + ((r : Int) - 3) / 2 := by unfold monthOrd; omega
    have eN1 : monthOrd g / 12 + 1 = (G : Int) := by omega
    have eN2 : monthOrd g % 12 = ((r : Int) - 3) / 2 := by omega
    rw [eN1, eN2]
    exact ⟨fm, hfm, by simpa using hyear, hmonth⟩
  · -- terms Dongzhi, Xiaohan, Dahan: December of G − 1 (after Lichun) or January/February of G (before Lichun)
    have m2 := term_mono E tf (g + 1) (24 * (G - 1) + 3) (by omega) (by omega) (by omega)
    have js := jan1_step (G : Int) (by omega)
    have eN : monthOrd g = 12 * ((G : Int) - 1) + ((r : Int) - 3) / 2 := by unfold monthOrd; omega
    have eN1 : monthOrd g / 12 + 1 = (G : Int) - 1 := by omega
    have eN2 : monthOrd g % 12 = ((r : Int) + 21) / 2 := by omega
    rw [eN1, eN2]
    have hmo := C08_monthOffset (r : Int) (by omega) (by omega)
    have h3 : ¬ ((3 : Int) ≤ (r : Int)) := by omega
    simp only [h3, if_false] at hmo
    by_cases hdec : j < jdn (G : Int) 1 1
    · -- December of civil year G − 1
      have hG2 : 2 ≤ G := by
        by_cases h : 2 ≤ G
        · exact h
        · exfalso
          have : G = 1 := by omega
          subst this
          have := jan1_mono 1 Y (by omega) hY1
          have e : ((1 : Nat) : Int) = 1 := rfl
          rw [e] at hdec; omega
      have lP := tf.lichun (G - 1) (by omega) (by omega)
      have m1 := term_mono E tf (24 * (G - 1 - 1) + 3) g (by omega) (by omega) hg1.2
      have eY : Y = ((G - 1 : Nat) : Int) := by
        apply year_unique Y M D ((G - 1 : Nat) : Int) hv (by omega)
        · rw [hj]; omega
        · rw [hj]
          have e : ((G - 1 : Nat) : Int) + 1 = (G : Int) := by omega
          rw [e]; exact hdec
      subst eY
      have esp : (24 * (((G - 1 : Nat) : Int) - 1) + 3).toNat = 24 * (G - 1 - 1) + 3 := by omega
      rw [esp] at hyear hmonth hly
      have hb : decide (j < E.termDay (24 * (G - 1 - 1) + 3)) = false := by simp; omega
      have ha : decide (E.termDay g > E.termDay (24 * (G - 1 - 1) + 3)) = true := by simp; omega
      have hadj := C08_adjYear ((G - 1 : Nat) : Int) x.y false (by
        rcases hly with h | h | ⟨h, _⟩
        · exact Or.inl h
        · exact Or.inr (Or.inl h)
        · exact Or.inr (Or.inr ⟨h, rfl⟩))
      rw [hb, hadj] at hyear
      rw [ha, hmo true] at hmonth
      have e : ((G - 1 : Nat) : Int) = (G : Int) - 1 := by omega
      rw [e] at hfm hyear
      exact ⟨fm, hfm, by simpa using hyear, by simpa using hmonth⟩
    · -- January / February of civil year G, before Lichun
      have eY : Y = (G : Int) := by
        apply year_unique Y M D (G : Int) hv (by omega)
        · rw [hj]; omega
        · rw [hj]; omega
      subst eY
      have esp : (24 * ((G : Int) - 1) + 3).toNat = 24 * (G - 1) + 3 := by omega
      rw [esp] at hyear hmonth hly
      have hb : decide (j < E.termDay (24 * (G - 1) + 3)) = true := by simp; omega
      have ha : decide (E.termDay g > E.termDay (24 * (G - 1) + 3)) = false := by simp; omega
      have hadj := C08_adjYear (G : Int) x.y true (by
        rcases hly with h | h | ⟨h, h'⟩
        · exact Or.inl h
        · exact Or.inr (Or.inl h)
        · exfalso; apply h'; omega)
      rw [hb, hadj] at hyear
      rw [ha, hmo false] at hmonth
      obtain ⟨a, _, a2, a3, a4⟩ := firstMonth_some ((G : Int) - 1)
      have e : (G : Int) - 1 + 1 = (G : Int) := by omega
      have chain := C08_first_month_chain ((G : Int) - 1) a fm a2 (by rw [e]; exact hfm)
      refine ⟨a, a2, by simpa using hyear, ?_⟩
      rw [hmonth, chain, cycNext_eq, cycNext_eq, cycNext_eq]
      simp only [Bool.false_eq_true, if_false]
      omega

/-! ### the day list of a sexagenary month -/

theorem scmFirstDay_spec (E : Eph) (x : SCMonth) (d : Int × Int × Int) (h : scmFirstDay E x = some d) :
    0 ≤ scmJie x ∧ E.termDay (scmJie x).toNat ≠ 0 ∧ Civil.validT d = true ∧ jdnT d = E.termDay (scmJie x).toNat := by
  unfold scmFirstDay at h
  split at h
  · cases h
  · split at h
    · cases h
    · rename_i h0 h1
      dsimp only at h
      split at h
      · rename_i hok
        simp only [Option.some.injEq] at h
        subst h
        obtain ⟨r1, r2⟩ := ofJdn_ok_range _ hok
        exact ⟨by omega, h1, C01_jdn_ofJdn _ r1 r2⟩
      · cases h

theorem scmSame_iff (x : SCMonth) (v : SC.DayView) : scmSame x v = true ↔ (v.year = SC.yearPillar x.year ∧ v.month = x.pillar) := by
  unfold scmSame; simp

set_option maxHeartbeats 1000000 in
/-- `SixtyCycleMonth::get_days` of month k of sexagenary year y: whenever it returns, the list is exactly the civil days
from the day of Jie g₀ = 24(y−1)+3+2k up to the day before the day of the next Jie g₀+2, in order. -/
theorem scmDays_spec (E : Eph) (tf : TermFacts E) (y : Int) (k : Nat) (hy : 0 ≤ y ∧ y ≤ 9997) (hk : k < 12)
    (fm : Int) (hfm : SC.firstMonthPillar y = some fm) (L : List (Int × Int × Int))
    (h : scmDays E ⟨y, SC.cycNext fm k⟩ = some L)
    (hLY : ∀ Y M D, Civil.valid Y M D = true → E.termDay (24 * (y - 1) + 3 + 2 * (k : Int)).toNat ≤ jdn Y M D →
      jdn Y M D ≤ E.termDay ((24 * (y - 1) + 3 + 2 * (k : Int)).toNat + 2) → LunarYearOK E Y M D) :
    1 ≤ (24 * (y - 1) + 3 + 2 * (k : Int)) ∧
    (L.length : Int) = E.termDay ((24 * (y - 1) + 3 + 2 * (k : Int)).toNat + 2) - E.termDay (24 * (y - 1) + 3 + 2 * (k : Int)).toNat ∧
    ∀ i (hi : i < L.length), Civil.validT L[i] = true ∧ jdnT L[i] = E.termDay (24 * (y - 1) + 3 + 2 * (k : Int)).toNat + i := by
  obtain ⟨fm0, f1, f2, f3, f4, f5, f6⟩ := scyMonths_eq y ⟨by omega, by omega⟩
  have efm : fm0 = fm := by rw [f1] at hfm; exact Option.some.inj hfm
  subst efm
  obtain ⟨fmL, l1, l2, _, _⟩ := firstMonth_some y
  have efm2 : fmL = fm0 := by rw [f1] at l1; exact (Option.some.inj l1).symm
  subst efm2
  have hidx := f6 k hk
  have hjie : scmJie ⟨y, SC.cycNext fmL k⟩ = 24 * (y - 1) + 3 + 2 * (k : Int) := by
    unfold scmJie; dsimp only; rw [hidx]
  unfold scmDays at h
  split at h
  · cases h
  · rename_i d0 hd0
    obtain ⟨j0, j1, j2, j3⟩ := scmFirstDay_spec E _ d0 hd0
    rw [hjie] at j0 j1 j3
    generalize hg0 : (24 * (y - 1) + 3 + 2 * (k : Int)).toNat = g0 at *
    have hg0' : (g0 : Int) = 24 * (y - 1) + 3 + 2 * (k : Int) := by omega
    have hg1 : 1 ≤ g0 := by
      by_cases h0 : g0 = 0
      · exact absurd ((tf.repr g0).2 (Or.inl h0)) j1
      · omega
    have hgu : g0 + 3 ≤ 239977 := by omega
    obtain ⟨c1, c2, e, ve, e1, e2, e3, e4⟩ := scmDaysLoop_spec E _ scmFuel d0 L h j2
    rw [j3] at c1 e2
    have i1 := tf.inc g0 hg1 (by omega)
    have i2 : E.termDay (g0 + 1) + 14 ≤ E.termDay (g0 + 2) ∧ E.termDay (g0 + 2) ≤ E.termDay (g0 + 1) + 16 :=
      tf.inc (g0 + 1) (by omega) (by omega)
    have i3 : E.termDay (g0 + 2) + 14 ≤ E.termDay (g0 + 3) ∧ E.termDay (g0 + 3) ≤ E.termDay (g0 + 2) + 16 :=
      tf.inc (g0 + 2) (by omega) (by omega)
    -- every day up to the next Jie day lies in a civil year ≤ 9998
    have hY98 : ∀ Y M D, Civil.valid Y M D = true → jdn Y M D ≤ E.termDay (g0 + 2) → Y ≤ 9998 := by
      intro Y M D hv hle
      have m := term_mono E tf (g0 + 2) (24 * (9998 - 1) + 3) (by omega) (by omega) (by omega)
      have l := (tf.lichun 9998 (by omega) (by omega)).2
      have js := jan1_step ((9998 : Nat) : Int) (by omega)
      obtain ⟨b1, _⟩ := year_bounds Y M D hv
      by_cases hc : Y ≤ 9998
      · exact hc
      · exfalso
        have := jan1_mono (((9998 : Nat) : Int) + 1) Y (by omega) (by omega)
        omega
    -- the view of a day of this month / of the next Jie day
    have inMonth : ∀ Y M D v, Civil.valid Y M D = true → E.termDay g0 ≤ jdn Y M D → jdn Y M D < E.termDay (g0 + 2) →
        SC.ofSolarDay E Y M D = some v → scmSame ⟨y, SC.cycNext fmL k⟩ v = true := by
      intro Y M D v hv h1 h2 hview
      obtain ⟨g, g1, g2, g3, g4, fm', p1, p2, p3⟩ := view_of_day E tf Y M D hv (hY98 Y M D hv (by omega)) v hview
        (hLY Y M D hv h1 (by omega))
      have hgg : g = g0 ∨ g = g0 + 1 := by
        by_cases hlt : jdn Y M D < E.termDay (g0 + 1)
        · left; exact term_unique E tf g g0 _ g1 hg1 g2 (by omega) g3 g4 h1 hlt
        · right; exact term_unique E tf g (g0 + 1) _ g1 (by omega) g2 (by omega) g3 g4 (by omega) (by show jdn Y M D < E.termDay (g0 + 2); exact h2)
      have eN : monthOrd g = 12 * (y - 1) + (k : Int) := by
        unfold monthOrd; rcases hgg with rfl | rfl <;> omega
      have eN1 : monthOrd g / 12 + 1 = y := by omega
      have eN2 : monthOrd g % 12 = (k : Int) := by omega
      rw [eN1] at p1 p2
      rw [eN2] at p3
      rw [l2] at p1
      have : fm' = fmL := (Option.some.inj p1).symm
      subst this
      rw [scmSame_iff]; exact ⟨p2, p3⟩
    have atNext : ∀ Y M D v, Civil.valid Y M D = true → jdn Y M D = E.termDay (g0 + 2) →
        SC.ofSolarDay E Y M D = some v → scmSame ⟨y, SC.cycNext fmL k⟩ v = false := by
      intro Y M D v hv h1 hview
      obtain ⟨g, g1, g2, g3, g4, fm', p1, p2, p3⟩ := view_of_day E tf Y M D hv (hY98 Y M D hv (by omega)) v hview
        (hLY Y M D hv (by omega) (by omega))
      have hgg : g = g0 + 2 := term_unique E tf g (g0 + 2) _ g1 (by omega) g2 (by omega) g3 g4 (by omega)
        (by show jdn Y M D < E.termDay (g0 + 3); omega)
      subst hgg
      have eN : monthOrd (g0 + 2) = 12 * (y - 1) + (k : Int) + 1 := by unfold monthOrd; push_cast; omega
      rw [Bool.eq_false_iff]
      intro hs
      rw [scmSame_iff] at hs
      dsimp only at hs
      rw [p3, cycNext_eq, cycNext_eq] at hs
      by_cases hk11 : k = 11
      · have eN1 : monthOrd (g0 + 2) / 12 + 1 = y + 1 := by omega
        have eN2 : monthOrd (g0 + 2) % 12 = 0 := by omega
        rw [eN1] at p1
        have chain := C08_first_month_chain y fmL fm' l2 p1
        rw [chain, cycNext_eq, eN2] at hs
        omega
      · have eN1 : monthOrd (g0 + 2) / 12 + 1 = y := by omega
        have eN2 : monthOrd (g0 + 2) % 12 = (k : Int) + 1 := by omega
        rw [eN1, l2] at p1
        have : fm' = fmL := (Option.some.inj p1).symm
        subst this
        rw [eN2] at hs
        omega
    have hlen : (L.length : Int) = E.termDay (g0 + 2) - E.termDay g0 := by
      rcases Int.lt_trichotomy (L.length : Int) (E.termDay (g0 + 2) - E.termDay g0) with hlt | heq | hgt
      · exfalso
        have := inMonth e.1 e.2.1 e.2.2 ve e1 (by show E.termDay g0 ≤ jdnT e; omega) (by show jdnT e < _; omega) e3
        rw [this] at e4; cases e4
      · exact heq
      · exfalso
        have hi : (E.termDay (g0 + 2) - E.termDay g0).toNat < L.length := by omega
        obtain ⟨w1, v, w2, w3⟩ := c2 _ (List.getElem_mem hi)
        have hj := consec_get _ _ c1 _ hi
        have := atNext _ _ _ v w1 (by show jdnT _ = _; rw [hj]; omega) w2
        rw [this] at w3; cases w3
    refine ⟨by omega, hlen, ?_⟩
    intro i hi
    obtain ⟨w1, _⟩ := c2 _ (List.getElem_mem hi)
    exact ⟨w1, consec_get _ _ c1 i hi⟩

/-! ### the lunar year of a civil day (for the year-pillar adjustment) -/
open Lunar

/-- where the lunar new year lies in the civil year (kernel-decided for `realEph`: c13_yearWin_all) -/
structure NewYearFacts (E : Eph) : Prop where
  win : ∀ y : Nat, 1 ≤ y → y ≤ 9999 → jdn (y : Int) 1 1 ≤ E.mFirst (y : Int) 0 + 5 ∧ E.mFirst (y : Int) 0 ≤ jdn (y : Int) 1 1 + 59
  zero : E.mFirst 0 0 ≤ 1721424

/-- inside a tiling interval a month lies between the new-year days of its lunar year and of the next -/
theorem month_in_year (E : Eph) (a b : Int) (hb9 : b + 1 ≤ 9999) (ht : TilesOn E a b) (x : Month) (hx : WF E x)
    (hxa : a ≤ x.y) (hxb : x.y ≤ b) :
    E.mFirst x.y 0 ≤ first E x ∧ first E x + len E x ≤ E.mFirst (x.y + 1) 0 := by
  obtain ⟨w1, w2, w3⟩ := hx
  have hc := cnt_cases E x.y
  have hc1 := cnt_cases E (x.y + 1)
  constructor
  · by_cases h0 : x.idx = 0
    · have : x = ⟨x.y, 0⟩ := by cases x; simp_all
      rw [this]; simp [first]
    · have hw0 : WF E ⟨x.y, 0⟩ := ⟨w1, w2, by dsimp only; omega⟩
      have := first_mono E a b hb9 ht x ⟨w1, w2, w3⟩ (Or.inl hxb) (x.idx - 1) ⟨x.y, 0⟩ hw0 hxa (by
        unfold gpos; dsimp only; omega)
      have hl := (ht x.y hxa hxb).len 0 (by omega)
      unfold first len at this
      dsimp only at this
      unfold first; omega
  · have hwn : WF E ⟨x.y + 1, 0⟩ := ⟨by dsimp only; omega, by dsimp only; omega, by dsimp only; omega⟩
    have hcs := cumI_succ E x.y w1
    have := first_mono E a b hb9 ht ⟨x.y + 1, 0⟩ hwn (by
      by_cases h : x.y + 1 ≤ b
      · exact Or.inl h
      · right; have : x.y = b := by omega
        rw [this]) (E.cnt x.y - x.idx - 1) x ⟨w1, w2, w3⟩ hxa (by
        unfold gpos; dsimp only; omega)
    unfold first at this; dsimp only at this
    exact this

set_option maxHeartbeats 1000000 in
/-- inside a tiling interval the lunar year of a civil day of year Y is Y − 1, Y, or Y + 1 on/after Lichun -/
theorem lunarYearOK_of_tiles (E : Eph) (hl : ∀ y, E.leap y ≤ 12) (tf : TermFacts E) (nf : NewYearFacts E) (a b : Int)
    (ha0 : 0 ≤ a) (hb9 : b + 1 ≤ 9999) (ht : TilesOn E a b) (Y M D : Int) (hv : Civil.valid Y M D = true)
    (hYa : a ≤ Y) (hYb : Y ≤ b) (hlo : first E ⟨a, 0⟩ ≤ jdn Y M D) (hhi : jdn Y M D < first E ⟨b + 1, 0⟩) :
    LunarYearOK E Y M D := by
  intro x k hr
  obtain ⟨w, xa, xb, e, k1, k2⟩ := ofSolar_spec E hl a b ht Y M D hYa hYb hlo hhi (x, k) hr
  dsimp only at w xa xb e k1 k2
  obtain ⟨m1, m2⟩ := month_in_year E a b hb9 ht x w xa xb
  obtain ⟨yb1, yb2⟩ := year_bounds Y M D hv
  obtain ⟨hY1, _⟩ := (valid_iff Y M D).1 hv
  generalize jdn Y M D = j at *
  -- new-year windows for the lunar year and the next
  have nyL : ∀ z : Int, 1 ≤ z → z ≤ 9999 → jdn z 1 1 ≤ E.mFirst z 0 + 5 ∧ E.mFirst z 0 ≤ jdn z 1 1 + 59 := by
    intro z h1 h2
    have := nf.win z.toNat (by omega) (by omega)
    have e : ((z.toNat : Nat) : Int) = z := by omega
    rw [e] at this; exact this
  have hlow : Y - 1 ≤ x.y := by
    by_cases h : Y - 1 ≤ x.y
    · exact h
    · exfalso
      have := (nyL (x.y + 1) (by omega) (by omega)).2
      have := jan1_strict (x.y + 1) Y (by omega) (by omega)
      omega
  have hup : x.y ≤ Y + 1 := by
    by_cases h : x.y ≤ Y + 1
    · exact h
    · exfalso
      have := (nyL x.y (by omega) (by omega)).1
      have := jan1_strict (Y + 1) x.y (by omega) (by omega)
      omega
  by_cases h1 : x.y = Y
  · exact Or.inl h1
  · by_cases h2 : x.y = Y - 1
    · exact Or.inr (Or.inl h2)
    · have h3 : x.y = Y + 1 := by omega
      refine Or.inr (Or.inr ⟨h3, ?_⟩)
      have m1' : E.mFirst (Y + 1) 0 ≤ first E x := by rw [← h3]; exact m1
      have ny := (nyL (Y + 1) (by omega) (by omega)).1
      have js := jan1_step Y hY1
      have lc := (tf.lichun Y.toNat (by omega) (by omega)).2
      have e1 : ((Y.toNat : Nat) : Int) = Y := by omega
      have e2 : (24 * (Y - 1) + 3).toNat = 24 * (Y.toNat - 1) + 3 := by omega
      rw [e1] at lc
      rw [e2]
      omega

set_option maxHeartbeats 1000000 in
/-- `get_days` of month k of sexagenary year y inside a tiling interval [a, b] of lunar years (a = 0 or a < y, y + 1 ≤ b):
whenever it returns, it returns exactly the days [Jie day g₀, Jie day g₀ + 2). -/
theorem scmDays_tiles (E : Eph) (hl : ∀ y, E.leap y ≤ 12) (tf : TermFacts E) (nf : NewYearFacts E) (a b : Int)
    (ha0 : 0 ≤ a) (hb9 : b + 1 ≤ 9999) (ht : TilesOn E a b) (y : Int) (k : Nat) (hk : k < 12) (hy1 : 1 ≤ y)
    (hay : a = 0 ∨ a + 1 ≤ y) (hyb : y + 1 ≤ b) (fm : Int) (hfm : SC.firstMonthPillar y = some fm)
    (L : List (Int × Int × Int)) (h : scmDays E ⟨y, SC.cycNext fm k⟩ = some L) :
    (L.length : Int) = E.termDay ((24 * (y - 1) + 3 + 2 * (k : Int)).toNat + 2) - E.termDay (24 * (y - 1) + 3 + 2 * (k : Int)).toNat ∧
    ∀ i (hi : i < L.length), Civil.validT L[i] = true ∧ jdnT L[i] = E.termDay (24 * (y - 1) + 3 + 2 * (k : Int)).toNat + i := by
  refine (scmDays_spec E tf y k ⟨by omega, by omega⟩ hk fm hfm L h ?_).2
  intro Y M D hv h1 h2
  generalize hg0 : (24 * (y - 1) + 3 + 2 * (k : Int)).toNat = g0 at *
  obtain ⟨yb1, yb2⟩ := year_bounds Y M D hv
  obtain ⟨hY1, _⟩ := (valid_iff Y M D).1 hv
  -- Lichun y ≤ first Jie ≤ day ≤ next Jie ≤ Lichun (y+1)
  have ey : ((y.toNat : Nat) : Int) = y := by omega
  have lc1 := (tf.lichun y.toNat (by omega) (by omega)).1
  have lc2 := (tf.lichun (y.toNat + 1) (by omega) (by omega)).2
  have m1 := term_mono E tf (24 * (y.toNat - 1) + 3) g0 (by omega) (by omega) (by omega)
  have m2 := term_mono E tf (g0 + 2) (24 * (y.toNat + 1 - 1) + 3) (by omega) (by omega) (by omega)
  have ey1 : ((y.toNat + 1 : Nat) : Int) = y + 1 := by omega
  rw [ey] at lc1
  rw [ey1] at lc2
  have js1 := jan1_step (y + 1) (by omega)
  have hYy : y ≤ Y := by
    by_cases hc : y ≤ Y
    · exact hc
    · exfalso
      have := jan1_mono (Y + 1) y (by omega) (by omega)
      omega
  have hYy1 : Y ≤ y + 1 := by
    by_cases hc : Y ≤ y + 1
    · exact hc
    · exfalso
      have := jan1_mono (y + 1 + 1) Y (by omega) (by omega)
      omega
  have nyb := (nf.win (b + 1).toNat (by omega) (by omega)).1
  have eb : (((b + 1).toNat : Nat) : Int) = b + 1 := by omega
  rw [eb] at nyb
  have mb := jan1_mono (y + 1 + 1) (b + 1) (by omega) (by omega)
  apply lunarYearOK_of_tiles E hl tf nf a b ha0 hb9 ht Y M D hv (by omega) (by omega)
  · unfold first; dsimp only
    by_cases h0 : a = 0
    · subst h0
      have z0 := nf.zero
      have j1 : jdn 1 1 1 = 1721424 := by decide
      have z1 := jan1_mono 1 Y (by omega) hY1
      omega
    · have h1' : a + 1 ≤ y := by omega
      have nya := (nf.win a.toNat (by omega) (by omega)).2
      have ea : ((a.toNat : Nat) : Int) = a := by omega
      rw [ea] at nya
      have z2 := jan1_strict a y (by omega) (by omega)
      omega
  · unfold first; dsimp only
    omega

end Tyme.Cont
