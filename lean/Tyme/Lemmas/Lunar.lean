import Tyme.Model.Lunar
/-! Helper lemmas for C03/C02: `LunarMonth::next` is the shift on the global listing position. -/
namespace Tyme.Lunar
open Tyme

/-- number of lunations in lunar years 0..y-1 -/
def cum (E : Eph) : Nat → Int
  | 0 => 0
  | y+1 => cum E y + E.cnt (y : Int)

def cumI (E : Eph) (y : Int) : Int := cum E y.toNat

theorem cumI_succ (E : Eph) (y : Int) (h : 0 ≤ y) : cumI E (y + 1) = cumI E y + E.cnt y := by
  unfold cumI
  have : (y + 1).toNat = y.toNat + 1 := by omega
  rw [this, cum]
  have : ((y.toNat : Nat) : Int) = y := by omega
  rw [this]

theorem cnt_cases (E : Eph) (y : Int) : (E.cnt y : Int) = 12 ∨ (E.cnt y : Int) = 13 := by
  unfold Eph.cnt; split <;> simp

/-- global listing position of a month -/
def gpos (E : Eph) (x : Month) : Int := cumI E x.y + x.idx

def WF (E : Eph) (x : Month) : Prop := 0 ≤ x.y ∧ x.y ≤ 9999 ∧ x.idx < E.cnt x.y

theorem loopF_spec (E : Eph) : ∀ (f : Nat) (m y : Int) (r : Int × Int), 0 ≤ y → y ≤ 9999 → 1 ≤ m →
    loopF E f m y = some r →
    cumI E r.2 + r.1 = cumI E y + m ∧ 1 ≤ r.1 ∧ r.1 ≤ E.cnt r.2 ∧ y ≤ r.2 ∧ r.2 ≤ 9999 := by
  intro f
  induction f with
  | zero => intro m y r _ _ _ h; simp [loopF] at h
  | succ f ih =>
    intro m y r hy hy2 hm h
    simp only [loopF] at h
    split at h
    · rename_i hgt
      split at h
      · simp at h
      · rename_i h9
        have hc := cnt_cases E y
        obtain ⟨i1, i2, i3, i4, i5⟩ := ih (m - E.cnt y) (y + 1) r (by omega) (by omega) (by omega) h
        rw [cumI_succ E y hy] at i1
        exact ⟨by omega, i2, i3, by omega, i5⟩
    · rename_i hle
      simp only [Option.some.injEq] at h
      subst h
      exact ⟨rfl, hm, by simpa using hle, Int.le_refl _, hy2⟩

theorem loopB_spec (E : Eph) : ∀ (f : Nat) (m y : Int) (r : Int × Int), y ≤ 9999 → m ≤ E.cnt y →
    loopB E f m y = some r → 0 ≤ r.2 →
    cumI E r.2 + r.1 = cumI E y + m ∧ 1 ≤ r.1 ∧ r.1 ≤ E.cnt r.2 ∧ r.2 ≤ y := by
  intro f
  induction f with
  | zero => intro m y r _ _ h; simp [loopB] at h
  | succ f ih =>
    intro m y r hy2 hm h hr
    simp only [loopB] at h
    split at h
    · rename_i hle
      split at h
      · simp at h
      · rename_i h9
        have hc := cnt_cases E (y - 1)
        obtain ⟨i1, i2, i3, i4⟩ := ih (m + E.cnt (y - 1)) (y - 1) r (by omega) (by omega) h hr
        have hy1 : 0 ≤ y - 1 := by omega
        have := cumI_succ E (y - 1) hy1
        have e : y - 1 + 1 = y := by omega
        rw [e] at this
        exact ⟨by omega, i2, i3, by omega⟩
    · rename_i hgt
      simp only [Option.some.injEq] at h
      subst h
      exact ⟨rfl, by omega, hm, Int.le_refl _⟩

/-- the signed month built from a 1-based listing index constructs back to that index -/
theorem fromYm_of_pos (E : Eph) (y m : Int) (hy : 0 ≤ y) (hy2 : y ≤ 9999) (hl : E.leap y ≤ 12)
    (h1 : 1 ≤ m) (h2 : m ≤ E.cnt y) :
    fromYm E y (if decide (((E.leap y : Nat) : Int) > 0 ∧ m = ((E.leap y : Nat) : Int) + 1) = true
                then -(if ((E.leap y : Nat) : Int) > 0 ∧ m > ((E.leap y : Nat) : Int) then m - 1 else m)
                else (if ((E.leap y : Nat) : Int) > 0 ∧ m > ((E.leap y : Nat) : Int) then m - 1 else m))
      = some ⟨y, (m - 1).toNat⟩ := by
  unfold fromYm Eph.cnt at *
  generalize E.leap y = lp at *
  have hr : ¬ (y < 0 ∨ y > 9999) := by omega
  simp only [hr, if_false, decide_eq_true_eq]
  by_cases hlp : lp = 0
  · subst hlp
    simp at h2 ⊢
    have h3 : ¬ (m = 0 ∨ 12 < m ∨ m < -12) := by omega
    have h4 : ¬ (m < 0) := by omega
    simp only [h3, h4, if_false, false_and]
    refine ⟨by omega, by intro h; exact absurd h (by simp), by omega⟩
  · have hpos : lp > 0 := Nat.pos_of_ne_zero hlp
    simp only [hpos, if_true] at h2
    have hposI : ((lp : Nat) : Int) > 0 := by omega
    simp only [hposI, true_and]
    by_cases hleap : m = (lp : Int) + 1
    · -- the leap month itself
      have hgt : m > (lp : Int) := by omega
      simp only [hleap, if_true]
      have e1 : (lp : Int) + 1 > (lp : Int) := by omega
      simp only [e1, if_true]
      have e2 : (lp : Int) + 1 - 1 = (lp : Int) := by omega
      rw [e2]
      have h3 : ¬ (-(lp : Int) = 0 ∨ -(lp : Int) > 12 ∨ -(lp : Int) < -12) := by omega
      have h4 : -(lp : Int) < 0 := by omega
      have h5 : (-(lp : Int)).natAbs = lp := by omega
      simp only [h3, if_false, h4, h5, true_and, ne_eq, not_true_eq_false, true_or, if_true]
      congr 1; congr 1; omega
    · simp only [hleap, if_false]
      by_cases hgt : m > (lp : Int)
      · simp only [hgt, if_true]
        have h3 : ¬ (m - 1 = 0 ∨ m - 1 > 12 ∨ m - 1 < -12) := by omega
        have h4 : ¬ (m - 1 < 0) := by omega
        have h5 : (m - 1).natAbs > lp := by omega
        simp only [h3, if_false, h4, false_and, false_or, hpos, h5, and_self, if_true]
        congr 1; congr 1; omega
      · simp only [hgt, if_false]
        have h3 : ¬ (m = 0 ∨ m > 12 ∨ m < -12) := by omega
        have h4 : ¬ (m < 0) := by omega
        have h5 : ¬ (m.natAbs > lp) := by omega
        simp only [h3, if_false, h4, false_and, false_or, hpos, h5, and_false, if_false]
        congr 1; congr 1; omega


theorem monthWithLeap_eq (E : Eph) (x : Month) :
    monthWithLeap E x =
      (if decide (((E.leap x.y : Nat) : Int) > 0 ∧ ((x.idx : Int) + 1) = ((E.leap x.y : Nat) : Int) + 1) = true
        then -(if ((E.leap x.y : Nat) : Int) > 0 ∧ ((x.idx : Int) + 1) > ((E.leap x.y : Nat) : Int) then ((x.idx : Int) + 1) - 1 else ((x.idx : Int) + 1))
        else (if ((E.leap x.y : Nat) : Int) > 0 ∧ ((x.idx : Int) + 1) > ((E.leap x.y : Nat) : Int) then ((x.idx : Int) + 1) - 1 else ((x.idx : Int) + 1))) := by
  unfold monthWithLeap
  generalize E.leap x.y = lp
  simp only [decide_eq_true_eq]
  repeat' split
  all_goals omega

theorem fromYm_some_year (E : Eph) (y m : Int) (x : Month) (h : fromYm E y m = some x) :
    0 ≤ y ∧ y ≤ 9999 ∧ x.y = y := by
  unfold fromYm at h
  split at h
  · simp at h
  · split at h
    · simp at h
    · split at h
      · simp at h
      · simp only [Option.some.injEq] at h
        subst h
        exact ⟨by omega, by omega, rfl⟩

/-- `LunarMonth::next n` lands exactly n places further along the global listing (any n) -/
theorem next_gpos (E : Eph) (hl : ∀ y, E.leap y ≤ 12) (x : Month) (hx : WF E x) (n : Int) (x' : Month)
    (h : next E x n = some x') : WF E x' ∧ gpos E x' = gpos E x + n := by
  obtain ⟨hx1, hx2, hx3⟩ := hx
  unfold next at h
  split at h
  · rename_i hn
    subst hn
    rw [monthWithLeap_eq] at h
    have := fromYm_of_pos E x.y ((x.idx : Int) + 1) hx1 hx2 (hl _) (by omega) (by omega)
    rw [this] at h
    simp only [Option.some.injEq] at h
    subst h
    have e : ((x.idx : Int) + 1 - 1).toNat = x.idx := by omega
    simp only [e]
    exact ⟨⟨hx1, hx2, hx3⟩, by simp [gpos]⟩
  · rename_i hn
    dsimp only at h
    split at h
    · simp at h
    · rename_i m y hloop
      have hy := fromYm_some_year E _ _ _ h
      by_cases hpos : n > 0
      · simp only [hpos, if_true] at hloop
        obtain ⟨i1, i2, i3, i4, i5⟩ := loopF_spec E _ _ _ (m, y) hx1 hx2 (by omega) hloop
        dsimp only at i1 i2 i3 i4 i5
        have := fromYm_of_pos E y m (by omega) i5 (hl _) i2 i3
        rw [this] at h
        simp only [Option.some.injEq] at h
        subst h
        refine ⟨⟨by dsimp only; omega, i5, ?_⟩, ?_⟩
        · dsimp only; omega
        · simp only [gpos]
          have : (((m - 1).toNat : Nat) : Int) = m - 1 := by omega
          rw [this]; omega
      · simp only [hpos, if_false] at hloop
        have hcx := cnt_cases E x.y
        obtain ⟨i1, i2, i3, i4⟩ := loopB_spec E _ _ _ (m, y) hx2 (by omega) hloop hy.1
        dsimp only at i1 i2 i3 i4
        have := fromYm_of_pos E y m hy.1 hy.2.1 (hl _) i2 i3
        rw [this] at h
        simp only [Option.some.injEq] at h
        subst h
        refine ⟨⟨hy.1, hy.2.1, ?_⟩, ?_⟩
        · dsimp only; omega
        · simp only [gpos]
          have : (((m - 1).toNat : Nat) : Int) = m - 1 := by omega
          rw [this]; omega

/-- positions identify well-formed months -/
theorem cumI_mono (E : Eph) : ∀ (d : Nat) (y : Int), 0 ≤ y → cumI E y + 12 * d ≤ cumI E (y + d) := by
  intro d
  induction d with
  | zero => intro y _; simp
  | succ d ih =>
    intro y hy
    have := ih y hy
    have h2 := cumI_succ E (y + d) (by omega)
    have hc := cnt_cases E (y + d)
    have e : y + (d + 1 : Nat) = y + d + 1 := by omega
    rw [e, h2]; omega

theorem gpos_inj (E : Eph) (a b : Month) (ha : WF E a) (hb : WF E b) (h : gpos E a = gpos E b) : a = b := by
  obtain ⟨a1, a2, a3⟩ := ha
  obtain ⟨b1, b2, b3⟩ := hb
  unfold gpos at h
  have key : ∀ (p q : Month), 0 ≤ p.y → p.y < q.y → p.idx < E.cnt p.y → cumI E p.y + p.idx < cumI E q.y + q.idx := by
    intro p q hp hlt hi
    have := cumI_mono E (q.y - (p.y + 1)).toNat (p.y + 1) (by omega)
    have e : p.y + 1 + ((q.y - (p.y + 1)).toNat : Int) = q.y := by omega
    rw [e] at this
    have := cumI_succ E p.y hp
    omega
  rcases Int.lt_trichotomy a.y b.y with hlt | heq | hgt
  · have := key a b a1 hlt a3; omega
  · cases a; cases b; simp only at heq h ⊢; subst heq
    simp only [Month.mk.injEq, true_and]; omega
  · have := key b a b1 hgt b3; omega

end Tyme.Lunar
