import Tyme.Lemmas.LunarWeek
import Tyme.Lemmas.ScmTotal
import Tyme.Thm.C02b
/-! Helper lemmas for the TOTALITY half of the lunar C14 theorems: inside a good interval `LunarDay::next(n)`,
`LunarWeek::get_first_day` and `LunarWeek::get_days` RETURN (the guess-and-walk of `SolarDay::get_lunar_day` never
runs out of fuel: `Cont.ofSolar_total`), and the seven days of a week of a month at least one lunar year inside the
interval lie in the interval and in the civil years a..b. -/
namespace Tyme.LWk
open Tyme Tyme.Wk Tyme.Lunar Tyme.Cont

/-- a `mapM` over `Option` whose every call answers, answers -/
theorem mapM_total {α β : Type} (f : β → Option α) : ∀ (xs : List β),
    (∀ (k : Nat) (h : k < xs.length), ∃ r, f xs[k] = some r) → ∃ l, xs.mapM f = some l := by
  intro xs
  induction xs with
  | nil => intro _; exact ⟨[], rfl⟩
  | cons x xs ih =>
    intro h
    obtain ⟨a, ha⟩ := h 0 (by simp)
    have ha' : f x = some a := by simpa using ha
    obtain ⟨l, hl⟩ := ih (fun k hk => by
      have := h (k + 1) (by simp; omega)
      simpa using this)
    refine ⟨a :: l, ?_⟩
    rw [List.mapM_cons, ha', hl]
    rfl

/-- `LunarDay::next(n)` RETURNS inside a good interval (same hypotheses as `lunarDayNext_spec`) -/
theorem lunarDayNext_total {E : Eph} {a b : Int} (G : Good E a b) (nf : NewYearFacts E) (hF1 : 1721424 ≤ E.mFirst 1 0)
    (x : Month) (k : Int) (hx : okOn E a b x)
    (hk1 : 1 ≤ k) (hk2 : k ≤ Lunar.len E x) (n : Int)
    (hY : a ≤ (ofJdn (Lunar.first E x + k - 1 + n)).1 ∧ (ofJdn (Lunar.first E x + k - 1 + n)).1 ≤ b)
    (hlo : Lunar.first E ⟨a, 0⟩ ≤ Lunar.first E x + k - 1 + n)
    (hhi : Lunar.first E x + k - 1 + n < Lunar.first E ⟨b + 1, 0⟩) :
    ∃ r, lunarDayNext E (x, k) n = some r := by
  unfold lunarDayNext
  by_cases hn : n = 0
  · simp only [hn, if_true]
    exact ⟨_, rfl⟩
  · simp only [hn, if_false]
    obtain ⟨r1, r2, _⟩ := G.rep x hx
    obtain ⟨a1, a2, a3⟩ := daySolar_in_range E x k (by omega) (by omega)
    rw [a1]
    dsimp only
    have glo := G.lo
    have ghi := G.hi
    obtain ⟨d1, d2, d3⟩ := dayNext_in_range (ofJdn (Lunar.first E x + k - 1)) n (by rw [a3]; omega) (by rw [a3]; omega)
    rw [d1, a3]
    dsimp only
    rw [a3] at d2 d3
    unfold jdnT at d3
    exact ofSolar_total E G.leap_le nf hF1 a b G.a0 G.b9 G.tiles _ _ _ d2 hY.1 hY.2
      (by rw [d3]; exact hlo) (by rw [d3]; exact hhi)

/-- `LunarWeek::get_first_day` RETURNS (same hypotheses as `lunarWeekFirstDay_spec`) -/
theorem lunarWeekFirstDay_total {E : Eph} {a b : Int} (G : Good E a b) (nf : NewYearFacts E)
    (hF1 : 1721424 ≤ E.mFirst 1 0) (w : LunarWeek)
    (hw : WeekOk (lunarOpsOn E a b) (okOn E a b) w)
    (hY : a ≤ (ofJdn (firstJ (lunarOps E) w)).1 ∧ (ofJdn (firstJ (lunarOps E) w)).1 ≤ b)
    (hlo : Lunar.first E ⟨a, 0⟩ ≤ firstJ (lunarOps E) w) :
    ∃ r, lunarWeekFirstDay E w = some r := by
  obtain ⟨hm, hs0, hs6, hi0, hi1⟩ := hw
  obtain ⟨r1, r2, r3⟩ := G.rep w.month hm
  have hb := interval_bounds E a b G.a0 G.b9 G.tiles w.month hm
  have hmeet := (meets_iff (lunarOps E) w.start w.month w.index).1 ⟨hi0, hi1⟩
  have eJ : firstJ (lunarOps E) w = Lunar.first E w.month + 1 - 1 + firstShift (lunarOps E) w := by
    unfold firstJ; show Lunar.first E w.month + _ = _; omega
  have eJ2 : J (lunarOps E) w.start w.month w.index = firstJ (lunarOps E) w := rfl
  rw [eJ2] at hmeet
  have e1 : (lunarOps E).first w.month = Lunar.first E w.month := rfl
  have e2 : (lunarOps E).len w.month = Lunar.len E w.month := rfl
  rw [e1, e2] at hmeet
  unfold lunarWeekFirstDay
  rw [firstLunarDay_eq E G.leap_le w.month hm.1 (by omega)]
  dsimp only
  rw [dayWeek_eq E w.month 1 (by omega) (by omega)]
  dsimp only
  have e3 : Lunar.first E w.month + 1 - 1 = Lunar.first E w.month := by omega
  rw [e3, firstShift_eq]
  exact lunarDayNext_total G nf hF1 w.month 1 hm (by omega) (by omega) (firstShift (lunarOps E) w)
    (by rw [← eJ]; exact hY) (by rw [← eJ]; exact hlo) (by rw [← eJ]; omega)

/-- `LunarWeek::get_days` RETURNS (same hypotheses as `lunarWeekDays_spec`) -/
theorem lunarWeekDays_total {E : Eph} {a b : Int} (G : Good E a b) (nf : NewYearFacts E)
    (hF1 : 1721424 ≤ E.mFirst 1 0) (w : LunarWeek)
    (hw : WeekOk (lunarOpsOn E a b) (okOn E a b) w)
    (hY : ∀ k : Nat, k < 7 → a ≤ (ofJdn (firstJ (lunarOps E) w + k)).1 ∧ (ofJdn (firstJ (lunarOps E) w + k)).1 ≤ b)
    (hlo : Lunar.first E ⟨a, 0⟩ ≤ firstJ (lunarOps E) w)
    (hhi : firstJ (lunarOps E) w + 6 < Lunar.first E ⟨b + 1, 0⟩) :
    ∃ l, lunarWeekDays E w = some l := by
  have h0 := hY 0 (by omega)
  simp only [Int.natCast_zero, Int.add_zero] at h0
  obtain ⟨d, hf⟩ := lunarWeekFirstDay_total G nf hF1 w hw h0 hlo
  obtain ⟨d1, d2, d3, d4⟩ := lunarWeekFirstDay_spec G w hw h0 hlo d hf
  unfold lunarWeekDays
  rw [hf]
  dsimp only
  apply mapM_total
  intro k hk
  simp only [List.length_range] at hk
  simp only [List.getElem_range]
  by_cases hk0 : k = 0
  · simp only [hk0, if_true]
    exact ⟨_, rfl⟩
  · simp only [hk0, if_false]
    obtain ⟨dx, dk⟩ := d
    dsimp only at d1 d2 d3 d4
    have hYk := hY k hk
    exact lunarDayNext_total G nf hF1 dx dk d1 d3 d4 (k : Int) (by rw [d2]; exact hYk) (by rw [d2]; omega)
      (by rw [d2]; omega)

/-- the days firstJ .. firstJ+6 of a well-formed week of a month at least one lunar year inside a good interval lie
in the interval and in the civil years a..b (the lunar new year falls within 5 days before .. 59 days after January 1) -/
theorem week_days_inside {E : Eph} {a b : Int} (G : Good E a b) (nf : NewYearFacts E) (ha1 : 1 ≤ a) (w : LunarWeek)
    (hw : WeekOk (lunarOpsOn E a b) (okOn E a b) w) (hya : a + 1 ≤ w.month.y) (hyb : w.month.y + 1 ≤ b)
    (j : Int) (hj1 : firstJ (lunarOps E) w ≤ j) (hj2 : j ≤ firstJ (lunarOps E) w + 6) :
    a ≤ (ofJdn j).1 ∧ (ofJdn j).1 ≤ b ∧ Lunar.first E ⟨a, 0⟩ ≤ j ∧ j < Lunar.first E ⟨b + 1, 0⟩ := by
  obtain ⟨hm, hs0, hs6, hi0, hi1⟩ := hw
  have hb9 := G.b9
  have hmeet := (meets_iff (lunarOps E) w.start w.month w.index).1 ⟨hi0, hi1⟩
  have eJ2 : J (lunarOps E) w.start w.month w.index = firstJ (lunarOps E) w := rfl
  rw [eJ2] at hmeet
  have e1 : (lunarOps E).first w.month = Lunar.first E w.month := rfl
  have e2 : (lunarOps E).len w.month = Lunar.len E w.month := rfl
  rw [e1, e2] at hmeet
  obtain ⟨m1, m2⟩ := month_in_year E a b hb9 G.tiles w.month hm.1 hm.2.1 hm.2.2
  -- new-year windows of the lunar years a, y, y+1, b+1
  have wa := (nf.win a.toNat (by omega) (by omega)).2
  have wy := (nf.win w.month.y.toNat (by omega) (by omega)).1
  have wy1 := (nf.win (w.month.y + 1).toNat (by omega) (by omega)).2
  have wb := (nf.win (b + 1).toNat (by omega) (by omega)).1
  have ea : ((a.toNat : Nat) : Int) = a := by omega
  have ey : ((w.month.y.toNat : Nat) : Int) = w.month.y := by omega
  have ey1 : (((w.month.y + 1).toNat : Nat) : Int) = w.month.y + 1 := by omega
  have eb : (((b + 1).toNat : Nat) : Int) = b + 1 := by omega
  rw [ea] at wa
  rw [ey] at wy
  rw [ey1] at wy1
  rw [eb] at wb
  have s0 := jan1_step (w.month.y - 1) (by omega)
  have e3 : w.month.y - 1 + 1 = w.month.y := by omega
  rw [e3] at s0
  have s1 := jan1_step (w.month.y + 1) (by omega)
  have sa := jan1_strict a w.month.y ha1 (by omega)
  have sb := jan1_strict (w.month.y + 1) (b + 1) (by omega) (by omega)
  have fa : Lunar.first E ⟨a, 0⟩ = E.mFirst a 0 := rfl
  have fb : Lunar.first E ⟨b + 1, 0⟩ = E.mFirst (b + 1) 0 := rfl
  rw [fa, fb]
  generalize firstJ (lunarOps E) w = F at *
  generalize Lunar.first E w.month = F0 at *
  generalize Lunar.len E w.month = L0 at *
  obtain ⟨_, _, y1, y2⟩ := jdn_year_range j (w.month.y - 1) (w.month.y + 1) (by omega) (by omega) (by omega) (by omega) (by omega)
  exact ⟨by omega, by omega, by omega, by omega⟩

end Tyme.LWk
