import Tyme.Lemmas.ScmDays
import Tyme.Thm.C07
/-! Helper lemmas for C13: the twelve hours listed for a sexagenary day belong to that day (day pillar) and are its
twelve double hours in order (hour branch = slot number). -/
namespace Tyme.Cont
open Tyme Lunar SC

theorem pairIndex_some (s b p : Int) (h : pairIndex s b = some p) : p % 10 = s ∧ p % 12 = b ∧ 0 ≤ p ∧ p < 60 := by
  unfold pairIndex at h
  obtain ⟨a, ha, hf⟩ := List.exists_of_findSome?_eq_some h
  rw [List.mem_range] at ha
  split at hf
  · rename_i hc
    simp only [Option.some.injEq] at hf
    subst hf
    exact ⟨hc.1, hc.2, by omega, by omega⟩
  · cases hf

/-- inversion of the instant view: day pillar (advanced at 23:00) and hour pillar come from the lunar date of the civil day -/
theorem hourView_inv (E : Eph) (Y M D h mi s : Int) (v : HourView) (hv : ofSolarTime E Y M D h mi s = some v) :
    ∃ x k dp, Lunar.ofSolar E Y M D = some (x, k) ∧ dayPillar (Lunar.first E x) k = some dp ∧
      v.day = (if h = 23 then cycNext dp 1 else dp) ∧ hourPillar dp h = some v.hour := by
  unfold ofSolarTime at hv
  split at hv
  · cases hv
  · split at hv
    · cases hv
    · dsimp only at hv
      split at hv
      · cases hv
      · rename_i x k hr
        split at hv
        · cases hv
        · split at hv
          · cases hv
          · split at hv
            · cases hv
            · split at hv
              · cases hv
              · split at hv
                · cases hv
                · rename_i dp hdp
                  split at hv
                  · cases hv
                  · rename_i hp hhp
                    simp only [Option.some.injEq] at hv
                    subst hv
                    exact ⟨x, k, dp, hr, hdp, rfl, hhp⟩

/-- the hour pillar's branch is the double-hour number of the clock hour -/
theorem hourPillar_branch (dp h hp : Int) (e : hourPillar dp h = some hp) : hp % 12 = ((h + 1) / 2) % 12 := by
  unfold hourPillar at e
  dsimp only at e
  obtain ⟨_, b, _, _⟩ := pairIndex_some _ _ _ e
  rw [b, indexOf_12]
  omega

set_option maxHeartbeats 1000000 in
/-- inside a tiling interval: each of the twelve hours listed for the sexagenary day of civil date (Y, M, D) carries the
day's own pillar (day number + 49) mod 60 — the 23:00 slot of the previous civil day included — and hour branch = slot
number 0..11 (Zi .. Hai). -/
theorem scdHours_pillars (E : Eph) (hl : ∀ y, E.leap y ≤ 12) (a b : Int) (ht : TilesOn E a b) (Y M D : Int)
    (hv : Civil.valid Y M D = true) (hYa : a + 1 ≤ Y) (hYb : Y ≤ b)
    (hlo : first E ⟨a, 0⟩ + 1 ≤ jdn Y M D) (hhi : jdn Y M D < first E ⟨b + 1, 0⟩)
    (L : List (Time × HourView)) (h : scdHours E Y M D = some L) :
    ∀ i (hi : i < L.length), L[i].2.day = (jdn Y M D + 49) % 60 ∧ L[i].2.hour % 12 = (i : Int) := by
  obtain ⟨l12, hs⟩ := scdHours_spec E Y M D L h
  intro i hi
  obtain ⟨tv, ts, tview⟩ := hs i hi
  obtain ⟨dv, h1, h2, h3, h4, h5, h6⟩ := (clock_valid_iff _).1 tv
  generalize L[i].1 = t at *
  generalize L[i].2 = w at *
  obtain ⟨td, th, tmi, tsec⟩ := t
  obtain ⟨y', m', d'⟩ := td
  dsimp only at dv h1 h2 h3 h4 h5 h6
  unfold viewOfTime at tview
  dsimp only at tview
  obtain ⟨x, k, dp, r1, r2, r3, r4⟩ := hourView_inv E y' m' d' th tmi tsec w tview
  have hb := hourPillar_branch dp th w.hour r4
  unfold secs at ts
  dsimp only at ts
  obtain ⟨yb1, yb2⟩ := year_bounds Y M D hv
  obtain ⟨zb1, zb2⟩ := year_bounds y' m' d' dv
  obtain ⟨hY1, _⟩ := (valid_iff Y M D).1 hv
  obtain ⟨hy1, _⟩ := (valid_iff y' m' d').1 dv
  by_cases hi0 : i = 0
  · subst hi0
    -- 23:00 of the previous civil day
    have hj : jdn y' m' d' = jdn Y M D - 1 ∧ th = 23 := by
      have : (0 : Int) ≤ 3600 * th + 60 * tmi + tsec ∧ 3600 * th + 60 * tmi + tsec < 86400 := by omega
      constructor <;> omega
    have hyr : Y - 1 ≤ y' ∧ y' ≤ Y := by
      constructor
      · by_cases hc : Y - 1 ≤ y'
        · exact hc
        · exfalso
          have js := jan1_step (Y - 1) (by omega)
          have e1 : Y - 1 + 1 = Y := by omega
          rw [e1] at js
          have := jan1_mono (y' + 1) (Y - 1) (by omega) (by omega)
          omega
      · by_cases hc : y' ≤ Y
        · exact hc
        · exfalso
          have := jan1_mono (Y + 1) y' (by omega) (by omega)
          omega
    have pil := C07_pillar E hl a b ht y' m' d' (by omega) (by omega) (by omega) (by omega) (x, k) r1
    dsimp only at pil
    rw [r2] at pil
    have edp : dp = (jdn y' m' d' + 49) % 60 := Option.some.inj pil
    refine ⟨?_, ?_⟩
    · rw [r3]
      simp only [hj.2, if_true]
      rw [cycNext_eq, edp, hj.1]; omega
    · rw [hb, hj.2]; decide
  · -- hour 2i − 1 of the day itself
    have hi12 : i < 12 := by omega
    have hj : jdn y' m' d' = jdn Y M D ∧ th = 2 * (i : Int) - 1 := by
      have : (0 : Int) ≤ 3600 * th + 60 * tmi + tsec ∧ 3600 * th + 60 * tmi + tsec < 86400 := by omega
      constructor <;> omega
    have eyr : y' = Y := year_unique y' m' d' Y dv hY1 (by omega) (by omega)
    have pil := C07_pillar E hl a b ht y' m' d' (by omega) (by omega) (by omega) (by omega) (x, k) r1
    dsimp only at pil
    rw [r2] at pil
    have edp : dp = (jdn y' m' d' + 49) % 60 := Option.some.inj pil
    refine ⟨?_, ?_⟩
    · rw [r3]
      have : ¬ (th = 23) := by omega
      simp only [this, if_false]
      rw [edp, hj.1]
    · rw [hb, hj.2]; omega

end Tyme.Cont
