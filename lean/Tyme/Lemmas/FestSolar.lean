import Tyme.Lemmas.Festival
import Tyme.Lemmas.Jd
import Tyme.Thm.C01
/- C20, civil festivals: checkable conditions on the data string (decided by the kernel in Facts/C20.lean) and the
data-independent theorems that follow: model = record-level reading; stepping = shift on `size*year + index`. -/
namespace Tyme.Fest
open FestSpec

/-- the fields of a matched civil-festival record, parsed the way the model parses them -/
def solarView (mt : Bytes) : Option SolarRec :=
  match parseInt (mt.drop 8), parseNat ((mt.drop 1).take 2), parseNat ((mt.drop 4).take 2), parseNat ((mt.drop 6).take 2) with
  | some s, some i, some mo, some da =>
    if mt.getD 3 48 - 48 = 0 ∧ 8 ≤ mt.length ∧ 0 ≤ s then some ⟨i, mo, da, s.toNat⟩ else none
  | _, _, _, _ => none

/-- shortest length of month m over all years -/
def baseLen (m : Nat) : Nat := if m == 2 then 28 else if m == 4 || m == 6 || m == 9 || m == 11 then 30 else 31

def nodupB : List Nat → Bool
  | [] => true
  | a :: t => !t.contains a && nodupB t

/-- by-date look-up: for every month 0..12 and day 0..31 the regex finds the first record with that month-day -/
def solarYmdOk (data : Bytes) : Bool :=
  allLt 13 fun m => allLt 32 fun d =>
    ((solarYmdRx (m : Int) (d : Int)).find data).map solarView ==
      ((solarRecs data).find? fun r => r.m == m && r.d == d).map some

/-- by-index look-up: for every index below the size of the name list the regex finds the record with that index -/
def solarIdxOk (size : Nat) (data : Bytes) : Bool :=
  allLt size fun i =>
    ((idxRx (i : Int)).find data).map solarView == ((solarRecs data).find? fun r => r.idx == i).map some

/-- the records: founded after the calendar reform and before 10000, a month-day that exists in every year,
an index below the size of the name list; no two share a month-day or an index -/
def solarRecsOk (size : Nat) (data : Bytes) : Bool :=
  ((solarRecs data).all fun r =>
    decide (1583 ≤ r.start) && decide (r.start ≤ 9999) && decide (1 ≤ r.m) && decide (r.m ≤ 12) &&
    decide (1 ≤ r.d) && decide (r.d ≤ baseLen r.m) && decide (r.idx < size)) &&
  nodupB ((solarRecs data).map fun r => r.m * 100 + r.d) &&
  nodupB ((solarRecs data).map fun r => r.idx)

structure SolarWF (size : Nat) (data : Bytes) : Prop where
  pos : 0 < size
  ymd : solarYmdOk data = true
  idx : solarIdxOk size data = true
  recs : solarRecsOk size data = true

/-! ## generic consequences -/

theorem nodupB_inj {α : Type} (f : α → Nat) : ∀ (l : List α), nodupB (l.map f) = true →
    ∀ a ∈ l, ∀ b ∈ l, f a = f b → a = b := by
  intro l
  induction l with
  | nil => intro _ a ha; cases ha
  | cons x t ih =>
    intro h a ha b hb hab
    simp only [List.map_cons, nodupB, Bool.and_eq_true, Bool.not_eq_true', List.contains_eq_mem,
      decide_eq_false_iff_not, List.mem_map, not_exists, not_and] at h
    rcases List.mem_cons.1 ha with rfl | ha' <;> rcases List.mem_cons.1 hb with rfl | hb'
    · rfl
    · exact absurd hab.symm (h.1 b hb')
    · exact absurd hab (h.1 a ha')
    · exact ih h.2 a ha' b hb' hab

theorem solarYmdEval_view {y m d : Int} {mt : Bytes} {r : SolarRec} (hv : solarView mt = some r) :
    solarYmdEval y m d mt =
      if y < (r.start : Int) then .absent
      else if solarDayOk y m d then .found ⟨r.idx, y, m, d, r.start⟩ else .refused := by
  unfold solarView at hv
  split at hv
  · rename_i s i mo da h1 h2 h3 h4
    split at hv
    · rename_i hc
      cases hv
      unfold solarYmdEval
      have hs : ((s.toNat : Nat) : Int) = s := by omega
      simp only [h1, h2, hs]
    · cases hv
  · cases hv

theorem solarIdxEval_view {y : Int} {mt : Bytes} {r : SolarRec} (hv : solarView mt = some r) :
    solarIdxEval y mt =
      if y < (r.start : Int) then .absent
      else if solarDayOk y r.m r.d then .found ⟨r.idx, y, r.m, r.d, r.start⟩ else .refused := by
  unfold solarView at hv
  split at hv
  · rename_i s i mo da h1 h2 h3 h4
    split at hv
    · rename_i hc
      cases hv
      unfold solarIdxEval
      have hs : ((s.toNat : Nat) : Int) = s := by omega
      have hlen : ¬ mt.length < 8 := by omega
      simp only [hc.1, h1, h2, h3, h4, hs, hlen]
      simp
    · cases hv
  · cases hv

/-- a month-day that exists in every year is a real date in every Gregorian year up to 9999 -/
theorem solarDayOk_fixed {y : Int} {m d : Nat} (hy : 1583 ≤ y) (hm1 : 1 ≤ m) (hm : m ≤ 12) (hd1 : 1 ≤ d) (hd : d ≤ baseLen m) :
    solarDayOk y m d = decide (y ≤ 9999) := by
  rw [Bool.eq_iff_iff, solarDayOk_iff, monthLen_eq, decide_eq_true_eq]
  unfold baseLen at hd
  constructor
  · intro h; omega
  · intro h
    refine ⟨by omega, h, by omega, by omega, by omega, ?_⟩
    have hne : ¬ (y = 1582 ∧ (m : Int) = 10) := by omega
    simp only [hne, if_false]
    repeat' split
    all_goals (repeat' split at hd)
    all_goals simp_all
    all_goals omega

section WF
variable {size : Nat} {data : Bytes} (W : SolarWF size data)
include W

theorem solar_rec_facts {r : SolarRec} (hr : r ∈ solarRecs data) :
    1583 ≤ r.start ∧ r.start ≤ 9999 ∧ 1 ≤ r.m ∧ r.m ≤ 12 ∧ 1 ≤ r.d ∧ r.d ≤ baseLen r.m ∧ r.idx < size := by
  have h := W.recs
  simp only [solarRecsOk, Bool.and_eq_true, List.all_eq_true, decide_eq_true_eq] at h
  have := h.1.1 r hr
  omega

theorem solar_md_unique {a b : SolarRec} (ha : a ∈ solarRecs data) (hb : b ∈ solarRecs data)
    (hm : a.m = b.m) (hd : a.d = b.d) : a = b := by
  have h := W.recs
  simp only [solarRecsOk, Bool.and_eq_true] at h
  exact nodupB_inj (fun r : SolarRec => r.m * 100 + r.d) _ h.1.2 a ha b hb (by show a.m * 100 + a.d = b.m * 100 + b.d; rw [hm, hd])

theorem solar_idx_unique {a b : SolarRec} (ha : a ∈ solarRecs data) (hb : b ∈ solarRecs data)
    (hi : a.idx = b.idx) : a = b := by
  have h := W.recs
  simp only [solarRecsOk, Bool.and_eq_true] at h
  exact nodupB_inj (fun r : SolarRec => r.idx) _ h.2 a ha b hb hi

omit W in
/-- a unique-key search with an extra founding-year test -/
theorem find_with_year (p : SolarRec → Bool) (hp : ∀ a ∈ solarRecs data, ∀ b ∈ solarRecs data, p a = true → p b = true → a = b)
    (y : Int) {r0 : SolarRec} (h0 : (solarRecs data).find? p = some r0) :
    ((solarRecs data).find? fun r => p r && decide ((r.start : Int) ≤ y)) =
      if (r0.start : Int) ≤ y then some r0 else none := by
  have hmem : r0 ∈ solarRecs data := List.mem_of_find?_eq_some h0
  have hp0 : p r0 = true := List.find?_some h0
  by_cases hy : (r0.start : Int) ≤ y
  · rw [if_pos hy]
    rw [List.find?_eq_some_iff_append] at h0 ⊢
    obtain ⟨_, as, bs, hsplit, has⟩ := h0
    refine ⟨by simp [hp0, hy], as, bs, hsplit, ?_⟩
    intro a ha
    have := has a ha
    simp only [Bool.not_eq_true'] at this ⊢
    simp [this]
  · rw [if_neg hy, List.find?_eq_none]
    intro r hr hpr
    simp only [Bool.and_eq_true, decide_eq_true_eq] at hpr
    have : r = r0 := hp r hr r0 hmem hpr.1 hp0
    subst this
    exact hy hpr.2

omit W in
theorem find_with_year_none (p : SolarRec → Bool) (y : Int) (h0 : (solarRecs data).find? p = none) :
    ((solarRecs data).find? fun r => p r && decide ((r.start : Int) ≤ y)) = none := by
  rw [List.find?_eq_none] at h0 ⊢
  intro r hr hpr
  simp only [Bool.and_eq_true] at hpr
  exact h0 r hr hpr.1

/-- `SolarFestival::from_ymd` = record-level reading, on every real civil date -/
theorem solarFromYmd_spec {y m d : Int} (hv : Civil.valid y m d = true) :
    solarFromYmd data y m d = match solarOn (solarRecs data) y m d with
      | some r => .found ⟨r.idx, y, m, d, r.start⟩
      | none => .absent := by
  have hr := (valid_iff y m d).1 hv
  have hl : Civil.lastDay y m ≤ 31 := by
    unfold Civil.lastDay; repeat' split
    all_goals omega
  have hm : m.toNat < 13 := by omega
  have hd : d.toNat < 32 := by omega
  have em : ((m.toNat : Nat) : Int) = m := by omega
  have ed : ((d.toNat : Nat) : Int) = d := by omega
  have tf := allLt_spec (allLt_spec W.ymd m.toNat hm) d.toNat hd
  rw [beq_iff_eq, em, ed] at tf
  have hpred : (fun r : SolarRec => (r.m : Int) == m && (r.d : Int) == d && decide ((r.start : Int) ≤ y)) =
      (fun r : SolarRec => (r.m == m.toNat && r.d == d.toNat) && decide ((r.start : Int) ≤ y)) := by
    funext r
    have e1 : ((r.m : Int) == m) = (r.m == m.toNat) := by
      rw [Bool.eq_iff_iff, beq_iff_eq, beq_iff_eq]; omega
    have e2 : ((r.d : Int) == d) = (r.d == d.toNat) := by
      rw [Bool.eq_iff_iff, beq_iff_eq, beq_iff_eq]; omega
    rw [e1, e2]
  unfold solarFromYmd solarOn
  rw [if_neg (by omega), hpred]
  cases hf : (solarYmdRx m d).find data with
  | none =>
    rw [hf] at tf
    simp only [Option.map_none] at tf
    have hnone : (solarRecs data).find? (fun r => r.m == m.toNat && r.d == d.toNat) = none := by
      cases h : (solarRecs data).find? (fun r => r.m == m.toNat && r.d == d.toNat) with
      | none => rfl
      | some r => rw [h] at tf; cases tf
    rw [find_with_year_none _ y hnone]
  | some mt =>
    rw [hf] at tf
    simp only [Option.map_some] at tf
    cases h : (solarRecs data).find? (fun r => r.m == m.toNat && r.d == d.toNat) with
    | none => rw [h] at tf; cases tf
    | some r0 =>
      rw [h] at tf
      simp only [Option.map_some, Option.some.injEq] at tf
      have huniq : ∀ a ∈ solarRecs data, ∀ b ∈ solarRecs data,
          (a.m == m.toNat && a.d == d.toNat) = true → (b.m == m.toNat && b.d == d.toNat) = true → a = b := by
        intro a ha b hb h1 h2
        simp only [Bool.and_eq_true, beq_iff_eq] at h1 h2
        exact solar_md_unique W ha hb (by omega) (by omega)
      rw [find_with_year _ huniq y h]
      simp only []
      rw [solarYmdEval_view tf, C01_accept_iff, hv]
      by_cases hy : (r0.start : Int) ≤ y
      · rw [if_pos hy, if_neg (by omega)]; simp
      · rw [if_neg hy, if_pos (by omega)]

/-- `SolarFestival::from_index` = record-level reading, for every year and every index ≥ 0 -/
theorem solarFromIndex_spec (y : Int) {i : Int} (hi : 0 ≤ i) :
    solarFromIndex size data y i = match solarAt (solarRecs data) y i with
      | some r => if y ≤ 9999 then .found ⟨r.idx, y, r.m, r.d, r.start⟩ else .refused
      | none => .absent := by
  unfold solarFromIndex solarAt
  rw [if_neg (by omega)]
  have hpred : (fun r : SolarRec => (r.idx : Int) == i && decide ((r.start : Int) ≤ y)) =
      (fun r : SolarRec => (r.idx == i.toNat) && decide ((r.start : Int) ≤ y)) := by
    funext r
    have e1 : ((r.idx : Int) == i) = (r.idx == i.toNat) := by
      rw [Bool.eq_iff_iff, beq_iff_eq, beq_iff_eq]; omega
    rw [e1]
  rw [hpred]
  by_cases hsz : i ≥ (size : Int)
  · rw [if_pos hsz]
    have : ((solarRecs data).find? fun r => (r.idx == i.toNat) && decide ((r.start : Int) ≤ y)) = none := by
      rw [List.find?_eq_none]
      intro r hr hp
      simp only [Bool.and_eq_true, beq_iff_eq] at hp
      have := (solar_rec_facts W hr).2.2.2.2.2.2
      omega
    rw [this]
  · rw [if_neg hsz]
    have hlt : i.toNat < size := by omega
    have ei : ((i.toNat : Nat) : Int) = i := by omega
    have tf := allLt_spec W.idx i.toNat hlt
    rw [beq_iff_eq, ei] at tf
    cases hf : (idxRx i).find data with
    | none =>
      rw [hf] at tf
      simp only [Option.map_none] at tf
      have hnone : (solarRecs data).find? (fun r => r.idx == i.toNat) = none := by
        cases h : (solarRecs data).find? (fun r => r.idx == i.toNat) with
        | none => rfl
        | some r => rw [h] at tf; cases tf
      rw [find_with_year_none _ y hnone]
    | some mt =>
      rw [hf] at tf
      simp only [Option.map_some] at tf
      cases h : (solarRecs data).find? (fun r => r.idx == i.toNat) with
      | none => rw [h] at tf; cases tf
      | some r0 =>
        rw [h] at tf
        simp only [Option.map_some, Option.some.injEq] at tf
        have huniq : ∀ a ∈ solarRecs data, ∀ b ∈ solarRecs data,
            (a.idx == i.toNat) = true → (b.idx == i.toNat) = true → a = b := by
          intro a ha b hb h1 h2
          simp only [beq_iff_eq] at h1 h2
          exact solar_idx_unique W ha hb (by omega)
        rw [find_with_year _ huniq y h]
        simp only []
        rw [solarIdxEval_view tf]
        have F := solar_rec_facts W (List.mem_of_find?_eq_some h)
        by_cases hy : (r0.start : Int) ≤ y
        · rw [if_pos hy, if_neg (by omega), solarDayOk_fixed (by omega) F.2.2.1 F.2.2.2.1 F.2.2.2.2.1 F.2.2.2.2.2.1]
          simp only [decide_eq_true_eq]
        · rw [if_neg hy, if_pos (by omega)]

/-- nothing is founded before 1583: earlier years have no civil festival, whatever the index -/
theorem solarFromIndex_early {y i : Int} (hy : y < 1583) (hi : 0 ≤ i) : solarFromIndex size data y i = .absent := by
  rw [solarFromIndex_spec W y hi]
  have : solarAt (solarRecs data) y i = none := by
    unfold solarAt
    rw [List.find?_eq_none]
    intro r hr hp
    simp only [Bool.and_eq_true, decide_eq_true_eq] at hp
    have := (solar_rec_facts W hr).1
    omega
  rw [this]

end WF

/-! ## stepping -/

theorem indexOf_eq_emod (i n : Int) (hn : 0 < n) : indexOf i n = i % n := by
  unfold indexOf
  have h1 := Int.mul_tdiv_add_tmod i n
  have hlo : -n < Int.tmod i n ∧ Int.tmod i n < n := by
    rcases Int.lt_or_le i 0 with hi | hi
    · have a := Int.tmod_nonneg n (by omega : 0 ≤ -i)
      have b := Int.tmod_lt_of_pos (-i) hn
      rw [Int.neg_tmod] at a b; omega
    · have a := Int.tmod_nonneg n hi
      have b := Int.tmod_lt_of_pos i hn
      omega
  simp only []
  split
  · rename_i hneg
    symm
    refine ((Int.ediv_emod_unique (q := Int.tdiv i n - 1) hn).2 ⟨?_, by omega, by omega⟩).2
    rw [Int.mul_sub, Int.mul_one]; omega
  · rename_i hnn
    symm
    exact ((Int.ediv_emod_unique (q := Int.tdiv i n) hn).2 ⟨by omega, by omega, by omega⟩).2

theorem tdiv_eq_ediv_nonneg (a n : Int) (ha : 0 ≤ a) : Int.tdiv a n = a / n := Int.tdiv_eq_ediv_of_nonneg ha

theorem tdiv_nonpos_of_neg (a n : Int) (ha : a < 0) (hn : 0 < n) : Int.tdiv a n ≤ 0 := by
  have h1 := Int.mul_tdiv_add_tmod a n
  have c := Int.tmod_nonneg n (by omega : 0 ≤ -a)
  rw [Int.neg_tmod] at c
  rcases Int.lt_or_le 0 (Int.tdiv a n) with h | h
  · have : n * 1 ≤ n * Int.tdiv a n := Int.mul_le_mul_of_nonneg_left (by omega) (by omega)
    have b := Int.tmod_lt_of_pos (-a) hn
    rw [Int.neg_tmod] at b
    omega
  · exact h

section Next
variable {size : Nat} {data : Bytes} (W : SolarWF size data)
include W

/-- `next n` lands on the festival `n` places further along the list, carrying into later or earlier years:
the global position `size*year + index` is shifted by `n` (floor division/modulo; unconditional in `n`) -/
theorem solarNext_spec (f : SolarFest) (n : Int) :
    solarNext size data f n =
      solarFromIndex size data ((f.y * size + f.idx + n) / size) ((f.y * size + f.idx + n) % size) := by
  have hs : (0 : Int) < size := by have := W.pos; omega
  unfold solarNext
  simp only []
  have hidx : indexOf ((f.idx : Int) + n) size = (f.y * size + f.idx + n) % size := by
    rw [indexOf_eq_emod _ _ hs]
    have : f.y * (size : Int) + f.idx + n = (f.idx + n) + f.y * size := by omega
    rw [this, Int.add_mul_emod_self_right]
  rw [hidx]
  have hassoc : f.y * (size : Int) + ((f.idx : Int) + n) = f.y * size + f.idx + n := by omega
  rw [hassoc]
  have hi0 : 0 ≤ (f.y * (size : Int) + f.idx + n) % size := Int.emod_nonneg _ (by omega)
  rcases Int.lt_or_le (f.y * (size : Int) + f.idx + n) 0 with hneg | hnn
  · have h1 : Int.tdiv (f.y * (size : Int) + f.idx + n) size ≤ 0 := tdiv_nonpos_of_neg _ _ hneg hs
    have h2 : (f.y * (size : Int) + f.idx + n) / size < 0 := Int.ediv_neg_of_neg_of_pos hneg hs
    rw [solarFromIndex_early W (by omega) hi0, solarFromIndex_early W (by omega) hi0]
  · rw [tdiv_eq_ediv_nonneg _ _ hnn]

end Next

end Tyme.Fest
