import Tyme.Model.Jd
import Tyme.Spec.Civil
/-! Helper lemmas for C01 (day number ⇄ civil date). Core Lean only. -/
namespace Tyme
theorem floor1461 (k : Int) : (1461 * k) / 4 = 365 * k + k / 4 := by omega

theorem valid_iff (y m d : Int) : Civil.valid y m d = true ↔
    (1 ≤ y ∧ y ≤ 9999 ∧ 1 ≤ m ∧ m ≤ 12 ∧ 1 ≤ d ∧ d ≤ Civil.lastDay y m ∧ ¬ (y = 1582 ∧ m = 10 ∧ 5 ≤ d ∧ d ≤ 14)) := by
  unfold Civil.valid
  simp only [Bool.and_eq_true, decide_eq_true_eq, Bool.not_eq_true', Bool.and_eq_false_iff, beq_eq_false_iff_ne, ne_eq, decide_eq_false_iff_not]
  constructor
  · rintro ⟨⟨h1,h2,h3,h4,h5,h6⟩, h7⟩
    refine ⟨h1,h2,h3,h4,h5,h6,?_⟩
    rintro ⟨a,b,c⟩
    rcases h7 with (h|h)|h <;> simp_all
  · rintro ⟨h1,h2,h3,h4,h5,h6,h7⟩
    refine ⟨⟨h1,h2,h3,h4,h5,h6⟩, ?_⟩
    by_cases a : y = 1582
    · by_cases b : m = 10
      · right; intro c; exact h7 ⟨a,b,c⟩
      · left; right; exact b
    · left; left; exact a

/-- jdn with the conditionals resolved, for m ≥ 3 -/
theorem jdn_hi (y m d : Int) (hm : 3 ≤ m) :
    jdn y m d = 365 * (y + 4716) + (y + 4716) / 4 + (306001 * (m + 1)) / 10000 + d
      + (if y * 372 + m * 31 + d ≥ 588829 then 2 - y / 100 + y / 100 / 4 else 0) - 1524 := by
  unfold jdn
  have h : ¬ m ≤ 2 := by omega
  simp only [h, if_false, floor1461, decide_eq_true_eq]

theorem jdn_lo (y m d : Int) (hm : m ≤ 2) :
    jdn y m d = 365 * (y + 4715) + (y + 4715) / 4 + (306001 * (m + 13)) / 10000 + d
      + (if y * 372 + m * 31 + d ≥ 588829 then 2 - (y - 1) / 100 + (y - 1) / 100 / 4 else 0) - 1524 := by
  unfold jdn
  simp only [hm, if_true, floor1461, decide_eq_true_eq]
  have e1 : y - 1 + 4716 = y + 4715 := by omega
  have e2 : m + 12 + 1 = m + 13 := by omega
  rw [e1, e2]

theorem jdn_nf (y m d : Int) : jdn y m d = if m ≤ 2 then
      365 * (y + 4715) + (y + 4715) / 4 + (306001 * (m + 13)) / 10000 + d
      + (if y * 372 + m * 31 + d ≥ 588829 then 2 - (y - 1) / 100 + (y - 1) / 100 / 4 else 0) - 1524
    else 365 * (y + 4716) + (y + 4716) / 4 + (306001 * (m + 1)) / 10000 + d
      + (if y * 372 + m * 31 + d ≥ 588829 then 2 - y / 100 + y / 100 / 4 else 0) - 1524 := by
  split
  · exact jdn_lo y m d (by assumption)
  · exact jdn_hi y m d (by omega)

theorem leap_iff (y : Int) : Civil.leap y = true ↔
    ((y ≤ 1582 ∧ y % 4 = 0) ∨ (1582 < y ∧ y % 4 = 0 ∧ (y % 100 ≠ 0 ∨ y % 400 = 0))) := by
  unfold Civil.leap
  split <;> simp <;> omega


theorem lastDay_eq (y m : Int) :
    Civil.lastDay y m = (if m = 2 then (if Civil.leap y = true then 29 else 28)
      else if m = 4 ∨ m = 6 ∨ m = 9 ∨ m = 11 then 30 else 31) := by
  unfold Civil.lastDay
  simp only [beq_iff_eq, Bool.or_eq_true]
  congr 1
  simp only [or_assoc]

set_option maxHeartbeats 1000000 in
theorem jdn_next (y m d : Int) (hv : Civil.valid y m d = true) (hne : ¬ (y = 9999 ∧ m = 12 ∧ d = 31)) :
    jdn (Civil.next y m d).1 (Civil.next y m d).2.1 (Civil.next y m d).2.2 = jdn y m d + 1 := by
  obtain ⟨h1,h2,h3,h4,h5,h6,h7⟩ := (valid_iff y m d).1 hv
  rw [lastDay_eq] at h6
  unfold Civil.next
  rw [lastDay_eq]
  simp only [beq_iff_eq, Bool.and_eq_true]
  simp only [leap_iff] at h6 ⊢
  have hm : m = 1 ∨ m = 2 ∨ m = 3 ∨ m = 4 ∨ m = 5 ∨ m = 6 ∨ m = 7 ∨ m = 8 ∨ m = 9 ∨ m = 10 ∨ m = 11 ∨ m = 12 := by omega
  by_cases hcut : (y = 1582 ∧ m = 10) ∧ d = 4
  · obtain ⟨⟨rfl,rfl⟩,rfl⟩ := hcut
    simp; decide
  · simp only [hcut, if_false]
    by_cases hl : ((y ≤ 1582 ∧ y % 4 = 0) ∨ (1582 < y ∧ y % 4 = 0 ∧ (y % 100 ≠ 0 ∨ y % 400 = 0))) <;>
      simp only [hl, if_true, if_false] at h6 ⊢ <;>
    rcases hm with rfl|rfl|rfl|rfl|rfl|rfl|rfl|rfl|rfl|rfl|rfl|rfl
    all_goals (
      simp at h6 ⊢
      repeat' split
      all_goals (dsimp only; simp only [jdn_nf]; simp)
      all_goals (repeat' split)
      all_goals omega)

theorem core_year (Y K : Int) (hK : 123 ≤ K) (hK2 : K ≤ 487 ∨ (K = 488 ∧ Y % 4 = 3)) :
    (20 * (365 * Y + Y / 4 + K) - 2442) / 7305 = Y := by omega

/-- Gregorian correction: the century counter of the inverse is a - 4 -/
theorem greg_century (y K : Int) (hy : 1582 ≤ y) (hy2 : y ≤ 9999) (hK : 123 ≤ K)
    (hK2 : K ≤ 487 ∨ (K = 488 ∧ (y + 1) % 4 = 0 ∧ ((y + 1) % 100 ≠ 0 ∨ (y + 1) % 400 = 0))) :
    (4 * (365 * (y + 4716) + (y + 4716) / 4 + K + (2 - y / 100 + y / 100 / 4) - 1524) - 7468865) / 146097
      = y / 100 - 4 := by
  generalize hA : y / 100 = a at *
  generalize hB : a / 4 = b at *
  generalize hQ : (y + 4716) / 4 = q at *
  have hs : a % 4 = 0 ∨ a % 4 = 1 ∨ a % 4 = 2 ∨ a % 4 = 3 := by omega
  have hq : q = 25 * a + (y - 100 * a + 4716) / 4 := by omega
  rcases hK2 with hK2 | ⟨hK2, h4, h100⟩
  · rcases hs with h0 | h0 | h0 | h0 <;> omega
  · subst hK2
    have hr : y - 100 * a ≤ 98 ∨ (y - 100 * a = 99 ∧ a % 4 = 3) := by omega
    rcases hr with hr | ⟨hr, h3⟩
    · rcases hs with h0 | h0 | h0 | h0 <;> omega
    · omega




/-- decoding of the core: month and day from K -/
def decodeK (Y K : Int) : Int × Int × Int :=
  let mo := (1000 * K) / 30601
  let d3 := K - (30601 * mo) / 1000
  if mo > 13 then (Y - 4715, mo - 13, d3) else (Y - 4716, mo - 1, d3)

theorem ofJdn_julian (Y K : Int) (hK : 123 ≤ K) (hK2 : K ≤ 487 ∨ (K = 488 ∧ Y % 4 = 3))
    (hlt : 365 * Y + Y / 4 + K - 1524 < 2299161) :
    ofJdn (365 * Y + Y / 4 + K - 1524) = decodeK Y K := by
  unfold ofJdn decodeK
  have h1 : ¬ (365 * Y + Y / 4 + K - 1524 ≥ 2299161) := by omega
  simp only [h1, if_false]
  have e : 365 * Y + Y / 4 + K - 1524 + 1524 = 365 * Y + Y / 4 + K := by omega
  simp only [e, core_year Y K hK hK2, floor1461]
  have e2 : 365 * Y + Y / 4 + K - (365 * Y + Y / 4) = K := by omega
  simp only [e2]

theorem ofJdn_greg (y K : Int) (hy : 1582 ≤ y) (hy2 : y ≤ 9999) (hK : 123 ≤ K)
    (hK2 : K ≤ 487 ∨ (K = 488 ∧ (y + 1) % 4 = 0 ∧ ((y + 1) % 100 ≠ 0 ∨ (y + 1) % 400 = 0)))
    (hge : 365 * (y + 4716) + (y + 4716) / 4 + K + (2 - y / 100 + y / 100 / 4) - 1524 ≥ 2299161) :
    ofJdn (365 * (y + 4716) + (y + 4716) / 4 + K + (2 - y / 100 + y / 100 / 4) - 1524) = decodeK (y + 4716) K := by
  unfold ofJdn decodeK
  simp only [hge, if_true, greg_century y K hy hy2 hK hK2]
  have hc4 : (y / 100 - 4) / 4 = y / 100 / 4 - 1 := by omega
  have e : 365 * (y + 4716) + (y + 4716) / 4 + K + (2 - y / 100 + y / 100 / 4) - 1524 + 1 + (y / 100 - 4) - (y / 100 - 4) / 4 + 1524
      = 365 * (y + 4716) + (y + 4716) / 4 + K := by omega
  have hK2' : K ≤ 487 ∨ (K = 488 ∧ (y + 4716) % 4 = 3) := by omega
  simp only [e, core_year (y + 4716) K hK hK2', floor1461]
  have e2 : 365 * (y + 4716) + (y + 4716) / 4 + K - (365 * (y + 4716) + (y + 4716) / 4) = K := by omega
  simp only [e2]


theorem decode_ok (Y m' d : Int) (hm : 3 ≤ m') (hm2 : m' ≤ 14) (hd : 1 ≤ d) (hd2 : d ≤ 31)
    (h30 : (m' = 4 ∨ m' = 6 ∨ m' = 9 ∨ m' = 11 ∨ m' = 14) → d ≤ 30) :
    decodeK Y ((306001 * (m' + 1)) / 10000 + d) =
      if m' > 12 then (Y - 4715, m' - 12, d) else (Y - 4716, m', d) := by
  have hm : m' = 3 ∨ m' = 4 ∨ m' = 5 ∨ m' = 6 ∨ m' = 7 ∨ m' = 8 ∨ m' = 9 ∨ m' = 10 ∨ m' = 11 ∨ m' = 12 ∨ m' = 13 ∨ m' = 14 := by omega
  unfold decodeK
  rcases hm with rfl|rfl|rfl|rfl|rfl|rfl|rfl|rfl|rfl|rfl|rfl|rfl
  all_goals (
    simp at h30
    simp only [Int.reduceAdd, Int.reduceMul, Int.reduceDiv, Int.reduceSub, Int.reduceGT, if_true, if_false]
    split <;> (simp only [Prod.mk.injEq, true_and]; omega))

theorem ofJdn_jdn (y m d : Int) (hv : Civil.valid y m d = true) : ofJdn (jdn y m d) = (y, m, d) := by
  obtain ⟨h1,h2,h3,h4,h5,h6,h7⟩ := (valid_iff y m d).1 hv
  rw [lastDay_eq] at h6
  simp only [leap_iff] at h6
  have hd31 : d ≤ 31 := by repeat' split at h6 <;> omega
  rw [jdn_nf]
  by_cases hlo : m ≤ 2
  · -- January / February: shifted year y - 1, month m + 12
    simp only [hlo, if_true]
    have hK1 : 123 ≤ 306001 * (m + 13) / 10000 + d := by omega
    have hdec := decode_ok (y - 1 + 4716) (m + 12) d (by omega) (by omega) h5 hd31 (by
      intro h; repeat' split at h6 <;> omega)
    have e13 : m + 12 + 1 = m + 13 := by omega
    have e15 : y - 1 + 4716 = y + 4715 := by omega
    rw [e13, e15] at hdec
    by_cases hg : y * 372 + m * 31 + d ≥ 588829
    · simp only [hg, if_true]
      have hh := ofJdn_greg (y - 1) (306001 * (m + 13) / 10000 + d) (by omega) (by omega) hK1 (by
          have e1 : y - 1 + 1 = y := by omega
          rw [e1]; repeat' split at h6 <;> omega) (by
          rw [e15]
          generalize hA : (y - 1) / 100 = a at *
          have hs : a % 4 = 0 ∨ a % 4 = 1 ∨ a % 4 = 2 ∨ a % 4 = 3 := by omega
          rcases hs with h0 | h0 | h0 | h0 <;> omega)
      rw [e15] at hh
      have ee : 365 * (y + 4715) + (y + 4715) / 4 + 306001 * (m + 13) / 10000 + d + (2 - (y - 1) / 100 + (y - 1) / 100 / 4) - 1524
        = 365 * (y + 4715) + (y + 4715) / 4 + (306001 * (m + 13) / 10000 + d) + (2 - (y - 1) / 100 + (y - 1) / 100 / 4) - 1524 := by omega
      rw [ee, hh, hdec]
      have : m + 12 > 12 := by omega
      rw [if_pos this]
      have e1 : y + 4715 - 4715 = y := by omega
      have e2 : m + 12 - 12 = m := by omega
      rw [e1, e2]
    · simp only [hg, if_false]
      have hh := ofJdn_julian (y + 4715) (306001 * (m + 13) / 10000 + d) hK1 (by
          repeat' split at h6 <;> omega) (by omega)
      have ee : 365 * (y + 4715) + (y + 4715) / 4 + 306001 * (m + 13) / 10000 + d + 0 - 1524
        = 365 * (y + 4715) + (y + 4715) / 4 + (306001 * (m + 13) / 10000 + d) - 1524 := by omega
      rw [ee, hh, hdec]
      have : m + 12 > 12 := by omega
      rw [if_pos this]
      have e1 : y + 4715 - 4715 = y := by omega
      have e2 : m + 12 - 12 = m := by omega
      rw [e1, e2]
  · simp only [hlo, if_false]
    have hK1 : 123 ≤ 306001 * (m + 1) / 10000 + d := by omega
    have hdec := decode_ok (y + 4716) m d (by omega) (by omega) h5 hd31 (by
      intro h; repeat' split at h6 <;> omega)
    have hK2 : 306001 * (m + 1) / 10000 + d ≤ 487 := by omega
    by_cases hg : y * 372 + m * 31 + d ≥ 588829
    · simp only [hg, if_true]
      have hh := ofJdn_greg y (306001 * (m + 1) / 10000 + d) (by omega) (by omega) hK1 (Or.inl hK2) (by
          generalize hA : y / 100 = a at *
          have hs : a % 4 = 0 ∨ a % 4 = 1 ∨ a % 4 = 2 ∨ a % 4 = 3 := by omega
          rcases hs with h0 | h0 | h0 | h0 <;> omega)
      have ee : 365 * (y + 4716) + (y + 4716) / 4 + 306001 * (m + 1) / 10000 + d + (2 - y / 100 + y / 100 / 4) - 1524
        = 365 * (y + 4716) + (y + 4716) / 4 + (306001 * (m + 1) / 10000 + d) + (2 - y / 100 + y / 100 / 4) - 1524 := by omega
      rw [ee, hh, hdec]
      have : ¬ m > 12 := by omega
      rw [if_neg this]
      have e1 : y + 4716 - 4716 = y := by omega
      rw [e1]
    · simp only [hg, if_false]
      have hh := ofJdn_julian (y + 4716) (306001 * (m + 1) / 10000 + d) hK1 (Or.inl hK2) (by omega)
      have ee : 365 * (y + 4716) + (y + 4716) / 4 + 306001 * (m + 1) / 10000 + d + 0 - 1524
        = 365 * (y + 4716) + (y + 4716) / 4 + (306001 * (m + 1) / 10000 + d) - 1524 := by omega
      rw [ee, hh, hdec]
      have : ¬ m > 12 := by omega
      rw [if_neg this]
      have e1 : y + 4716 - 4716 = y := by omega
      rw [e1]
theorem isLeap_iff (y : Int) : isLeap y = true ↔
    ((y < 1600 ∧ y % 4 = 0) ∨ (1600 ≤ y ∧ ((y % 4 = 0 ∧ y % 100 ≠ 0) ∨ y % 400 = 0))) := by
  unfold isLeap
  split <;> simp <;> omega

theorem monthLen_eq (y m : Int) : monthLen y m =
    if y = 1582 ∧ m = 10 then 21
    else if m = 2 then (if isLeap y = true then 29 else 28)
    else if m = 4 ∨ m = 6 ∨ m = 9 ∨ m = 11 then 30 else 31 := by
  unfold monthLen monthDaysTable
  simp only [Bool.and_eq_true, beq_iff_eq, Bool.or_eq_true, or_assoc]
  by_cases h : y = 1582 ∧ m = 10
  · simp [h]
  · simp only [h, if_false]
    by_cases h2 : m = 2
    · subst h2; simp
    · simp [h2]

theorem solarDayOk_iff (y m d : Int) : solarDayOk y m d = true ↔
    (1 ≤ y ∧ y ≤ 9999 ∧ 1 ≤ m ∧ m ≤ 12 ∧ 1 ≤ d ∧
      (if y = 1582 ∧ m = 10 then ¬ ((4 < d ∧ d < 15) ∨ 31 < d) else d ≤ monthLen y m)) := by
  unfold solarDayOk
  simp only [Bool.and_eq_true, decide_eq_true_eq, beq_iff_eq]
  by_cases h : y = 1582 ∧ m = 10
  · simp [h]; omega
  · simp only [h, if_false, decide_eq_true_eq]; omega



def Civil.iter : Nat → Int × Int × Int → Int × Int × Int
  | 0, x => x
  | n+1, x => Civil.iter n (Civil.next x.1 x.2.1 x.2.2)
def Civil.validT (x : Int × Int × Int) : Bool := Civil.valid x.1 x.2.1 x.2.2
def jdnT (x : Int × Int × Int) : Int := jdn x.1 x.2.1 x.2.2
def jdnFirst : Int := 1721424
def jdnLast : Int := 5373484

theorem jdn_first : jdn 1 1 1 = jdnFirst := by decide
theorem jdn_last : jdn 9999 12 31 = jdnLast := by decide

theorem next_valid (y m d : Int) (hv : Civil.valid y m d = true) (hne : ¬ (y = 9999 ∧ m = 12 ∧ d = 31)) :
    Civil.validT (Civil.next y m d) = true := by
  obtain ⟨h1,h2,h3,h4,h5,h6,h7⟩ := (valid_iff y m d).1 hv
  unfold Civil.validT Civil.next
  simp only [beq_iff_eq, Bool.and_eq_true]
  split
  · decide
  · split
    · rw [valid_iff]; dsimp only; omega
    · split
      · rw [valid_iff, lastDay_eq]; dsimp only
        refine ⟨h1, h2, by omega, by omega, by omega, ?_, by omega⟩
        repeat' split
        all_goals omega
      · rename_i hc hd hm
        have : m = 12 := by omega
        subst this
        rw [lastDay_eq] at h6 hd
        simp at h6 hd
        rw [valid_iff, lastDay_eq]; dsimp only
        refine ⟨by omega, by omega, by omega, by omega, by omega, by simp, by omega⟩

theorem lt_next (y m d : Int) (hv : Civil.valid y m d = true) : Civil.lt (y, m, d) (Civil.next y m d) := by
  obtain ⟨h1,h2,h3,h4,h5,h6,h7⟩ := (valid_iff y m d).1 hv
  unfold Civil.lt Civil.next
  simp only [beq_iff_eq, Bool.and_eq_true]
  repeat' split
  all_goals (dsimp only; omega)

theorem jdn_le_last (y m d : Int) (hv : Civil.valid y m d = true) : jdn y m d ≤ jdnLast := by
  obtain ⟨h1,h2,h3,h4,h5,h6,h7⟩ := (valid_iff y m d).1 hv
  rw [lastDay_eq] at h6
  have hd31 : d ≤ 31 := by repeat' split at h6 <;> omega
  rw [jdn_nf]; unfold jdnLast
  repeat' split
  all_goals omega

theorem lt_trans' {a b c : Int × Int × Int} (h1 : Civil.lt a b) (h2 : Civil.lt b c) : Civil.lt a c := by
  unfold Civil.lt at *; omega

theorem lt_irrefl' (a : Int × Int × Int) : ¬ Civil.lt a a := by
  unfold Civil.lt; omega

theorem lt_trichotomy' (a b : Int × Int × Int) : Civil.lt a b ∨ a = b ∨ Civil.lt b a := by
  obtain ⟨a1, a2, a3⟩ := a
  obtain ⟨b1, b2, b3⟩ := b
  unfold Civil.lt
  simp only [Prod.mk.injEq]
  omega

/-- n-fold successor: stays valid, day number +n, chronologically later -/
theorem iter_spec : ∀ (n : Nat) (x : Int × Int × Int), Civil.validT x = true → jdnT x + n ≤ jdnLast →
    Civil.validT (Civil.iter n x) = true ∧ jdnT (Civil.iter n x) = jdnT x + n ∧ (0 < n → Civil.lt x (Civil.iter n x)) := by
  intro n
  induction n with
  | zero => intro x hv _; simp [Civil.iter, hv]
  | succ n ih =>
    intro x hv hle
    obtain ⟨y, m, d⟩ := x
    have hne : ¬ (y = 9999 ∧ m = 12 ∧ d = 31) := by
      rintro ⟨rfl, rfl, rfl⟩
      have : jdnT (9999, 12, 31) = jdnLast := jdn_last
      omega
    have hv' := next_valid y m d hv hne
    have hj := jdn_next y m d hv hne
    have hj' : jdnT (Civil.next y m d) = jdnT (y, m, d) + 1 := hj
    have := ih (Civil.next y m d) hv' (by rw [hj']; omega)
    obtain ⟨i1, i2, i3⟩ := this
    refine ⟨i1, ?_, ?_⟩
    · show jdnT (Civil.iter n (Civil.next y m d)) = _
      rw [i2, hj']; omega
    · intro _
      have hl := lt_next y m d hv
      by_cases hn : 0 < n
      · exact lt_trans' hl (i3 hn)
      · have : n = 0 := by omega
        subst this; exact hl

theorem jdn_inj (a b : Int × Int × Int) (ha : Civil.validT a = true) (hb : Civil.validT b = true)
    (h : jdnT a = jdnT b) : a = b := by
  obtain ⟨a1, a2, a3⟩ := a
  obtain ⟨b1, b2, b3⟩ := b
  have e1 := ofJdn_jdn a1 a2 a3 ha
  have e2 := ofJdn_jdn b1 b2 b3 hb
  unfold jdnT at h; dsimp only at h
  rw [h] at e1; rw [e1] at e2; exact e2

theorem jdn_surj (j : Int) (h1 : jdnFirst ≤ j) (h2 : j ≤ jdnLast) :
    ∃ x, Civil.validT x = true ∧ jdnT x = j := by
  have hv : Civil.validT (1, 1, 1) = true := by decide
  have hf : jdnT (1, 1, 1) = jdnFirst := jdn_first
  have := iter_spec (j - jdnFirst).toNat (1, 1, 1) hv (by rw [hf]; omega)
  exact ⟨_, this.1, by rw [this.2.1, hf]; omega⟩

end Tyme
