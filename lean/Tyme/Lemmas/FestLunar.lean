import Tyme.Lemmas.Festival
import Tyme.Lemmas.FestHoliday
import Tyme.Spec.FestivalLunar
/- C20, lunar festivals over an abstract calendar: checkable conditions on the data string, model = record-level
reading, and the round-trip law at record level. -/
namespace Tyme.Fest
open FestSpec

/-! ## views of matched records, parsed the way the model parses them -/

def lunarView (mt : Bytes) : Option LunarRec :=
  let dt := mt.getD 3 48 - 48
  match parseNat ((mt.drop 1).take 2) with
  | none => none
  | some idx =>
    if dt = 0 then
      if mt.length < 8 then none else
      match parseNat ((mt.drop 4).take 2), parseNat ((mt.drop 6).take 2) with
      | some mo, some da => some (.day idx mo da)
      | _, _ => none
    else if dt = 1 then (parseNat (mt.drop 4)).map (LunarRec.term idx)
    else if dt = 2 then some (.eve idx) else none

def idxView (mt : Bytes) : Option Nat := parseNat ((mt.drop 1).take 2)

def termView (mt : Bytes) : Option Nat × Option Nat := (parseNat (mt.drop 4), parseNat ((mt.drop 1).take 2))

def recIdx : LunarRec → Nat
  | .day i _ _ => i
  | .term i _ => i
  | .eve i => i

/-! ## checkers -/

def lunarIdxOk (size : Nat) (data : Bytes) : Bool :=
  decide ((lunarRecs data).length = size) &&
  allLt size fun i => ((idxRx (i : Int)).find data).map lunarView == ((lunarRecs data)[i]?).map some

/-- by-date look-up of fixed-date records: months -12..12 (negative = leap), days 0..31 -/
def lunarYmdOk (data : Bytes) : Bool :=
  allLt 25 fun a => allLt 32 fun d =>
    ((lunarYmdRx ((a : Int) - 12) (d : Int)).find data).map idxView ==
      ((lunarRecs data).findSome? (dayIdxOf ((a : Int) - 12) (d : Int))).map some

def lunarTermsOk (data : Bytes) : Bool :=
  (lunarTermRx.findIter data 0).map termView ==
    ((lunarRecs data).filterMap termOf).map fun p => (some p.2, some p.1)

def lunarEveOk (data : Bytes) : Bool :=
  (lunarEveRx.find data).map idxView == ((lunarRecs data).findSome? eveOf).map some

/-- structure of the record list: index = position; a fixed-date record is the first with its month-day;
term records in increasing index order; the eve record is unique and listed after every term record -/
def lunarStructOk (recs : List LunarRec) : Bool :=
  (allLt recs.length fun i =>
    match recs[i]? with
    | some (.day idx m d) => idx == i && (recs.findSome? (dayIdxOf m d) == some idx)
    | some (.term idx _) => idx == i
    | some (.eve idx) => idx == i && (recs.findSome? eveOf == some idx) &&
        ((recs.filterMap termOf).all fun p => decide (p.1 ≤ idx))
    | none => false) &&
  strictInc ((recs.filterMap termOf).map (·.1))

structure LunarWF (size : Nat) (data : Bytes) : Prop where
  idx : lunarIdxOk size data = true
  ymd : lunarYmdOk data = true
  terms : lunarTermsOk data = true
  eve : lunarEveOk data = true
  struct : lunarStructOk (lunarRecs data) = true

/-! ## model = record-level reading -/

theorem lunarIdxEval_view (C : Cal) (y : Int) {mt : Bytes} {r : LunarRec} (hv : lunarView mt = some r) :
    lunarIdxEval C y mt = lunarRecEval C y r := by
  unfold lunarView at hv
  unfold lunarIdxEval
  simp only [] at hv ⊢
  generalize mt.getD 3 48 - 48 = dt at hv ⊢
  cases hidx : parseNat ((mt.drop 1).take 2) with
  | none => rw [hidx] at hv; cases hv
  | some idx =>
    rw [hidx] at hv
    simp only [] at hv ⊢
    by_cases h0 : dt = 0
    · subst h0
      rw [if_pos rfl] at hv
      rw [if_neg (by omega)]
      by_cases hl : mt.length < 8
      · rw [if_pos hl] at hv; cases hv
      · rw [if_neg hl] at hv
        cases h1 : parseNat ((mt.drop 4).take 2) with
        | none => rw [h1] at hv; cases hv
        | some mo =>
          cases h2 : parseNat ((mt.drop 6).take 2) with
          | none => rw [h1, h2] at hv; cases hv
          | some da =>
            rw [h1, h2] at hv
            cases hv
            simp only [BEq.rfl, if_true, if_neg hl, lunarRecEval]
    · rw [if_neg h0] at hv
      by_cases h1 : dt = 1
      · subst h1
        rw [if_pos rfl] at hv
        cases hp : parseNat (mt.drop 4) with
        | none => rw [hp] at hv; cases hv
        | some ti =>
          rw [hp] at hv
          cases hv
          rw [if_neg (by omega)]
          have e0 : ((1 : Nat) == 0) = false := rfl
          simp only [e0, Bool.false_eq_true, if_false, BEq.rfl, if_true, lunarRecEval]
          rfl
      · rw [if_neg h1] at hv
        by_cases h2 : dt = 2
        · subst h2
          rw [if_pos rfl] at hv
          cases hv
          rw [if_neg (by omega)]
          have e0 : ((2 : Nat) == 0) = false := rfl
          have e1 : ((2 : Nat) == 1) = false := rfl
          simp only [e0, e1, Bool.false_eq_true, if_false, lunarRecEval]
          rfl
        · rw [if_neg h2] at hv; cases hv

theorem lunarDayEval_view (C : Cal) (y m d : Int) {mt : Bytes} {idx : Nat} (hv : idxView mt = some idx) :
    lunarDayEval C y m d mt = if C.valid y m d then .found ⟨idx, 0, y, m, d, -1⟩ else .refused := by
  unfold idxView at hv
  unfold lunarDayEval
  rw [hv]

theorem lunarEveEval_view (C : Cal) (y m d : Int) {mt : Bytes} {idx : Nat} (hv : idxView mt = some idx) :
    lunarEveEval C y m d mt =
      if C.valid y m d then
        match C.step (y, m, d) 1 with
        | none => .refused
        | some nx => if nx.2.1 == 1 && nx.2.2 == 1 then .found ⟨idx, 2, y, m, d, -1⟩ else .absent
      else .refused := by
  unfold idxView at hv
  unfold lunarEveEval
  rw [hv]
  rfl

theorem termLoop_view (C : Cal) (y m d : Int) : ∀ (terms : List Bytes) (pairs : List (Nat × Nat)),
    terms.map termView = pairs.map (fun p => (some p.2, some p.1)) →
    lunarTermLoop C y m d terms = termLoopSpec C y m d pairs := by
  intro terms
  induction terms with
  | nil =>
    intro pairs h
    cases pairs with
    | nil => rfl
    | cons p ps => simp at h
  | cons mt rest ih =>
    intro pairs h
    cases pairs with
    | nil => simp at h
    | cons p ps =>
      simp only [List.map_cons, List.cons.injEq] at h
      obtain ⟨h1, h2⟩ := h
      unfold termView at h1
      simp only [Prod.mk.injEq] at h1
      obtain ⟨idx, t⟩ := p
      unfold lunarTermLoop termLoopSpec
      simp only [h1.1, h1.2]
      cases C.termLunar y t with
      | none => rfl
      | some l =>
        simp only []
        split
        · rfl
        · exact ih ps h2

section WF
variable {size : Nat} {data : Bytes} (W : LunarWF size data)
include W

/-- `LunarFestival::from_index` = record-level reading, for every year and every index -/
theorem lunarFromIndex_spec (C : Cal) (y i : Int) :
    lunarFromIndex C size data y i = lunarAt C (lunarRecs data) y i := by
  have h := W.idx
  simp only [lunarIdxOk, Bool.and_eq_true, decide_eq_true_eq] at h
  obtain ⟨hlen, hall⟩ := h
  unfold lunarFromIndex lunarAt
  by_cases hneg : i < 0
  · rw [if_pos hneg, if_pos hneg]
  · rw [if_neg hneg, if_neg hneg]
    by_cases hsz : i ≥ (size : Int)
    · rw [if_pos hsz]
      have : (lunarRecs data)[i.toNat]? = none := by
        apply List.getElem?_eq_none; omega
      rw [this]
    · rw [if_neg hsz]
      have hlt : i.toNat < size := by omega
      have ei : ((i.toNat : Nat) : Int) = i := by omega
      have tf := allLt_spec hall i.toNat hlt
      rw [beq_iff_eq, ei] at tf
      have hsome : (lunarRecs data)[i.toNat]? = some ((lunarRecs data)[i.toNat]'(by omega)) :=
        List.getElem?_eq_getElem (by omega)
      rw [hsome] at tf ⊢
      cases hf : (idxRx i).find data with
      | none => rw [hf] at tf; cases tf
      | some mt =>
        rw [hf] at tf
        simp only [Option.map_some, Option.some.injEq] at tf
        simp only []
        exact lunarIdxEval_view C y tf

/-- `LunarFestival::from_ymd` (repaired: all term records) = record-level reading, for every lunar month -12..12, day 0..31 -/
theorem lunarFromYmd_spec (C : Cal) (y : Int) {m d : Int} (hm1 : -12 ≤ m) (hm2 : m ≤ 12) (hd1 : 0 ≤ d) (hd2 : d ≤ 31) :
    lunarFromYmd C data y m d = lunarOn C (lunarRecs data) y m d := by
  have ha : (m + 12).toNat < 25 := by omega
  have hd : d.toNat < 32 := by omega
  have ea : (((m + 12).toNat : Nat) : Int) - 12 = m := by omega
  have ed : ((d.toNat : Nat) : Int) = d := by omega
  have tf := allLt_spec (allLt_spec W.ymd (m + 12).toNat ha) d.toNat hd
  rw [beq_iff_eq, ea, ed] at tf
  have tt := W.terms
  unfold lunarTermsOk at tt
  rw [beq_iff_eq] at tt
  have te := W.eve
  unfold lunarEveOk at te
  rw [beq_iff_eq] at te
  unfold lunarFromYmd lunarOn
  rw [if_neg (by omega)]
  cases hf : (lunarYmdRx m d).find data with
  | some mt =>
    rw [hf] at tf
    simp only [Option.map_some] at tf
    cases hs : (lunarRecs data).findSome? (dayIdxOf m d) with
    | none => rw [hs] at tf; cases tf
    | some idx =>
      rw [hs] at tf
      simp only [Option.map_some, Option.some.injEq] at tf
      simp only []
      exact lunarDayEval_view C y m d tf
  | none =>
    rw [hf] at tf
    simp only [Option.map_none] at tf
    have hs : (lunarRecs data).findSome? (dayIdxOf m d) = none := by
      cases h : (lunarRecs data).findSome? (dayIdxOf m d) with
      | none => rfl
      | some r => rw [h] at tf; cases tf
    rw [hs]
    simp only [Bool.false_eq_true, if_false]
    rw [termLoop_view C y m d _ _ tt]
    cases termLoopSpec C y m d ((lunarRecs data).filterMap termOf) with
    | refused => rfl
    | found f => rfl
    | absent =>
      simp only []
      cases he : lunarEveRx.find data with
      | none =>
        rw [he] at te
        simp only [Option.map_none] at te
        have : (lunarRecs data).findSome? eveOf = none := by
          cases h : (lunarRecs data).findSome? eveOf with
          | none => rfl
          | some r => rw [h] at te; cases te
        rw [this]
      | some mt =>
        rw [he] at te
        simp only [Option.map_some] at te
        cases h : (lunarRecs data).findSome? eveOf with
        | none => rw [h] at te; cases te
        | some idx =>
          rw [h] at te
          simp only [Option.map_some, Option.some.injEq] at te
          simp only []
          exact lunarEveEval_view C y m d te

end WF

/-! ## the round-trip law at record level -/

/-- hypotheses about the abstract calendar under which the law holds for the festival `f` found by index `i` in year `y` -/
structure BackHyp (C : Cal) (recs : List LunarRec) (y : Int) (i : Nat) (f : LunarFest) : Prop where
  /-- the day found is an accepted lunar day -/
  valid : C.valid f.y f.m f.d = true
  /-- no later-listed fixed-date festival falls on the same month-day (fails in AD 19: winter solstice on 12-08 = Laba) -/
  noLaterDay : ∀ j, recs.findSome? (dayIdxOf f.m f.d) = some j → j ≤ i
  /-- a term day / the eve found for year `y` lies in lunar year `y` -/
  sameYear : f.ty ≠ 0 → f.y = y
  /-- the term days of that lunar year can be computed -/
  terms : ∀ p ∈ recs.filterMap termOf, (C.termLunar f.y p.2).isSome = true
  /-- the day after the eve is the first day of a lunar year (solar round trip of the two days; fails at the AD 8/23/24/239 junctions) -/
  eveNext : f.ty = 2 → ∃ y', C.step (f.y, f.m, f.d) 1 = some (y', 1, 1)

theorem triple_beq {l : Int × Int × Int} {y m d : Int} :
    (l.1 == y && l.2.1 == m && l.2.2 == d) = true ↔ l = (y, m, d) := by
  obtain ⟨a, b, c⟩ := l
  simp only [Bool.and_eq_true, beq_iff_eq, Prod.mk.injEq]
  constructor
  · rintro ⟨⟨h1, h2⟩, h3⟩; exact ⟨h1, h2, h3⟩
  · rintro ⟨h1, h2, h3⟩; exact ⟨⟨h1, h2⟩, h3⟩

/-- what the term loop returns when every term of the year can be computed -/
theorem termLoop_cases (C : Cal) (Y m d : Int) : ∀ (pairs : List (Nat × Nat)),
    (∀ p ∈ pairs, (C.termLunar Y p.2).isSome = true) →
    (termLoopSpec C Y m d pairs = .absent ∧ ∀ p ∈ pairs, C.termLunar Y p.2 ≠ some (Y, m, d)) ∨
    (∃ pre p post, pairs = pre ++ p :: post ∧ (∀ q ∈ pre, C.termLunar Y q.2 ≠ some (Y, m, d)) ∧
      C.termLunar Y p.2 = some (Y, m, d) ∧
      termLoopSpec C Y m d pairs = .found ⟨p.1, 1, Y, m, d, indexOf p.2 24⟩) := by
  intro pairs
  induction pairs with
  | nil => intro _; left; exact ⟨rfl, fun p hp => by cases hp⟩
  | cons p ps ih =>
    intro hc
    obtain ⟨idx, t⟩ := p
    have hct := hc (idx, t) List.mem_cons_self
    unfold termLoopSpec
    cases hl : C.termLunar Y t with
    | none => simp only [] at hct; rw [hl] at hct; cases hct
    | some l =>
      simp only []
      by_cases hm : (l.1 == Y && l.2.1 == m && l.2.2 == d) = true
      · right
        have hle := triple_beq.1 hm
        refine ⟨[], (idx, t), ps, rfl, fun q hq => absurd hq List.not_mem_nil, by show C.termLunar Y t = _; rw [hl, hle], ?_⟩
        rw [if_pos hm, hle]
      · rw [if_neg hm]
        have hne : C.termLunar Y t ≠ some (Y, m, d) := by
          rw [hl]; intro h; exact hm (triple_beq.2 (Option.some.inj h))
        rcases ih (fun p hp => hc p (List.mem_cons_of_mem _ hp)) with ⟨ha, hall⟩ | ⟨pre, p, post, hsplit, hpre, hp, hres⟩
        · left
          refine ⟨ha, ?_⟩
          intro q hq
          rcases List.mem_cons.1 hq with rfl | hq'
          · exact hne
          · exact hall q hq'
        · right
          refine ⟨(idx, t) :: pre, p, post, by rw [hsplit]; rfl, ?_, hp, hres⟩
          intro q hq
          rcases List.mem_cons.1 hq with rfl | hq'
          · exact hne
          · exact hpre q hq'

/-- facts extracted from `lunarStructOk` -/
theorem struct_pos {recs : List LunarRec} (hS : lunarStructOk recs = true) {i : Nat} {r : LunarRec}
    (hr : recs[i]? = some r) : recIdx r = i := by
  simp only [lunarStructOk, Bool.and_eq_true] at hS
  have hi : i < recs.length := (List.getElem?_eq_some_iff.1 hr).1
  have := allLt_spec hS.1 i hi
  rw [hr] at this
  cases r with
  | day idx m d => simp only [Bool.and_eq_true, beq_iff_eq] at this; exact this.1
  | term idx t => simp only [beq_iff_eq] at this; exact this
  | eve idx => simp only [Bool.and_eq_true, beq_iff_eq] at this; exact this.1.1

theorem struct_mem {recs : List LunarRec} (hS : lunarStructOk recs = true) {r : LunarRec} (hr : r ∈ recs) :
    recs[recIdx r]? = some r := by
  obtain ⟨i, hi⟩ := List.mem_iff_getElem?.1 hr
  rw [struct_pos hS hi]; exact hi

theorem struct_day {recs : List LunarRec} (hS : lunarStructOk recs = true) {i idx m d : Nat}
    (hr : recs[i]? = some (.day idx m d)) : recs.findSome? (dayIdxOf m d) = some idx := by
  simp only [lunarStructOk, Bool.and_eq_true] at hS
  have hi : i < recs.length := (List.getElem?_eq_some_iff.1 hr).1
  have := allLt_spec hS.1 i hi
  rw [hr] at this
  simp only [Bool.and_eq_true, beq_iff_eq] at this
  exact this.2

theorem struct_eve {recs : List LunarRec} (hS : lunarStructOk recs = true) {i idx : Nat}
    (hr : recs[i]? = some (.eve idx)) :
    recs.findSome? eveOf = some idx ∧ ∀ p ∈ recs.filterMap termOf, p.1 ≤ idx := by
  simp only [lunarStructOk, Bool.and_eq_true] at hS
  have hi : i < recs.length := (List.getElem?_eq_some_iff.1 hr).1
  have := allLt_spec hS.1 i hi
  rw [hr] at this
  simp only [Bool.and_eq_true, beq_iff_eq, List.all_eq_true, decide_eq_true_eq] at this
  exact ⟨this.1.2, this.2⟩

theorem struct_terms_sorted {recs : List LunarRec} (hS : lunarStructOk recs = true) :
    List.Pairwise (· < ·) ((recs.filterMap termOf).map (·.1)) := by
  simp only [lunarStructOk, Bool.and_eq_true] at hS
  exact strictInc_pairwise _ hS.2

/-- a fixed-date record found by date is listed at its own index -/
theorem day_found_at {recs : List LunarRec} (hS : lunarStructOk recs = true) {m d : Int} {j : Nat}
    (h : recs.findSome? (dayIdxOf m d) = some j) : ∃ m' d' : Nat, recs[j]? = some (.day j m' d') ∧ (m' : Int) = m ∧ (d' : Int) = d := by
  obtain ⟨r, hr, hrj⟩ := List.exists_of_findSome?_eq_some h
  cases r with
  | day idx m' d' =>
    simp only [dayIdxOf] at hrj
    split at hrj
    · rename_i hmd
      cases hrj
      have := struct_mem hS hr
      exact ⟨m', d', this, hmd.1, hmd.2⟩
    · cases hrj
  | term idx t => cases hrj
  | eve idx => cases hrj

theorem term_found_at {recs : List LunarRec} (hS : lunarStructOk recs = true) {p : Nat × Nat}
    (h : p ∈ recs.filterMap termOf) : recs[p.1]? = some (.term p.1 p.2) := by
  obtain ⟨r, hr, hrp⟩ := List.mem_filterMap.1 h
  cases r with
  | term idx t =>
    simp only [termOf, Option.some.injEq] at hrp
    subst hrp
    exact struct_mem hS hr
  | day idx m d => cases hrp
  | eve idx => cases hrp

/-- the round-trip law at record level: the day of the festival found by index `i`, looked up by date, gives a
festival `g` on that same day with `g.idx ≤ i`, and `g` is exactly the festival number `g.idx` of that lunar year -/
theorem lunar_back_spec (C : Cal) {recs : List LunarRec} (hS : lunarStructOk recs = true) (y : Int) (i : Nat) (f : LunarFest)
    (hf : lunarAt C recs y i = .found f) (H : BackHyp C recs y i f) :
    ∃ g, lunarOn C recs f.y f.m f.d = .found g ∧ g.idx ≤ i ∧ g.y = f.y ∧ g.m = f.m ∧ g.d = f.d ∧
      lunarAt C recs f.y g.idx = .found g := by
  unfold lunarAt at hf
  rw [if_neg (by omega)] at hf
  have ei : ((i : Int)).toNat = i := by omega
  rw [ei] at hf
  cases hri : recs[i]? with
  | none => rw [hri] at hf; cases hf
  | some r =>
    rw [hri] at hf
    simp only [] at hf
    have hpos := struct_pos hS hri
    -- the answer when a fixed-date record matches the day
    have dayCase : ∀ j, recs.findSome? (dayIdxOf f.m f.d) = some j →
        ∃ g, lunarOn C recs f.y f.m f.d = .found g ∧ g.idx ≤ i ∧ g.y = f.y ∧ g.m = f.m ∧ g.d = f.d ∧
          lunarAt C recs f.y g.idx = .found g := by
      intro j hj
      obtain ⟨m', d', hrj, hm', hd'⟩ := day_found_at hS hj
      refine ⟨⟨j, 0, f.y, f.m, f.d, -1⟩, ?_, H.noLaterDay j hj, rfl, rfl, rfl, ?_⟩
      · unfold lunarOn; rw [hj]; simp only [H.valid, if_true]
      · unfold lunarAt
        rw [if_neg (by omega)]
        have : ((j : Nat) : Int).toNat = j := by omega
        simp only [this, hrj, lunarRecEval, hm', hd', H.valid, if_true]
    -- the answer when a term record matches
    have termCase : ∀ p ∈ recs.filterMap termOf, C.termLunar f.y p.2 = some (f.y, f.m, f.d) →
        lunarAt C recs f.y (p.1 : Nat) = .found ⟨p.1, 1, f.y, f.m, f.d, indexOf p.2 24⟩ := by
      intro p hp hl
      unfold lunarAt
      rw [if_neg (by omega)]
      have : ((p.1 : Nat) : Int).toNat = p.1 := by omega
      simp only [this, term_found_at hS hp, lunarRecEval, hl]
    cases hday : recs.findSome? (dayIdxOf f.m f.d) with
    | some j => exact dayCase j hday
    | none =>
      have hloop := termLoop_cases C f.y f.m f.d (recs.filterMap termOf) H.terms
      cases r with
      | day idx m d =>
        -- the festival is a fixed date: its own record matches
        simp only [lunarRecEval] at hf
        split at hf
        · cases hf
          have := struct_day hS hri
          simp only [] at hday
          rw [this] at hday; cases hday
        · cases hf
      | term idx t =>
        simp only [lunarRecEval] at hf
        cases hl : C.termLunar y t with
        | none => rw [hl] at hf; cases hf
        | some l =>
          rw [hl] at hf
          simp only [Res.found.injEq] at hf
          subst hf
          simp only [recIdx] at hpos
          subst hpos
          have hy : l.1 = y := H.sameYear (by show (1 : Nat) ≠ 0; decide)
          simp only [] at hday hloop H dayCase termCase ⊢
          have hmem : (idx, t) ∈ recs.filterMap termOf :=
            List.mem_filterMap.2 ⟨_, List.mem_of_getElem? hri, rfl⟩
          have hself : C.termLunar l.1 t = some (l.1, l.2.1, l.2.2) := by
            have e : (l.1, l.2.1, l.2.2) = l := rfl
            rw [e, hy, hl]
          rcases hloop with ⟨_, hall⟩ | ⟨pre, p, post, hsplit, hpre, hp, hres⟩
          · exact absurd hself (hall (idx, t) hmem)
          · have hpmem : p ∈ recs.filterMap termOf := by rw [hsplit]; simp
            refine ⟨⟨p.1, 1, l.1, l.2.1, l.2.2, indexOf p.2 24⟩, ?_, ?_, rfl, rfl, rfl, termCase p hpmem hp⟩
            · unfold lunarOn; rw [hday]; simp only [hres]
            · -- p is the first matching pair, (idx, t) matches too: p is at or before it, and indices increase
              have hsorted := struct_terms_sorted hS
              rw [hsplit, List.map_append, List.map_cons, List.pairwise_append] at hsorted
              rw [hsplit] at hmem
              rcases List.mem_append.1 hmem with h1 | h1
              · exact absurd hself (hpre _ h1)
              · rcases List.mem_cons.1 h1 with h2 | h2
                · rw [← h2]; exact Nat.le_refl _
                · have := (List.pairwise_cons.1 hsorted.2.1).1 idx (List.mem_map.2 ⟨_, h2, rfl⟩)
                  exact Nat.le_of_lt this
      | eve idx =>
        simp only [lunarRecEval] at hf
        split at hf
        · rename_i hvalid
          cases hs : C.step (y + 1, 1, 1) (-1) with
          | none => rw [hs] at hf; cases hf
          | some l =>
            rw [hs] at hf
            simp only [Res.found.injEq] at hf
            subst hf
            simp only [recIdx] at hpos
            subst hpos
            have hy : l.1 = y := H.sameYear (by show (2 : Nat) ≠ 0; decide)
            obtain ⟨heve, hle⟩ := struct_eve hS hri
            simp only [] at hday hloop H dayCase termCase ⊢
            rcases hloop with ⟨habs, _⟩ | ⟨pre, p, post, hsplit, _, hp, hres⟩
            · obtain ⟨y', hnext⟩ := H.eveNext rfl
              refine ⟨⟨idx, 2, l.1, l.2.1, l.2.2, -1⟩, ?_, Nat.le_refl _, rfl, rfl, rfl, ?_⟩
              · unfold lunarOn
                rw [hday]
                simp only [habs, heve, H.valid, if_true, hnext]
                rfl
              · unfold lunarAt
                rw [if_neg (by omega)]
                have : ((idx : Nat) : Int).toNat = idx := by omega
                simp only [this, hri, lunarRecEval, hy, hvalid, if_true, hs]
            · have hpmem : p ∈ recs.filterMap termOf := by rw [hsplit]; simp
              refine ⟨⟨p.1, 1, l.1, l.2.1, l.2.2, indexOf p.2 24⟩, ?_, hle p hpmem, rfl, rfl, rfl, termCase p hpmem hp⟩
              unfold lunarOn; rw [hday]; simp only [hres]
        · cases hf

end Tyme.Fest
