import Tyme.Model.Week
import Tyme.Lemmas.Jd
import Tyme.Thm.C01
/-! Helper lemmas for C14 (weeks of a month). Core Lean only. -/
namespace Tyme.Wk

/-- `index_of(i, 7)` is the mathematical residue -/
theorem indexOf_7 (i : Int) : indexOf i 7 = i % 7 := by
  unfold indexOf
  have h1 := Int.mul_tdiv_add_tmod i 7
  have h2 := Int.tmod_lt_of_pos i (show (0 : Int) < 7 by decide)
  have h3 := Int.lt_tmod_of_pos i (show (0 : Int) < 7 by decide)
  by_cases h : 0 ≤ i
  · have h4 := Int.tmod_nonneg 7 h
    dsimp only
    split <;> omega
  · have h4 := Int.tmod_nonneg 7 (show 0 ≤ -i by omega)
    rw [Int.neg_tmod] at h4
    dsimp only
    split <;> omega

theorem indexOf_12 (i : Int) : indexOf i 12 = i % 12 := by
  unfold indexOf
  have h1 := Int.mul_tdiv_add_tmod i 12
  have h2 := Int.tmod_lt_of_pos i (show (0 : Int) < 12 by decide)
  have h3 := Int.lt_tmod_of_pos i (show (0 : Int) < 12 by decide)
  by_cases h : 0 ≤ i
  · have h4 := Int.tmod_nonneg 12 h
    dsimp only
    split <;> omega
  · have h4 := Int.tmod_nonneg 12 (show 0 ≤ -i by omega)
    rw [Int.neg_tmod] at h4
    dsimp only
    split <;> omega

theorem tdiv_12_nonneg (x : Int) (h : 0 ≤ x) : Int.tdiv x 12 = x / 12 := by
  have h1 := Int.mul_tdiv_add_tmod x 12
  have h2 := Int.tmod_lt_of_pos x (show (0 : Int) < 12 by decide)
  have h4 := Int.tmod_nonneg 12 h
  omega

variable {M : Type}

theorem off_eq (O : MonthOps M) (m : M) (s : Int) : off O m s = (weekOfJdn (O.first m) - s) % 7 := by
  unfold off; rw [indexOf_7]

theorem off_range (O : MonthOps M) (m : M) (s : Int) : 0 ≤ off O m s ∧ off O m s ≤ 6 := by
  rw [off_eq]; omega

theorem weekCount_eq (O : MonthOps M) (m : M) (s : Int) :
    weekCount O m s = ((weekOfJdn (O.first m) - s) % 7 + O.len m + 6) / 7 := by
  unfold weekCount ceil7; rw [off_eq]


/-- what the week code assumes of a month type: on the set `ok` of real months, `next`/`prev` give the adjacent
month, whose first day is `len` days away, and a month has between 8 and 36 days -/
structure Laws (O : MonthOps M) (ok : M → Prop) : Prop where
  next_ok : ∀ m m', ok m → O.next m = some m' → ok m'
  prev_ok : ∀ m m', ok m → O.prev m = some m' → ok m'
  next_first : ∀ m m', ok m → O.next m = some m' → O.first m' = O.first m + O.len m
  prev_first : ∀ m m', ok m → O.prev m = some m' → O.first m = O.first m' + O.len m'
  len_lo : ∀ m, ok m → 8 ≤ O.len m
  len_hi : ∀ m, ok m → O.len m ≤ 36

/-- day number of "week d of month m" for any integer d (also outside 0..count-1) -/
def J (O : MonthOps M) (s : Int) (m : M) (d : Int) : Int := O.first m + (d * 7 - off O m s)

theorem firstJ_eq_J (O : MonthOps M) (w : Week M) : firstJ O w = J O w.start w.month w.index := rfl

theorem weekCount_bounds (O : MonthOps M) (m : M) (s : Int) (h1 : 8 ≤ O.len m) (h2 : O.len m ≤ 36) :
    2 ≤ weekCount O m s ∧ weekCount O m s ≤ 6 := by
  rw [weekCount_eq]; omega

/-- the border identity (DESIGN App. E): crossing from m to the next month m' keeps the day number of the
target week: with t = off(m)+len(m) = 7q+r, count(m) = q+[r>0], off(m') = r. -/
theorem border (F L s d : Int) (hs : 0 ≤ s ∧ s ≤ 6) :
    F + L + ((d - ((weekOfJdn F - s) % 7 + L + 6) / 7 + (if weekOfJdn (F + L) != s then 1 else 0)) * 7
      - (weekOfJdn (F + L) - s) % 7) = F + (d * 7 - (weekOfJdn F - s) % 7) := by
  unfold weekOfJdn
  by_cases h : (F + L + 7000001) % 7 = s
  · simp only [h, bne_self_eq_false, Bool.false_eq_true, if_false]; omega
  · have : ((F + L + 7000001) % 7 != s) = true := by simp [h]
    simp only [this, if_true]; omega

theorem fwd_spec (O : MonthOps M) (ok : M → Prop) (L : Laws O ok) (s : Int) (hs : 0 ≤ s ∧ s ≤ 6) :
    ∀ (fuel : Nat) (m : M) (d : Int), ok m → 0 ≤ d → d ≤ fuel →
      match fwd O s fuel m d with
      | some (m', d') => ok m' ∧ J O s m' d' = J O s m d ∧ 0 ≤ d' ∧ d' < weekCount O m' s
      | none => ∃ m', ok m' ∧ O.next m' = none ∧ O.first m' + O.len m' ≤ J O s m d := by
  intro fuel
  induction fuel with
  | zero =>
    intro m d hm h0 hf
    have hb := weekCount_bounds O m s (L.len_lo m hm) (L.len_hi m hm)
    unfold fwd
    have : ¬ d ≥ weekCount O m s := by omega
    simp only [this, if_false]
    exact ⟨hm, trivial, h0, by omega⟩
  | succ fuel ih =>
    intro m d hm h0 hf
    have hb := weekCount_bounds O m s (L.len_lo m hm) (L.len_hi m hm)
    unfold fwd
    by_cases hd : d ≥ weekCount O m s
    · simp only [hd, if_true]
      cases hn : O.next m with
      | none =>
        dsimp only
        refine ⟨m, hm, hn, ?_⟩
        unfold J
        have := off_range O m s
        rw [weekCount_eq] at hd
        rw [off_eq] at *
        omega
      | some m' =>
        dsimp only
        have hm' := L.next_ok m m' hm hn
        have hF := L.next_first m m' hm hn
        have hJ : J O s m' (d - weekCount O m s + (if weekOfJdn (O.first m') != s then 1 else 0)) = J O s m d := by
          unfold J
          rw [off_eq, off_eq, weekCount_eq, hF]
          exact border (O.first m) (O.len m) s d hs
        have he : (0 : Int) ≤ (if weekOfJdn (O.first m') != s then 1 else 0) ∧
            (if weekOfJdn (O.first m') != s then 1 else 0) ≤ (1 : Int) := by split <;> omega
        have := ih m' (d - weekCount O m s + (if weekOfJdn (O.first m') != s then 1 else 0)) hm' (by omega) (by omega)
        rw [hJ] at this
        exact this
    · simp only [hd, if_false]
      exact ⟨hm, trivial, h0, by omega⟩

/-- backward border identity -/
theorem border_back (F' L' s d : Int) (hs : 0 ≤ s ∧ s ≤ 6) :
    F' + ((d - (if weekOfJdn (F' + L') != s then 1 else 0) + ((weekOfJdn F' - s) % 7 + L' + 6) / 7) * 7
      - (weekOfJdn F' - s) % 7) = F' + L' + (d * 7 - (weekOfJdn (F' + L') - s) % 7) := by
  unfold weekOfJdn
  by_cases h : (F' + L' + 7000001) % 7 = s
  · simp only [h, bne_self_eq_false, Bool.false_eq_true, if_false]; omega
  · have : ((F' + L' + 7000001) % 7 != s) = true := by simp [h]
    simp only [this, if_true]; omega

theorem bwd_spec (O : MonthOps M) (ok : M → Prop) (L : Laws O ok) (s : Int) (hs : 0 ≤ s ∧ s ≤ 6) :
    ∀ (fuel : Nat) (m : M) (d : Int), ok m → d < weekCount O m s → -d ≤ fuel →
      match bwd O s fuel m d with
      | some (m', d') => ok m' ∧ J O s m' d' = J O s m d ∧ 0 ≤ d' ∧ d' < weekCount O m' s
      | none => ∃ m', ok m' ∧ O.prev m' = none ∧ J O s m d + 7 ≤ O.first m' := by
  intro fuel
  induction fuel with
  | zero =>
    intro m d hm h0 hf
    unfold bwd
    have : ¬ d < 0 := by omega
    simp only [this, if_false]
    exact ⟨hm, trivial, by omega, h0⟩
  | succ fuel ih =>
    intro m d hm h0 hf
    unfold bwd
    by_cases hd : d < 0
    · simp only [hd, if_true]
      cases hn : O.prev m with
      | none =>
        dsimp only
        refine ⟨m, hm, hn, ?_⟩
        unfold J
        have := off_range O m s
        omega
      | some m' =>
        dsimp only
        have hm' := L.prev_ok m m' hm hn
        have hF := L.prev_first m m' hm hn
        have hb := weekCount_bounds O m' s (L.len_lo m' hm') (L.len_hi m' hm')
        have hJ : J O s m' (d - (if weekOfJdn (O.first m) != s then 1 else 0) + weekCount O m' s) = J O s m d := by
          unfold J
          rw [off_eq, off_eq, weekCount_eq, hF]
          exact border_back (O.first m') (O.len m') s d hs
        have he : (0 : Int) ≤ (if weekOfJdn (O.first m) != s then 1 else 0) ∧
            (if weekOfJdn (O.first m) != s then 1 else 0) ≤ (1 : Int) := by split <;> omega
        have := ih m' (d - (if weekOfJdn (O.first m) != s then 1 else 0) + weekCount O m' s) hm' (by omega) (by omega)
        rw [hJ] at this
        exact this
    · simp only [hd, if_false]
      exact ⟨hm, trivial, by omega, h0⟩


/-- a well-formed week of a real month -/
def WeekOk (O : MonthOps M) (ok : M → Prop) (w : Week M) : Prop :=
  ok w.month ∧ 0 ≤ w.start ∧ w.start ≤ 6 ∧ 0 ≤ w.index ∧ w.index < weekCount O w.month w.start

theorem weekNew_eq_some (O : MonthOps M) (m : M) (i s : Int) (h0 : 0 ≤ i) (h1 : i < weekCount O m s)
    (h2 : weekCount O m s ≤ 6) (hs : 0 ≤ s ∧ s ≤ 6) : weekNew O m i s = some ⟨m, i, s⟩ := by
  unfold weekNew
  have a : ¬ (i < 0 ∨ s < 0) := by omega
  have b : ¬ i > 5 := by omega
  have c : ¬ s > 6 := by omega
  have d : ¬ i ≥ weekCount O m s := by omega
  simp only [a, b, c, d, if_false]

theorem weekNew_some (O : MonthOps M) (m : M) (i s : Int) (w : Week M) (h : weekNew O m i s = some w) :
    w = ⟨m, i, s⟩ ∧ 0 ≤ i ∧ i ≤ 5 ∧ 0 ≤ s ∧ s ≤ 6 ∧ i < weekCount O m s := by
  unfold weekNew at h
  split at h
  · cases h
  · split at h
    · cases h
    · split at h
      · cases h
      · split at h
        · cases h
        · cases h
          refine ⟨rfl, ?_⟩
          omega

theorem J_add (O : MonthOps M) (s : Int) (m : M) (d n : Int) : J O s m (d + n) = J O s m d + 7 * n := by
  unfold J; omega

/-- stepping a week by n keeps it well formed and moves its first day by exactly 7n; it is refused only when
the month sequence ends before the target week is reached -/
theorem weekNext_spec (O : MonthOps M) (ok : M → Prop) (L : Laws O ok) (w : Week M) (hw : WeekOk O ok w) (n : Int) :
    match weekNext O w n with
    | some w' => WeekOk O ok w' ∧ w'.start = w.start ∧ firstJ O w' = firstJ O w + 7 * n
    | none => (0 < n ∧ ∃ m', ok m' ∧ O.next m' = none ∧ O.first m' + O.len m' ≤ firstJ O w + 7 * n) ∨
              (n < 0 ∧ ∃ m', ok m' ∧ O.prev m' = none ∧ firstJ O w + 7 * n + 7 ≤ O.first m') := by
  obtain ⟨hm, hs0, hs6, hi0, hi1⟩ := hw
  have hs : 0 ≤ w.start ∧ w.start ≤ 6 := ⟨hs0, hs6⟩
  unfold weekNext
  dsimp only
  by_cases hn : n > 0
  · simp only [hn, if_true]
    have := fwd_spec O ok L w.start hs (w.index + n).toNat w.month (w.index + n) hm (by omega) (by omega)
    cases hf : fwd O w.start (w.index + n).toNat w.month (w.index + n) with
    | none =>
      rw [hf] at this
      dsimp only
      left
      rw [firstJ_eq_J, ← J_add]
      exact ⟨trivial, this⟩
    | some r =>
      obtain ⟨m', d'⟩ := r
      rw [hf] at this
      dsimp only at this ⊢
      obtain ⟨a, b, c, d⟩ := this
      have hb := weekCount_bounds O m' w.start (L.len_lo m' a) (L.len_hi m' a)
      rw [weekNew_eq_some O m' d' w.start c d hb.2 hs]
      dsimp only
      refine ⟨⟨a, hs0, hs6, c, d⟩, rfl, ?_⟩
      rw [firstJ_eq_J, firstJ_eq_J]
      dsimp only
      rw [b, J_add]
  · simp only [hn, if_false]
    by_cases hn2 : n < 0
    · simp only [hn2, if_true]
      have := bwd_spec O ok L w.start hs (-(w.index + n)).toNat w.month (w.index + n) hm (by omega) (by omega)
      cases hf : bwd O w.start (-(w.index + n)).toNat w.month (w.index + n) with
      | none =>
        rw [hf] at this
        dsimp only
        right
        rw [firstJ_eq_J, ← J_add]
        exact ⟨trivial, this⟩
      | some r =>
        obtain ⟨m', d'⟩ := r
        rw [hf] at this
        dsimp only at this ⊢
        obtain ⟨a, b, c, d⟩ := this
        have hb := weekCount_bounds O m' w.start (L.len_lo m' a) (L.len_hi m' a)
        rw [weekNew_eq_some O m' d' w.start c d hb.2 hs]
        dsimp only
        refine ⟨⟨a, hs0, hs6, c, d⟩, rfl, ?_⟩
        rw [firstJ_eq_J, firstJ_eq_J]
        dsimp only
        rw [b, J_add]
    · simp only [hn2, if_false]
      have hz : n = 0 := by omega
      subst hz
      have hb := weekCount_bounds O w.month w.start (L.len_lo _ hm) (L.len_hi _ hm)
      rw [Int.add_zero, weekNew_eq_some O w.month w.index w.start hi0 hi1 hb.2 hs]
      dsimp only
      refine ⟨⟨hm, hs0, hs6, hi0, hi1⟩, rfl, ?_⟩
      rw [firstJ_eq_J]; dsimp only; omega


/-- an abstract month sequence whose consecutive firsts are `len` apart satisfies the laws -/
theorem seqLaws (first len : Int → Int) (lo hi : Int)
    (hstep : ∀ k, lo ≤ k → k < hi → first (k + 1) = first k + len k)
    (hlen : ∀ k, lo ≤ k → k ≤ hi → 8 ≤ len k ∧ len k ≤ 36) :
    Laws (seqOps first len lo hi) (fun k => lo ≤ k ∧ k ≤ hi) where
  next_ok := by
    intro m m' hm hn
    unfold seqOps at hn; dsimp only at hn
    split at hn
    · cases hn; omega
    · cases hn
  prev_ok := by
    intro m m' hm hn
    unfold seqOps at hn; dsimp only at hn
    split at hn
    · cases hn; omega
    · cases hn
  next_first := by
    intro m m' hm hn
    unfold seqOps at hn ⊢; dsimp only at hn ⊢
    split at hn
    · cases hn; exact hstep m hm.1 (by omega)
    · cases hn
  prev_first := by
    intro m m' hm hn
    unfold seqOps at hn ⊢; dsimp only at hn ⊢
    split at hn
    · cases hn
      have := hstep (m - 1) (by omega) (by omega)
      have e : m - 1 + 1 = m := by omega
      rw [e] at this; exact this
    · cases hn
  len_lo := fun m hm => (hlen m hm.1 hm.2).1
  len_hi := fun m hm => (hlen m hm.1 hm.2).2

/-! ### first weekday, count, cover (generic) -/

theorem J_weekday (O : MonthOps M) (s : Int) (m : M) (d : Int) (hs : 0 ≤ s ∧ s ≤ 6) :
    weekOfJdn (J O s m d) = s := by
  unfold J; rw [off_eq]; unfold weekOfJdn; omega

/-- index d is offered (0 ≤ d < count) exactly when the 7-day block starting at `J d` meets the month -/
theorem meets_iff (O : MonthOps M) (s : Int) (m : M) (d : Int) :
    (0 ≤ d ∧ d < weekCount O m s) ↔
      (J O s m d ≤ O.first m + O.len m - 1 ∧ O.first m ≤ J O s m d + 6) := by
  unfold J; rw [weekCount_eq, off_eq]; omega

/-- every day of the month lies in the week with index (position + off) / 7 -/
theorem cover (O : MonthOps M) (s : Int) (m : M) (j : Int) (h1 : O.first m ≤ j) (h2 : j < O.first m + O.len m) :
    0 ≤ (j - O.first m + off O m s) / 7 ∧ (j - O.first m + off O m s) / 7 < weekCount O m s ∧
    J O s m ((j - O.first m + off O m s) / 7) ≤ j ∧ j ≤ J O s m ((j - O.first m + off O m s) / 7) + 6 := by
  unfold J; rw [weekCount_eq, off_eq]; omega

/-! ### the civil instance -/

def civilOk (ym : Int × Int) : Prop := 1 ≤ ym.1 ∧ ym.1 ≤ 9999 ∧ 1 ≤ ym.2 ∧ ym.2 ≤ 12

theorem solarMonthOk_iff (y m : Int) : solarMonthOk y m = true ↔ civilOk (y, m) := by
  unfold solarMonthOk civilOk
  simp only [Bool.and_eq_true, decide_eq_true_eq]; omega

theorem solarMonthNext_one (y m : Int) (h : civilOk (y, m)) :
    solarMonthNext (y, m) 1 = if m < 12 then some (y, m + 1) else if y < 9999 then some (y + 1, 1) else none := by
  obtain ⟨h1, h2, h3, h4⟩ := h
  dsimp only at h1 h2 h3 h4
  unfold solarMonthNext
  dsimp only
  rw [indexOf_12, tdiv_12_nonneg _ (by omega)]
  by_cases hm : m < 12
  · have e1 : (y * 12 + (m - 1 + 1)) / 12 = y := by omega
    have e2 : (m - 1 + 1) % 12 + 1 = m + 1 := by omega
    have ok : solarMonthOk y (m + 1) = true := by rw [solarMonthOk_iff]; unfold civilOk; dsimp only; omega
    simp only [e1, e2, ok, hm, if_true]
  · have hm12 : m = 12 := by omega
    subst hm12
    have e1 : (y * 12 + (12 - 1 + 1)) / 12 = y + 1 := by omega
    have e2 : ((12 : Int) - 1 + 1) % 12 + 1 = 1 := by decide
    simp only [e1, e2, hm, if_false]
    by_cases hy : y < 9999
    · have ok : solarMonthOk (y + 1) 1 = true := by rw [solarMonthOk_iff]; unfold civilOk; dsimp only; omega
      simp only [ok, hy, if_true]
    · have ok : ¬ solarMonthOk (y + 1) 1 = true := by rw [solarMonthOk_iff]; unfold civilOk; dsimp only; omega
      simp [ok, hy]

theorem solarMonthNext_neg_one (y m : Int) (h : civilOk (y, m)) :
    solarMonthNext (y, m) (-1) = if 1 < m then some (y, m - 1) else if 1 < y then some (y - 1, 12) else none := by
  obtain ⟨h1, h2, h3, h4⟩ := h
  dsimp only at h1 h2 h3 h4
  unfold solarMonthNext
  dsimp only
  rw [indexOf_12, tdiv_12_nonneg _ (by omega)]
  by_cases hm : 1 < m
  · have e1 : (y * 12 + (m - 1 + -1)) / 12 = y := by omega
    have e2 : (m - 1 + -1) % 12 + 1 = m - 1 := by omega
    have ok : solarMonthOk y (m - 1) = true := by rw [solarMonthOk_iff]; unfold civilOk; dsimp only; omega
    simp only [e1, e2, ok, hm, if_true]
  · have hm1 : m = 1 := by omega
    subst hm1
    have e1 : (y * 12 + (1 - 1 + -1)) / 12 = y - 1 := by omega
    have e2 : ((1 : Int) - 1 + -1) % 12 + 1 = 12 := by decide
    simp only [e1, e2, hm, if_false]
    by_cases hy : 1 < y
    · have ok : solarMonthOk (y - 1) 12 = true := by rw [solarMonthOk_iff]; unfold civilOk; dsimp only; omega
      simp only [ok, hy, if_true]
    · have ok : ¬ solarMonthOk (y - 1) 12 = true := by rw [solarMonthOk_iff]; unfold civilOk; dsimp only; omega
      simp [ok, hy]

theorem monthLen_bounds (y m : Int) : 21 ≤ monthLen y m ∧ monthLen y m ≤ 31 := by
  rw [monthLen_eq]
  repeat' split
  all_goals omega

/-- first of next month = first of month + day count, for every month but 9999-12 -/
theorem first_next (y m : Int) (h : civilOk (y, m)) (hl : ¬ (y = 9999 ∧ m = 12)) :
    (if m = 12 then jdn (y + 1) 1 1 else jdn y (m + 1) 1) = jdn y m 1 + monthLen y m := by
  obtain ⟨h1, h2, h3, h4⟩ := h
  have a := C01_monthLen_dist y m h1 h2 h3 h4 hl
  have b := C01_monthLen y m h1 h2 h3 h4
  omega

theorem civilLaws : Laws civilOps civilOk where
  next_ok := by
    intro ⟨y, m⟩ m' hm hn
    have := solarMonthNext_one y m hm
    unfold civilOps at hn; dsimp only at hn
    rw [this] at hn
    unfold civilOk at hm ⊢
    dsimp only at hm
    split at hn
    · cases hn; dsimp only; omega
    · split at hn
      · cases hn; dsimp only; omega
      · cases hn
  prev_ok := by
    intro ⟨y, m⟩ m' hm hn
    have := solarMonthNext_neg_one y m hm
    unfold civilOps at hn; dsimp only at hn
    rw [this] at hn
    unfold civilOk at hm ⊢
    dsimp only at hm
    split at hn
    · cases hn; dsimp only; omega
    · split at hn
      · cases hn; dsimp only; omega
      · cases hn
  next_first := by
    intro ⟨y, m⟩ m' hm hn
    have := solarMonthNext_one y m hm
    unfold civilOps at hn ⊢; dsimp only at hn ⊢
    rw [this] at hn
    have hc := hm
    unfold civilOk at hm
    dsimp only at hm
    split at hn
    · cases hn
      have := first_next y m hc (by omega)
      have hne : ¬ m = 12 := by omega
      simp only [hne, if_false] at this
      exact this
    · split at hn
      · cases hn
        have := first_next y m hc (by omega)
        have he : m = 12 := by omega
        simp only [he, if_true] at this ⊢
        exact this
      · cases hn
  prev_first := by
    intro ⟨y, m⟩ m' hm hn
    have := solarMonthNext_neg_one y m hm
    unfold civilOps at hn ⊢; dsimp only at hn ⊢
    rw [this] at hn
    unfold civilOk at hm
    dsimp only at hm
    split at hn
    · cases hn
      have := first_next y (m - 1) (by unfold civilOk; dsimp only; omega) (by omega)
      have hne : ¬ m - 1 = 12 := by omega
      have e : m - 1 + 1 = m := by omega
      simp only [hne, if_false, e] at this
      exact this
    · split at hn
      · cases hn
        have hh := first_next (y - 1) 12 (by unfold civilOk; dsimp only; omega) (by omega)
        have e : y - 1 + 1 = y := by omega
        have e1 : m = 1 := by omega
        simp only [if_true, e] at hh
        subst e1
        exact hh
      · cases hn
  len_lo := by
    intro ⟨y, m⟩ hm
    have := monthLen_bounds y m
    unfold civilOps; dsimp only; omega
  len_hi := by
    intro ⟨y, m⟩ hm
    have := monthLen_bounds y m
    unfold civilOps; dsimp only; omega


/-! ### civil days around the ends of the range -/
open Civil in
theorem dayNext_in_range (a : Int × Int × Int) (n : Int)
    (h1 : jdnFirst ≤ jdnT a + n) (h2 : jdnT a + n ≤ jdnLast) :
    dayNext a n = some (ofJdn (jdnT a + n)) ∧ Civil.validT (ofJdn (jdnT a + n)) = true ∧
      jdnT (ofJdn (jdnT a + n)) = jdnT a + n := by
  obtain ⟨hv, hj⟩ := C01_jdn_ofJdn (jdnT a + n) h1 h2
  refine ⟨?_, hv, hj⟩
  unfold dayNext
  have : jdn a.1 a.2.1 a.2.2 + n = jdnT a + n := rfl
  simp only [this]
  rw [C01_accept_iff]
  unfold Civil.validT at hv
  simp only [hv, if_true]

/-- the six day numbers just outside either end of the range are refused -/
theorem ofJdn_edge_refused (j : Int)
    (h : (jdnFirst - 6 ≤ j ∧ j < jdnFirst) ∨ (jdnLast < j ∧ j ≤ jdnLast + 6)) :
    solarDayOk (ofJdn j).1 (ofJdn j).2.1 (ofJdn j).2.2 = false := by
  unfold jdnFirst jdnLast at h
  have : j = 1721418 ∨ j = 1721419 ∨ j = 1721420 ∨ j = 1721421 ∨ j = 1721422 ∨ j = 1721423 ∨
      j = 5373485 ∨ j = 5373486 ∨ j = 5373487 ∨ j = 5373488 ∨ j = 5373489 ∨ j = 5373490 := by omega
  rcases this with rfl|rfl|rfl|rfl|rfl|rfl|rfl|rfl|rfl|rfl|rfl|rfl <;> decide

/-- `day.next(n)` within 6 days of the range: accepted exactly inside the range, and then it is the day with
day number + n -/
theorem dayNext_near (a : Int × Int × Int) (n : Int)
    (h1 : jdnFirst - 6 ≤ jdnT a + n) (h2 : jdnT a + n ≤ jdnLast + 6) (r : Int × Int × Int) :
    dayNext a n = some r ↔ (jdnFirst ≤ jdnT a + n ∧ jdnT a + n ≤ jdnLast ∧ r = ofJdn (jdnT a + n)) := by
  constructor
  · intro h
    by_cases hin : jdnFirst ≤ jdnT a + n ∧ jdnT a + n ≤ jdnLast
    · have := (dayNext_in_range a n hin.1 hin.2).1
      rw [this] at h
      cases h
      exact ⟨hin.1, hin.2, rfl⟩
    · have := ofJdn_edge_refused (jdnT a + n) (by omega)
      unfold dayNext at h
      have e : jdn a.1 a.2.1 a.2.2 + n = jdnT a + n := rfl
      simp only [e, this] at h
      cases h
  · rintro ⟨a1, a2, rfl⟩
    exact (dayNext_in_range a n a1 a2).1

theorem month_first_ge (y m : Int) (h : civilOk (y, m)) : jdnFirst ≤ jdn y m 1 := by
  obtain ⟨h1, h2, h3, h4⟩ := h
  dsimp only at h1 h2 h3 h4
  rw [jdn_nf]; unfold jdnFirst
  repeat' split
  all_goals omega

theorem month_valid_first (y m : Int) (h : civilOk (y, m)) : Civil.valid y m 1 = true := by
  obtain ⟨h1, h2, h3, h4⟩ := h
  dsimp only at h1 h2 h3 h4
  rw [valid_iff, lastDay_eq]
  refine ⟨h1, h2, h3, h4, by omega, ?_, by omega⟩
  repeat' split
  all_goals omega

theorem month_last_le (y m : Int) (h : civilOk (y, m)) : jdn y m 1 + monthLen y m - 1 ≤ jdnLast := by
  by_cases hl : y = 9999 ∧ m = 12
  · obtain ⟨rfl, rfl⟩ := hl; decide
  · have := first_next y m h hl
    obtain ⟨h1, h2, h3, h4⟩ := h
    dsimp only at h1 h2 h3 h4
    by_cases hm : m = 12
    · subst hm
      simp only [if_true] at this
      have v := jdn_le_last (y + 1) 1 1 (month_valid_first (y + 1) 1 (by unfold civilOk; dsimp only; omega))
      omega
    · simp only [hm, if_false] at this
      have v := jdn_le_last y (m + 1) 1 (month_valid_first y (m + 1) (by unfold civilOk; dsimp only; omega))
      omega


/-! ### civil weeks -/

theorem solarWeekNew_iff (y m i s : Int) (w : SolarWeek) :
    solarWeekNew y m i s = some w ↔
      (w = ⟨(y, m), i, s⟩ ∧ civilOk (y, m) ∧ 0 ≤ s ∧ s ≤ 6 ∧ 0 ≤ i ∧ i < weekCount civilOps (y, m) s) := by
  constructor
  · intro h
    unfold solarWeekNew at h
    split at h
    · cases h
    · split at h
      · cases h
      · split at h
        · cases h
        · split at h
          · cases h
          · rename_i hok
            have hok' : civilOk (y, m) := by
              rw [← solarMonthOk_iff]
              cases hh : solarMonthOk y m
              · simp [hh] at hok
              · rfl
            obtain ⟨a, b, c, d, e, f⟩ := weekNew_some civilOps (y, m) i s w h
            exact ⟨a, hok', d, e, b, f⟩
  · rintro ⟨rfl, hok, hs0, hs6, hi0, hi1⟩
    have hb := weekCount_bounds civilOps (y, m) s (civilLaws.len_lo _ hok) (civilLaws.len_hi _ hok)
    unfold solarWeekNew
    have hm0 : ¬ m < 0 := by unfold civilOk at hok; dsimp only at hok; omega
    have a : ¬ (i < 0 ∨ s < 0 ∨ m < 0) := by omega
    have b : ¬ i > 5 := by omega
    have c : ¬ s > 6 := by omega
    have d : solarMonthOk y m = true := (solarMonthOk_iff y m).2 hok
    simp only [a, b, c, d, if_false, Bool.not_true, Bool.false_eq_true]
    exact weekNew_eq_some civilOps (y, m) i s hi0 hi1 hb.2 ⟨hs0, hs6⟩

/-- a well-formed civil week starts at most 6 days before 0001-01-01 and not after 9999-12-31 -/
theorem solarWeek_bounds (w : SolarWeek) (hw : WeekOk civilOps civilOk w) :
    jdnFirst - 6 ≤ firstJ civilOps w ∧ firstJ civilOps w ≤ jdnLast ∧
    civilOps.first w.month ≤ firstJ civilOps w + 6 ∧
    firstJ civilOps w ≤ civilOps.first w.month + civilOps.len w.month - 1 := by
  obtain ⟨hm, hs0, hs6, hi0, hi1⟩ := hw
  have := (meets_iff civilOps w.start w.month w.index).1 ⟨hi0, hi1⟩
  rw [← firstJ_eq_J] at this
  have a := month_first_ge w.month.1 w.month.2 hm
  have b := month_last_le w.month.1 w.month.2 hm
  have e1 : civilOps.first w.month = jdn w.month.1 w.month.2 1 := rfl
  have e2 : civilOps.len w.month = monthLen w.month.1 w.month.2 := rfl
  omega

theorem solarWeekFirstDay_iff (w : SolarWeek) (hw : WeekOk civilOps civilOk w) (d : Int × Int × Int) :
    solarWeekFirstDay w = some d ↔ (jdnFirst ≤ firstJ civilOps w ∧ d = ofJdn (firstJ civilOps w)) := by
  have hb := solarWeek_bounds w hw
  have e : jdnT (w.month.1, w.month.2, 1) + firstShift civilOps w = firstJ civilOps w := rfl
  unfold solarWeekFirstDay
  rw [dayNext_near _ _ (by rw [e]; omega) (by rw [e]; omega), e]
  constructor
  · rintro ⟨a, _, c⟩; exact ⟨a, c⟩
  · rintro ⟨a, c⟩; exact ⟨a, hb.2.1, c⟩

theorem mapM_some_iff {α β : Type} (f : β → Option α) : ∀ (xs : List β) (l : List α),
    xs.mapM f = some l ↔ (l.length = xs.length ∧ ∀ (k : Nat) (h1 : k < xs.length) (h2 : k < l.length), f xs[k] = some l[k]) := by
  intro xs
  induction xs with
  | nil =>
    intro l
    simp only [List.mapM_nil, pure, Option.some.injEq, List.length_nil]
    constructor
    · intro h; subst h; simp
    · rintro ⟨h, _⟩
      exact (List.eq_nil_of_length_eq_zero h).symm
  | cons x xs ih =>
    intro l
    rw [List.mapM_cons]
    cases hx : f x with
    | none =>
      simp only [bind, Option.bind]
      constructor
      · intro h; cases h
      · rintro ⟨h1, h2⟩
        cases l with
        | nil => simp at h1
        | cons a l =>
          have := h2 0 (by simp) (by simp)
          simp [hx] at this
    | some a =>
      cases hr : xs.mapM f with
      | none =>
        simp only [bind, Option.bind]
        constructor
        · intro h; cases h
        · rintro ⟨h1, h2⟩
          cases l with
          | nil => simp at h1
          | cons b l =>
            have : xs.mapM f = some l := by
              rw [ih]
              refine ⟨by simpa using h1, ?_⟩
              intro k k1 k2
              have := h2 (k+1) (by simp; omega) (by simp; omega)
              simpa using this
            rw [hr] at this; cases this
      | some r =>
        simp only [bind, Option.bind, pure, Option.some.injEq]
        have ihr := (ih r).1 hr
        constructor
        · intro h; subst h
          refine ⟨by simp [ihr.1], ?_⟩
          intro k k1 k2
          cases k with
          | zero => simpa using hx
          | succ k => simpa using ihr.2 k (by simpa using k1) (by simpa using k2)
        · rintro ⟨h1, h2⟩
          cases l with
          | nil => simp at h1
          | cons b l =>
            have h0 := h2 0 (by simp) (by simp)
            simp [hx] at h0
            have : xs.mapM f = some l := by
              rw [ih]
              refine ⟨by simpa using h1, ?_⟩
              intro k k1 k2
              have := h2 (k+1) (by simp; omega) (by simp; omega)
              simpa using this
            rw [hr] at this
            cases this
            rw [h0]

theorem solarWeekDays_iff (w : SolarWeek) (hw : WeekOk civilOps civilOk w) (l : List (Int × Int × Int)) :
    solarWeekDays w = some l ↔
      (jdnFirst ≤ firstJ civilOps w ∧ firstJ civilOps w + 6 ≤ jdnLast ∧ l.length = 7 ∧
        ∀ (k : Nat) (h : k < l.length), l[k] = ofJdn (firstJ civilOps w + k)) := by
  have hb := solarWeek_bounds w hw
  unfold solarWeekDays
  cases hf : solarWeekFirstDay w with
  | none =>
    dsimp only
    constructor
    · intro h; cases h
    · rintro ⟨a, _⟩
      have := (solarWeekFirstDay_iff w hw (ofJdn (firstJ civilOps w))).2 ⟨a, rfl⟩
      rw [hf] at this; cases this
  | some d =>
    dsimp only
    obtain ⟨a, rfl⟩ := (solarWeekFirstDay_iff w hw d).1 hf
    obtain ⟨hv, hj⟩ := C01_jdn_ofJdn (firstJ civilOps w) a hb.2.1
    rw [mapM_some_iff]
    simp only [List.length_range, List.getElem_range]
    constructor
    · rintro ⟨h1, h2⟩
      have h6 := h2 6 (by omega) (by omega)
      rw [dayNext_near _ _ (by rw [hj]; omega) (by rw [hj]; omega), hj] at h6
      refine ⟨a, by omega, h1, ?_⟩
      intro k hk
      have := h2 k (by omega) hk
      rw [dayNext_near _ _ (by rw [hj]; omega) (by rw [hj]; omega), hj] at this
      exact this.2.2
    · rintro ⟨_, b, h1, h2⟩
      refine ⟨h1, ?_⟩
      intro k k1 k2
      rw [dayNext_near _ _ (by rw [hj]; omega) (by rw [hj]; omega), hj]
      exact ⟨by omega, by omega, h2 k k2⟩

theorem day_in_month (y m d : Int) (hv : Civil.valid y m d = true) :
    jdn y m 1 ≤ jdn y m d ∧ jdn y m d ≤ jdn y m 1 + monthLen y m - 1 := by
  obtain ⟨h1, h2, h3, h4, h5, h6, h7⟩ := (valid_iff y m d).1 hv
  have hl := C01_monthLen y m h1 h2 h3 h4
  unfold Civil.daysIn at hl
  simp only [Bool.and_eq_true, beq_iff_eq] at hl
  have h31 : Civil.lastDay y m ≤ 31 := by
    rw [lastDay_eq]; repeat' split
    all_goals omega
  rw [hl]
  rw [jdn_nf y m d, jdn_nf y m 1]
  by_cases hc : y = 1582 ∧ m = 10
  · obtain ⟨rfl, rfl⟩ := hc
    simp at h7
    simp only [and_self, if_true]
    repeat' split
    all_goals omega
  · simp only [hc, if_false]
    have hflag : (y * 372 + m * 31 + d ≥ 588829) ↔ (y * 372 + m * 31 + 1 ≥ 588829) := by omega
    simp only [hflag]
    repeat' split
    all_goals omega

theorem month_in_year (y m : Int) (h : civilOk (y, m)) :
    jdn y 1 1 ≤ jdn y m 1 ∧ jdn y m 1 + monthLen y m ≤ jdn y 1 1 + 366 := by
  obtain ⟨h1, h2, h3, h4⟩ := h
  dsimp only at h1 h2 h3 h4
  have hm : m = 1 ∨ m = 2 ∨ m = 3 ∨ m = 4 ∨ m = 5 ∨ m = 6 ∨ m = 7 ∨ m = 8 ∨ m = 9 ∨ m = 10 ∨ m = 11 ∨ m = 12 := by omega
  rw [monthLen_eq]
  simp only [isLeap_iff, jdn_nf]
  rcases hm with rfl|rfl|rfl|rfl|rfl|rfl|rfl|rfl|rfl|rfl|rfl|rfl
  all_goals (
    simp
    repeat' split
    all_goals omega)

theorem jan1_ge (y : Int) (h : 2 ≤ y) : jdnFirst + 365 ≤ jdn y 1 1 := by
  rw [jdn_nf]; unfold jdnFirst
  repeat' split
  all_goals omega

theorem civil_next_none (m' : Int × Int) (h : civilOk m') (hn : civilOps.next m' = none) :
    civilOps.first m' + civilOps.len m' = jdnLast + 1 := by
  obtain ⟨y, m⟩ := m'
  have := solarMonthNext_one y m h
  unfold civilOps at hn ⊢; dsimp only at hn ⊢
  rw [this] at hn
  unfold civilOk at h; dsimp only at h
  split at hn
  · cases hn
  · split at hn
    · cases hn
    · have e1 : y = 9999 := by omega
      have e2 : m = 12 := by omega
      subst e1 e2; decide

theorem civil_prev_none (m' : Int × Int) (h : civilOk m') (hn : civilOps.prev m' = none) :
    civilOps.first m' = jdnFirst := by
  obtain ⟨y, m⟩ := m'
  have := solarMonthNext_neg_one y m h
  unfold civilOps at hn ⊢; dsimp only at hn ⊢
  rw [this] at hn
  unfold civilOk at h; dsimp only at h
  split at hn
  · cases hn
  · split at hn
    · cases hn
    · have e1 : y = 1 := by omega
      have e2 : m = 1 := by omega
      subst e1 e2; decide

theorem ofJdn_ne_iff (a b : Int) (ha : jdnFirst ≤ a ∧ a ≤ jdnLast) (hb : jdnFirst ≤ b ∧ b ≤ jdnLast) :
    (ofJdn a != ofJdn b) = true ↔ a ≠ b := by
  simp only [bne_iff_ne, ne_eq]
  constructor
  · intro h e; exact h (by rw [e])
  · intro h e
    have := (C01_jdn_ofJdn a ha.1 ha.2).2
    rw [e, (C01_jdn_ofJdn b hb.1 hb.2).2] at this
    exact h this.symm

/-- the `get_index_in_year` loop: from a week v that lies k weeks before the target it returns i + k -/
theorem idxLoop_spec (T : Int) (hT : jdnFirst ≤ T ∧ T ≤ jdnLast) :
    ∀ (fuel : Nat) (v : SolarWeek) (i : Int), WeekOk civilOps civilOk v → jdnFirst ≤ firstJ civilOps v →
      firstJ civilOps v ≤ T → (T - firstJ civilOps v) % 7 = 0 → (T - firstJ civilOps v) / 7 ≤ fuel →
      idxLoop (ofJdn T) fuel v i = some (i + (T - firstJ civilOps v) / 7) := by
  intro fuel
  induction fuel with
  | zero =>
    intro v i hv h1 h2 h3 h4
    unfold idxLoop idxLoopG
    rw [(solarWeekFirstDay_iff v hv _).2 ⟨h1, rfl⟩]
    dsimp only
    have e : firstJ civilOps v = T := by omega
    rw [e]
    simp
  | succ fuel ih =>
    intro v i hv h1 h2 h3 h4
    unfold idxLoop idxLoopG
    rw [(solarWeekFirstDay_iff v hv _).2 ⟨h1, rfl⟩]
    dsimp only
    by_cases e : firstJ civilOps v = T
    · rw [e]; simp
    · have hne := (ofJdn_ne_iff (firstJ civilOps v) T ⟨h1, by omega⟩ hT).2 e
      simp only [hne, if_true]
      have hs := weekNext_spec civilOps civilOk civilLaws v hv 1
      unfold solarWeekNext
      cases hn : weekNext civilOps v 1 with
      | none =>
        rw [hn] at hs
        dsimp only at hs
        rcases hs with ⟨_, m', hm', hnn, hle⟩ | ⟨hlt, _⟩
        · have := civil_next_none m' hm' hnn
          omega
        · omega
      | some v' =>
        rw [hn] at hs
        dsimp only at hs ⊢
        obtain ⟨a, _, c⟩ := hs
        have := ih v' (i + 1) a (by omega) (by omega) (by omega) (by omega)
        refine Eq.trans this ?_
        rw [c]
        congr 1
        omega


/-! ### explicit forms for a week written as ⟨(y, m), i, s⟩ -/

theorem weekOk_mk_iff (O : MonthOps M) (ok : M → Prop) (m : M) (i s : Int) :
    WeekOk O ok ⟨m, i, s⟩ ↔ (ok m ∧ 0 ≤ s ∧ s ≤ 6 ∧ 0 ≤ i ∧ i < weekCount O m s) := Iff.rfl

theorem firstJ_mk (y m i s : Int) :
    firstJ civilOps ⟨(y, m), i, s⟩ = jdn y m 1 + (i * 7 - (weekOfJdn (jdn y m 1) - s) % 7) := by
  unfold firstJ firstShift; rw [off_eq]; rfl

theorem solarWeek_bounds_mk (y m i s : Int) (hw : WeekOk civilOps civilOk ⟨(y, m), i, s⟩) :
    jdnFirst - 6 ≤ firstJ civilOps ⟨(y, m), i, s⟩ ∧ firstJ civilOps ⟨(y, m), i, s⟩ ≤ jdnLast ∧
    jdn y m 1 ≤ firstJ civilOps ⟨(y, m), i, s⟩ + 6 ∧
    firstJ civilOps ⟨(y, m), i, s⟩ ≤ jdn y m 1 + monthLen y m - 1 := solarWeek_bounds _ hw

end Tyme.Wk
