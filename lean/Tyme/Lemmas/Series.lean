import Tyme.Model.Series
import Tyme.Spec.Series
import Tyme.Lemmas.Cycle
import Tyme.Thm.C06
import Tyme.Thm.C07
import Tyme.Facts.C15Dec
import Tyme.Facts.C15Pillar
/-! Helper lemmas for C15 (term-anchored day series). Core Lean only. -/
namespace Tyme
open Term SeriesSpec Series Lunar

/-! ### `index_of` for the cycle sizes of the series -/

theorem indexOf_9 (i : Int) : Term.indexOf i 9 = i % 9 := by
  unfold Term.indexOf
  have e := Int.mul_tdiv_add_tmod i 9
  have b1 := Int.tmod_lt_of_pos i (show (0 : Int) < 9 by decide)
  have b2 := Int.lt_tmod_of_pos i (show (0 : Int) < 9 by decide)
  rcases Int.le_total 0 i with hv | hv
  · have := Int.tmod_nonneg 9 hv
    dsimp only; split <;> omega
  · have hneg : Int.tmod i 9 ≤ 0 := by
      have h := Int.tmod_nonneg (a := -i) 9 (by omega)
      rw [Int.neg_tmod] at h; omega
    dsimp only; split <;> omega

theorem indexOf_3 (i : Int) : Term.indexOf i 3 = i % 3 := by
  unfold Term.indexOf
  have e := Int.mul_tdiv_add_tmod i 3
  have b1 := Int.tmod_lt_of_pos i (show (0 : Int) < 3 by decide)
  have b2 := Int.lt_tmod_of_pos i (show (0 : Int) < 3 by decide)
  rcases Int.le_total 0 i with hv | hv
  · have := Int.tmod_nonneg 3 hv
    dsimp only; split <;> omega
  · have hneg : Int.tmod i 3 ≤ 0 := by
      have h := Int.tmod_nonneg (a := -i) 3 (by omega)
      rw [Int.neg_tmod] at h; omega
    dsimp only; split <;> omega

theorem indexOf_72 (i : Int) : Term.indexOf i 72 = i % 72 := by
  unfold Term.indexOf
  have e := Int.mul_tdiv_add_tmod i 72
  have b1 := Int.tmod_lt_of_pos i (show (0 : Int) < 72 by decide)
  have b2 := Int.lt_tmod_of_pos i (show (0 : Int) < 72 by decide)
  rcases Int.le_total 0 i with hv | hv
  · have := Int.tmod_nonneg 72 hv
    dsimp only; split <;> omega
  · have hneg : Int.tmod i 72 ≤ 0 := by
      have h := Int.tmod_nonneg (a := -i) 72 (by omega)
      rw [Int.neg_tmod] at h; omega
    dsimp only; split <;> omega

/-- truncating division / remainder of a non-negative number by a positive literal are the floor ones -/
theorem tdiv_nonneg_9 (a : Int) (h : 0 ≤ a) : Int.tdiv a 9 = a / 9 ∧ Int.tmod a 9 = a % 9 :=
  ⟨Int.tdiv_eq_ediv_of_nonneg h, Int.tmod_eq_emod_of_nonneg h⟩

/-! ### searching for the first / n-th day with a given stem or branch -/

theorem IsFirst_unique (p : Int → Bool) (s j j' : Int) (h : IsFirst p s j) (h' : IsFirst p s j') : j = j' := by
  obtain ⟨a1, a2, a3⟩ := h
  obtain ⟨b1, b2, b3⟩ := h'
  rcases Int.lt_trichotomy j j' with c | c | c
  · have := b3 j a1 c; rw [a2] at this; cases this
  · exact c
  · have := a3 j' b1 c; rw [b2] at this; cases this

/-- the search returns the first day with p, if there is one within n days -/
theorem firstFrom_spec (p : Int → Bool) : ∀ (n : Nat) (s j : Int), firstFrom p s n = some j →
    IsFirst p s j ∧ j < s + n := by
  intro n
  induction n with
  | zero => intro s j h; simp [firstFrom] at h
  | succ n ih =>
    intro s j h
    simp only [firstFrom] at h
    split at h
    · simp only [Option.some.injEq] at h; subst h
      rename_i hp
      exact ⟨⟨Int.le_refl _, hp, fun i h1 h2 => by omega⟩, by omega⟩
    · rename_i hp
      obtain ⟨⟨a1, a2, a3⟩, a4⟩ := ih _ _ h
      refine ⟨⟨by omega, a2, ?_⟩, by omega⟩
      intro i h1 h2
      by_cases e : i = s
      · subst e; simpa using hp
      · exact a3 i (by omega) h2

/-- days with stem t: the first one on or after s is s + (t − stem s) mod 10 -/
theorem firstFrom_stem (t : Int) (ht : 0 ≤ t ∧ t < 10) : ∀ (n : Nat) (s : Int), (t - stemOf s) % 10 < n →
    firstFrom (fun j => stemOf j == t) s n = some (s + (t - stemOf s) % 10) := by
  intro n
  induction n with
  | zero => intro s h; omega
  | succ n ih =>
    intro s h
    simp only [firstFrom]
    by_cases hp : stemOf s = t
    · have : (stemOf s == t) = true := by simp [hp]
      rw [if_pos this]
      unfold stemOf at hp ⊢
      congr 1; omega
    · have : ¬ ((stemOf s == t) = true) := by simp [hp]
      rw [if_neg this]
      have h1 : (t - stemOf (s + 1)) % 10 = (t - stemOf s) % 10 - 1 := by unfold stemOf at hp ⊢; omega
      rw [ih (s + 1) (by omega), h1]
      congr 1; omega

theorem firstFrom_branch (t : Int) (ht : 0 ≤ t ∧ t < 12) : ∀ (n : Nat) (s : Int), (t - branchOf s) % 12 < n →
    firstFrom (fun j => branchOf j == t) s n = some (s + (t - branchOf s) % 12) := by
  intro n
  induction n with
  | zero => intro s h; omega
  | succ n ih =>
    intro s h
    simp only [firstFrom]
    by_cases hp : branchOf s = t
    · have : (branchOf s == t) = true := by simp [hp]
      rw [if_pos this]
      unfold branchOf at hp ⊢
      congr 1; omega
    · have : ¬ ((branchOf s == t) = true) := by simp [hp]
      rw [if_neg this]
      have h1 : (t - branchOf (s + 1)) % 12 = (t - branchOf s) % 12 - 1 := by unfold branchOf at hp ⊢; omega
      rw [ih (s + 1) (by omega), h1]
      congr 1; omega

theorem isFirst_stem_iff (t : Int) (ht : 0 ≤ t ∧ t < 10) (s j : Int) :
    IsFirst (fun j => stemOf j == t) s j ↔ j = s + (t - stemOf s) % 10 := by
  have h := firstFrom_stem t ht 10 s (by omega)
  have hf := (firstFrom_spec _ 10 s _ h).1
  constructor
  · intro hj; exact IsFirst_unique _ s _ _ hj hf
  · intro e; rw [e]; exact hf

theorem isFirst_branch_iff (t : Int) (ht : 0 ≤ t ∧ t < 12) (s j : Int) :
    IsFirst (fun j => branchOf j == t) s j ↔ j = s + (t - branchOf s) % 12 := by
  have h := firstFrom_branch t ht 12 s (by omega)
  have hf := (firstFrom_spec _ 12 s _ h).1
  constructor
  · intro hj; exact IsFirst_unique _ s _ _ hj hf
  · intro e; rw [e]; exact hf

/-- Geng days recur every ten days: the (n+1)-th on or after s is the first plus 10·n -/
theorem isNth_geng_iff : ∀ (n : Nat) (s j : Int), IsNth isGeng s n j ↔ j = s + (6 - stemOf s) % 10 + 10 * n := by
  intro n
  induction n with
  | zero =>
    intro s j
    simp only [IsNth]
    have := isFirst_stem_iff 6 (by omega) s j
    unfold isGeng
    rw [this]; omega
  | succ n ih =>
    intro s j
    simp only [IsNth]
    constructor
    · rintro ⟨j', h1, h2⟩
      rw [ih] at h1
      have := (isFirst_stem_iff 6 (by omega) (j' + 1) j).1 h2
      rw [this, h1]
      unfold stemOf; omega
    · intro e
      refine ⟨s + (6 - stemOf s) % 10 + 10 * n, (ih _ _).2 rfl, ?_⟩
      apply (isFirst_stem_iff 6 (by omega) _ j).2
      rw [e]; unfold stemOf; omega

theorem nthFrom_geng : ∀ (n : Nat) (s : Int), nthFrom isGeng s n = some (s + (6 - stemOf s) % 10 + 10 * n) := by
  intro n
  induction n with
  | zero =>
    intro s
    simp only [nthFrom]
    have := firstFrom_stem 6 (by omega) 60 s (by omega)
    unfold isGeng
    rw [this]; congr 1; omega
  | succ n ih =>
    intro s
    simp only [nthFrom, ih]
    have := firstFrom_stem 6 (by omega) 60 (s + (6 - stemOf s) % 10 + 10 * n + 1) (by omega)
    unfold isGeng
    rw [this]; congr 1
    unfold stemOf; omega

/-! ### model = spec function, any ephemeris -/

theorem tIndexOf_10 (i : Int) : Term.indexOf i 10 = i % 10 := SC.indexOf_10 i
theorem tIndexOf_12 (i : Int) : Term.indexOf i 12 = i % 12 := SC.indexOf_12 i

theorem stemOfPillar_eq (j : Int) : stemOfPillar ((j + 49) % 60) = stemOf j := by
  unfold stemOfPillar stemOf Series.indexOf
  rw [tIndexOf_10]; omega

theorem branchOfPillar_eq (j : Int) : branchOfPillar ((j + 49) % 60) = branchOf j := by
  unfold branchOfPillar branchOf Series.indexOf
  rw [tIndexOf_12]; omega

theorem stepsTo_10 (a t : Int) : stepsTo a t 10 = (t - a) % 10 := by
  unfold stepsTo Series.indexOf; exact tIndexOf_10 _
theorem stepsTo_12 (a t : Int) : stepsTo a t 12 = (t - a) % 12 := by
  unfold stepsTo Series.indexOf; exact tIndexOf_12 _

theorem okJ_of (j : Int) (h1 : JFIRST ≤ j) (h2 : j ≤ JLAST) : okJ j = true := by
  unfold okJ; simp [h1, h2]

/-- get_nine_day = the spec function from the right solstice: a = W(Y) day, b = W(Y+1) day -/
theorem nine_eq (E : Eph) (Y j a b : Int)
    (ha : termStart E (fromIndex Y 0) = some a) (hb : termStart E (fromIndex (Y + 1) 0) = some b)
    (h1 : a ≤ j) (hok : JFIRST ≤ a ∧ a ≤ b ∧ b + 81 ≤ JLAST) :
    nine E Y j = some (nineAt (if j < b then a else b) j) := by
  unfold nine
  simp only [hb]
  have key : ∀ s, s ≤ j → JFIRST ≤ s → s + 81 ≤ JLAST →
      (if (!okJ (s + 81)) = true then (none : Option (Option (Int × Int)))
       else if j < s ∨ ¬ (j < s + 81) then some none
       else some (some (Series.indexOf (Int.tdiv (j - s) 9) 9, Int.tmod (j - s) 9))) = some (nineAt s j) := by
    intro s hs h3 h4
    have ok := okJ_of (s + 81) (by omega) h4
    simp only [ok, Bool.not_true]
    unfold nineAt
    by_cases h81 : j - s < 81
    · have : ¬ (j < s ∨ ¬ (j < s + 81)) := by omega
      obtain ⟨e1, e2⟩ := tdiv_nonneg_9 (j - s) (by omega)
      simp only [this, h81, if_true, if_false, e1, e2, Series.indexOf, indexOf_9]
      have : (j - s) / 9 % 9 = (j - s) / 9 := by omega
      simp [this]
    · have : (j < s ∨ ¬ (j < s + 81)) := by omega
      rw [if_pos this, if_neg h81]; rfl
  by_cases hj : j < b
  · rw [if_pos hj, if_pos hj]
    simp only [ha]
    exact key a h1 hok.1 (by omega)
  · rw [if_neg hj, if_neg hj]
    exact key b (by omega) (by omega) hok.2.2

/-- get_dog_day = the spec function of the year's summer-solstice day s0 and Start-of-Autumn day lq -/
theorem dog_eq (E : Eph) (Y j s0 lq : Int)
    (hs : termStart E (fromIndex Y 12) = some s0)
    (hp : pillarOf E s0 = some ((s0 + 49) % 60))
    (hl : termStart E (next (fromIndex Y 12) 3) = some lq)
    (hok : JFIRST ≤ s0 ∧ s0 + 70 ≤ JLAST) :
    dog E Y j = some (dogAt s0 lq j) := by
  unfold dog dogAt
  simp only [hs, hp, hl, stemOfPillar_eq, stepsTo_10, nthFrom_geng]
  generalize hd : (6 - stemOf s0) % 10 = d
  have hd2 : 0 ≤ d ∧ d < 10 := by omega
  have o1 := okJ_of (s0 + (d + 20)) (by omega) (by omega)
  have o2 := okJ_of (s0 + (d + 20) + 10) (by omega) (by omega)
  have o3 := okJ_of (s0 + (d + 20) + 20) (by omega) (by omega)
  have o4 := okJ_of (s0 + (d + 20) + 30) (by omega) (by omega)
  simp only [o1, o2, o3, o4, Bool.not_true]
  simp only [show ((2:Nat):Int) = 2 from rfl, show ((4:Nat):Int) = 4 from rfl, Bool.false_eq_true, if_false]
  repeat' split
  all_goals first | rfl | omega | (apply congrArg some; apply congrArg some; apply congrArg (Prod.mk _); omega)

theorem firstFrom_bing (s : Int) : firstFrom isBing s 60 = some (s + (2 - stemOf s) % 10) :=
  firstFrom_stem 2 (by omega) 60 s (by omega)
theorem firstFrom_wei (s : Int) : firstFrom isWei s 60 = some (s + (7 - branchOf s) % 12) :=
  firstFrom_branch 7 (by omega) 60 s (by omega)

/-- get_plum_rain_day = the spec function of the year's Grain-in-Ear day g0 and Slight-Heat day h0 -/
theorem plum_eq (E : Eph) (Y j g0 h0 : Int)
    (hg : termStart E (fromIndex Y 11) = some g0) (hpg : pillarOf E g0 = some ((g0 + 49) % 60))
    (hh : termStart E (next (fromIndex Y 11) 2) = some h0) (hph : pillarOf E h0 = some ((h0 + 49) % 60))
    (hok : JFIRST ≤ g0 ∧ g0 + 10 ≤ JLAST ∧ JFIRST ≤ h0 ∧ h0 + 12 ≤ JLAST) :
    plum E Y j = some (plumAt g0 h0 j) := by
  unfold plum plumAt
  simp only [hg, hpg, hh, hph, stemOfPillar_eq, branchOfPillar_eq, stepsTo_10, stepsTo_12, firstFrom_bing, firstFrom_wei]
  generalize hd : (2 - stemOf g0) % 10 = d
  generalize he : (7 - branchOf h0) % 12 = e
  have hd2 : 0 ≤ d ∧ d < 10 := by omega
  have he2 : 0 ≤ e ∧ e < 12 := by omega
  have o1 := okJ_of (g0 + d) (by omega) (by omega)
  have o2 := okJ_of (h0 + e) (by omega) (by omega)
  simp only [o1, o2, Bool.not_true, Bool.false_eq_true, if_false]
  by_cases c1 : j < g0 + d ∨ j > h0 + e
  · have c1' : j < g0 + d ∨ h0 + e < j := c1
    rw [if_pos c1, if_pos c1']
  · have c1' : ¬ (j < g0 + d ∨ h0 + e < j) := c1
    rw [if_neg c1, if_neg c1']
    split <;> rfl

/-- get_phenology_day = the spec function of the day's term and day index -/
theorem pheno_eq (E : Eph) (Y M D : Int) (g : Nat) (k : Int) (h : ofDay E Y M D = some (g, k)) (hk : 0 ≤ k) :
    pheno E Y M D = some (pentadAt (g % 24) k) := by
  unfold pheno pentadAt
  simp only [h, Series.indexOf, indexOf_72, indexOf_3]
  have e1 : Int.tdiv k 5 = k / 5 := Int.tdiv_eq_ediv_of_nonneg hk
  rw [e1]
  have hr : (0 : Int) ≤ ((g % 24 : Nat) : Int) ∧ ((g % 24 : Nat) : Int) < 24 := by omega
  generalize ((g % 24 : Nat) : Int) = r at *
  by_cases c : k / 5 > 2
  · have c' : ¬ (k / 5 < 2) := by omega
    simp only [c, c', if_true, if_false]
    have e2 : (r * 3 + 2) % 72 = r * 3 + 2 := by omega
    rw [e2]
    have e3 : Int.tmod (r * 3 + 2) 3 = (r * 3 + 2) % 3 := Int.tmod_eq_emod_of_nonneg (by omega)
    rw [e3]
    congr 2
    · omega
    · congr 1 <;> omega
  · simp only [c, if_false]
    have e2 : (r * 3 + k / 5) % 72 = r * 3 + k / 5 := by omega
    rw [e2]
    have e3 : Int.tmod (r * 3 + k / 5) 3 = (r * 3 + k / 5) % 3 := Int.tmod_eq_emod_of_nonneg (by omega)
    rw [e3]
    split
    · congr 2
      · omega
      · congr 1 <;> omega
    · congr 2
      · omega
      · congr 1 <;> omega

/-! ### the commanding stem: packed digit string = classical table -/

/-- the six bytes of the month whose Jie has index r -/
def hideSlice (r : Nat) : List Nat := (hideData.drop ((r - 1) * 3)).take 6

/-- DECODING THE PACKED STRING: for each of the twelve months the loop over the digit string (after the repair of
D21) walks exactly the classical allotment table — for every day index 0 ≤ n < 40 (beyond 40 the loop of a
two-stem month falls through and the code panics; a month never has more than 32 days). -/
theorem hideLoop_eq (r : Nat) (hr : r % 2 = 1 ∧ r < 24) (n : Int) (hn : 0 ≤ n) (hn2 : n < 40) :
    hideLoop (hideSlice r) n 3 0 0 0 = commandAt (allotment r) 0 n := by
  have hc : r = 1 ∨ r = 3 ∨ r = 5 ∨ r = 7 ∨ r = 9 ∨ r = 11 ∨ r = 13 ∨ r = 15 ∨ r = 17 ∨ r = 19 ∨ r = 21 ∨ r = 23 := by omega
  rcases hc with h | h | h | h | h | h | h | h | h | h | h | h <;> subst h
  all_goals simp [hideSlice, hideData, hideLoop, digit, dayCounts, allotment, commandAt]
  all_goals repeat' split
  all_goals first | rfl | omega | (apply congrArg some; apply congrArg (Prod.mk _); apply congrArg (Prod.mk _); omega)

/-- every stem of the classical table is one of the ten, the type is 0/1/2 with 2 = the last entry -/
theorem command_range (r : Nat) (hr : r % 2 = 1 ∧ r < 24) (n : Int) (hn : 0 ≤ n) (s ty di : Int)
    (h : commandAt (allotment r) 0 n = some (s, ty, di)) : 0 ≤ s ∧ s < 10 ∧ 0 ≤ ty ∧ ty ≤ 2 ∧ 0 ≤ di ∧ di ≤ n := by
  have hc : r = 1 ∨ r = 3 ∨ r = 5 ∨ r = 7 ∨ r = 9 ∨ r = 11 ∨ r = 13 ∨ r = 15 ∨ r = 17 ∨ r = 19 ∨ r = 21 ∨ r = 23 := by omega
  rcases hc with h' | h' | h' | h' | h' | h' | h' | h' | h' | h' | h' | h' <;> subst h'
  all_goals simp [allotment, commandAt] at h
  all_goals repeat' split at h
  all_goals (simp only [Option.some.injEq, Prod.mk.injEq] at h; omega)

theorem ofGidx_gidx (g : Nat) : gidx (ofGidx g) = g ∧ (ofGidx g).2 = ((g % 24 : Nat) : Int) ∧ (ofGidx g).1 = ((g / 24 : Nat) : Int) + 1 := by
  unfold gidx ofGidx; dsimp only; omega

/-- get_hide_heaven_stem_day (repaired) = the classical table walked from the Jie on or before the day's term -/
theorem hide_eq (E : Eph) (Y M D : Int) (g : Nat) (k : Int) (h : ofDay E Y M D = some (g, k)) (hg : 2 ≤ g)
    (hq : E.termDay (jieOf g) ≠ 0)
    (hn : 0 ≤ jdn Y M D - E.termDay (jieOf g)) (hn2 : jdn Y M D - E.termDay (jieOf g) < 40) :
    hide E Y M D = commandAt (allotment (jieOf g % 24)) 0 (jdn Y M D - E.termDay (jieOf g)) := by
  obtain ⟨e1, e2, e3⟩ := ofGidx_gidx g
  -- the Jie term t' has global index jieOf g
  have ht' : ∃ t' : Int × Int, (if isQi (ofGidx g) then Term.next (ofGidx g) (-1) else ofGidx g) = t' ∧
      gidx t' = (jieOf g : Nat) ∧ t'.2 = ((jieOf g % 24 : Nat) : Int) := by
    refine ⟨_, rfl, ?_⟩
    unfold isQi jieOf
    rw [e2]
    by_cases hodd : g % 2 = 1
    · have : ¬ ((((g % 24 : Nat) : Int) % 2 == 0) = true) := by simp; omega
      rw [if_neg this, if_pos hodd]
      exact ⟨e1, e2⟩
    · have : ((((g % 24 : Nat) : Int) % 2 == 0) = true) := by simp; omega
      rw [if_pos this, if_neg hodd]
      have hp := C06_next_pos (ofGidx g).1 (ofGidx g).2 (-1) (by omega) (by omega) (by rw [e2, e3]; omega)
      have ee : ((ofGidx g).1, (ofGidx g).2) = ofGidx g := rfl
      rw [ee] at hp
      obtain ⟨p1, p2, p3⟩ := hp
      rw [e1] at p1
      refine ⟨by omega, ?_⟩
      unfold gidx at p1
      omega
  obtain ⟨t', et, eg, e2'⟩ := ht'
  have hrr : jieOf g % 24 % 2 = 1 ∧ jieOf g % 24 < 24 := by unfold jieOf; split <;> omega
  unfold hide
  simp only [h, et]
  have hts : termStart E t' = some (E.termDay (jieOf g)) := by
    unfold termStart
    rw [eg]
    have : ¬ (((jieOf g : Nat) : Int) < 0) := by omega
    rw [if_neg this, Int.toNat_natCast, if_neg hq]
  simp only [hts]
  have c1 : ¬ (jdn Y M D - E.termDay (jieOf g) < 0) := by omega
  have c2 : ¬ (t'.2 - 1 < 0) := by omega
  rw [if_neg c1, if_neg c2]
  have es : ((t'.2 - 1) * 3).toNat = (jieOf g % 24 - 1) * 3 := by omega
  rw [es]
  have hl : hideData.length = 72 := rfl
  have c3 : ¬ ((jieOf g % 24 - 1) * 3 + 6 > hideData.length) := by rw [hl]; omega
  rw [if_neg c3]
  have hle := hideLoop_eq (jieOf g % 24) hrr _ hn hn2
  unfold hideSlice at hle
  rw [hle]
  cases hc : commandAt (allotment (jieOf g % 24)) 0 (jdn Y M D - E.termDay (jieOf g)) with
  | none => rfl
  | some r =>
    obtain ⟨s, ty, di⟩ := r
    obtain ⟨r1, r2, _⟩ := command_range _ hrr _ hn s ty di hc
    dsimp only
    unfold Series.indexOf
    rw [tIndexOf_10]
    have : s % 10 = s := by omega
    rw [this]

/-! ### civil-year arithmetic on day numbers -/

theorem jdn_in_year (Y M D : Int) (hv : Civil.valid Y M D = true) :
    jdn Y 1 1 ≤ jdn Y M D ∧ jdn Y M D ≤ jdn Y 12 1 + 30 := by
  obtain ⟨h1,h2,h3,h4,h5,h6,h7⟩ := (valid_iff Y M D).1 hv
  rw [lastDay_eq] at h6
  have hd31 : D ≤ 31 := by repeat' split at h6 <;> omega
  rw [jdn_nf Y M D, jdn_nf Y 1 1, jdn_nf Y 12 1]
  have c1 : ((1 : Int) ≤ 2) := by decide
  have c2 : ¬ ((12 : Int) ≤ 2) := by decide
  rw [if_pos c1, if_neg c2]
  constructor
  · repeat' split
    all_goals omega
  · repeat' split
    all_goals omega

/-- December 1 of year y−1 is 31 days before January 1 of year y; years are 355..366 days long -/
theorem jdn_dec_jan (y : Int) (h1 : 2 ≤ y) (h2 : y ≤ 9999) :
    jdn y 1 1 = jdn (y - 1) 12 1 + 31 ∧ jdn (y - 1) 12 1 + 355 ≤ jdn y 12 1 ∧ jdn y 12 1 ≤ jdn (y - 1) 12 1 + 366 := by
  rw [jdn_nf y 1 1, jdn_nf (y - 1) 12 1, jdn_nf y 12 1]
  have c1 : ((1 : Int) ≤ 2) := by decide
  have c2 : ¬ ((12 : Int) ≤ 2) := by decide
  rw [if_pos c1, if_neg c2, if_neg c2]
  refine ⟨?_, ?_, ?_⟩
  all_goals repeat' split
  all_goals omega

theorem jdn_dec_range (y : Int) (h1 : 1 ≤ y) (h2 : y ≤ 9999) :
    JFIRST + 334 ≤ jdn y 12 1 ∧ jdn y 12 1 + 30 + 365 * (9999 - y) ≤ JLAST := by
  rw [jdn_nf y 12 1]
  have c2 : ¬ ((12 : Int) ≤ 2) := by decide
  rw [if_neg c2]
  unfold JFIRST JLAST
  constructor
  all_goals repeat' split
  all_goals omega

theorem jdn_jan1_mono (y y' : Int) (h : y ≤ y') : jdn y 1 1 ≤ jdn y' 1 1 := by
  rw [jdn_nf y 1 1, jdn_nf y' 1 1]
  have c1 : ((1 : Int) ≤ 2) := by decide
  rw [if_pos c1, if_pos c1]
  repeat' split
  all_goals omega

/-! ### facts about the extracted term table -/

theorem term_mono (g d : Nat) (h1 : 1 ≤ g) (h2 : g + d ≤ 239977) :
    realEph.termDay g + 14 * d ≤ realEph.termDay (g + d) ∧ realEph.termDay (g + d) ≤ realEph.termDay g + 16 * d := by
  induction d with
  | zero => simp
  | succ d ih =>
    have := ih (by omega)
    have inc := realEph_termInc (g + d) (by omega) (by omega)
    have e : g + (d + 1) = g + d + 1 := by omega
    rw [e]; omega

theorem term_le (g g' : Nat) (h1 : 1 ≤ g) (h : g ≤ g') (h2 : g' ≤ 239977) :
    realEph.termDay g + 14 * ((g' : Int) - g) ≤ realEph.termDay g' ∧ realEph.termDay g' ≤ realEph.termDay g + 16 * ((g' : Int) - g) := by
  have := term_mono g (g' - g) h1 (by omega)
  have e : g + (g' - g) = g' := by omega
  rw [e] at this
  omega

theorem term_ne_zero (g : Nat) (h1 : 1 ≤ g) (h2 : g ≤ 239977) : realEph.termDay g ≠ 0 := fun h => by
  have := (realEph_term_repr g (by omega)).1 h; omega

/-- the term with the given (year, index) pair is entry `g` of the table -/
theorem termStart_real (t : Int × Int) (g : Nat) (hg : gidx t = g) (h1 : 1 ≤ g) (h2 : g ≤ 239977) :
    termStart realEph t = some (realEph.termDay g) := by
  unfold termStart
  rw [hg]
  have : ¬ ((g : Int) < 0) := by omega
  rw [if_neg this, Int.toNat_natCast, if_neg (term_ne_zero g h1 h2)]

theorem fromIndex_eq (Y i : Int) (hY : 0 ≤ Y) (hi : 0 ≤ i ∧ i < 24) : fromIndex Y i = (Y, i) := by
  unfold fromIndex
  rw [C06_indexOf, Int.tdiv_eq_ediv_of_nonneg (by omega)]
  apply Prod.ext <;> (dsimp only; omega)

theorem gidx_fromIndex (Y i : Int) (hY : 1 ≤ Y) (hi : 0 ≤ i ∧ i < 24) :
    gidx (fromIndex Y i) = ((24 * (Y - 1) + i).toNat : Nat) := by
  rw [fromIndex_eq Y i (by omega) hi]; unfold gidx; dsimp only; omega

theorem gidx_next (Y i n : Int) (hY : 1 ≤ Y) (hi : 0 ≤ i ∧ i < 24) (hn : 0 ≤ n) :
    gidx (Term.next (fromIndex Y i) n) = ((24 * (Y - 1) + i + n).toNat : Nat) := by
  rw [fromIndex_eq Y i (by omega) hi]
  have := (C06_next_pos Y i n hi.1 hi.2 (by omega)).1
  rw [this]; unfold gidx; dsimp only; omega

/-- where the solstices lie: W(y) = term 24·(y−1) in December y−1 -/
theorem solstice_bounds (y : Int) (h1 : 2 ≤ y) (h2 : y ≤ 10000) :
    jdn (y - 1) 12 1 ≤ realEph.termDay (24 * (y - 1)).toNat ∧ realEph.termDay (24 * (y - 1)).toNat ≤ jdn (y - 1) 12 1 + 30 := by
  have := realEph_solstice_december (y - 1).toNat (by omega) (by omega)
  have e : (((y - 1).toNat : Nat) : Int) = y - 1 := by omega
  have e2 : (24 * (y - 1)).toNat = 24 * (y - 1).toNat := by omega
  rw [e] at this; rw [e2]; exact this

/-! ### the lunar-route pillar of the anchor days -/

/-- civil year of a day number between January 1 of year a and December 31 of year b -/
theorem year_of_jdn (j a b : Int) (ha : 1 ≤ a) (hab : a ≤ b) (hb : b ≤ 9999) (h1 : jdn a 1 1 ≤ j) (h2 : j ≤ jdn b 12 1 + 30) :
    Civil.validT (ofJdn j) = true ∧ jdnT (ofJdn j) = j ∧ a ≤ (ofJdn j).1 ∧ (ofJdn j).1 ≤ b := by
  have r1 := (jdn_dec_range b (by omega) hb).2
  have f1 : jdnFirst ≤ j := by
    have := jdn_jan1_mono 1 a ha
    have e : jdn 1 1 1 = jdnFirst := jdn_first
    omega
  have f2 : j ≤ jdnLast := by unfold jdnLast; unfold JLAST at r1; omega
  obtain ⟨v, e⟩ := C01_jdn_ofJdn j f1 f2
  refine ⟨v, e, ?_, ?_⟩
  · by_cases c : (ofJdn j).1 < a
    · exfalso
      have vv : Civil.valid (ofJdn j).1 (ofJdn j).2.1 (ofJdn j).2.2 = true := v
      obtain ⟨y1, y2⟩ := jdn_in_year _ _ _ vv
      obtain ⟨q1, _, _, _, _, _, _⟩ := (valid_iff _ _ _).1 vv
      have d := (jdn_dec_jan ((ofJdn j).1 + 1) (by omega) (by omega)).1
      have e' : (ofJdn j).1 + 1 - 1 = (ofJdn j).1 := by omega
      rw [e'] at d
      have m := jdn_jan1_mono ((ofJdn j).1 + 1) a (by omega)
      have ej : jdn (ofJdn j).1 (ofJdn j).2.1 (ofJdn j).2.2 = j := e
      omega
    · omega
  · by_cases c : b < (ofJdn j).1
    · exfalso
      have vv : Civil.valid (ofJdn j).1 (ofJdn j).2.1 (ofJdn j).2.2 = true := v
      obtain ⟨y1, y2⟩ := jdn_in_year _ _ _ vv
      obtain ⟨_, q2, _, _, _, _, _⟩ := (valid_iff _ _ _).1 vv
      have hb1 : 1 ≤ b := by omega
      have d := (jdn_dec_jan (b + 1) (by omega) (by omega)).1
      have e' : b + 1 - 1 = b := by omega
      rw [e'] at d
      have m := jdn_jan1_mono (b + 1) (ofJdn j).1 (by omega)
      have ej : jdn (ofJdn j).1 (ofJdn j).2.1 (ofJdn j).2.2 = j := e
      omega
    · omega

/-- the lunar-route pillar of a civil day inside a tiling interval is (day number + 49) mod 60 (C07), whenever the
lunar conversion of the day is accepted -/
theorem pillarOf_spec (E : Eph) (hl : ∀ y, E.leap y ≤ 12) (a b : Int) (ht : TilesOn E a b) (j : Int)
    (c : Int) (hc : 1 ≤ c ∧ c ≤ 9999) (hac : a ≤ c ∧ c ≤ b) (h1 : jdn c 1 1 ≤ j) (h2 : j ≤ jdn c 12 1 + 30)
    (hlo : first E ⟨a, 0⟩ ≤ j) (hhi : j < first E ⟨b + 1, 0⟩) (p : Int) (h : pillarOf E j = some p) :
    p = (j + 49) % 60 := by
  obtain ⟨v, e, ya, yb⟩ := year_of_jdn j c c hc.1 (Int.le_refl _) hc.2 h1 h2
  unfold pillarOf at h
  cases hs : ofSolar E (ofJdn j).1 (ofJdn j).2.1 (ofJdn j).2.2 with
  | none => rw [hs] at h; simp at h
  | some r =>
    rw [hs] at h
    have ej : jdn (ofJdn j).1 (ofJdn j).2.1 (ofJdn j).2.2 = j := e
    have := C07_pillar E hl a b ht _ _ _ (by omega) (by omega) (by rw [ej]; exact hlo) (by rw [ej]; exact hhi) r hs
    obtain ⟨x, k⟩ := r
    dsimp only at h this
    rw [this, ej] at h
    simp only [Option.some.injEq] at h
    exact h.symm

/-- where the term of index i (11..13) of civil year Y lies: inside civil year Y -/
theorem anchor_in_year (Y : Int) (h1 : 2 ≤ Y) (h2 : Y ≤ 9998) (i : Int) (hi : 3 ≤ i ∧ i ≤ 21) :
    jdn Y 1 1 ≤ realEph.termDay (24 * (Y - 1) + i).toNat ∧ realEph.termDay (24 * (Y - 1) + i).toNat ≤ jdn Y 12 1 + 30 ∧
    realEph.termDay (24 * (Y - 1)).toNat + 14 * i ≤ realEph.termDay (24 * (Y - 1) + i).toNat ∧
    realEph.termDay (24 * (Y - 1) + i).toNat ≤ realEph.termDay (24 * (Y - 1)).toNat + 16 * i ∧
    realEph.termDay (24 * (Y - 1) + i).toNat + 14 * (24 - i) ≤ realEph.termDay (24 * Y).toNat := by
  have sa := solstice_bounds Y h1 (by omega)
  have sb := solstice_bounds (Y + 1) (by omega) (by omega)
  have e1 : Y + 1 - 1 = Y := by omega
  rw [e1] at sb
  obtain ⟨d1, d2, d3⟩ := jdn_dec_jan Y h1 (by omega)
  have m1 := term_le (24 * (Y - 1)).toNat (24 * (Y - 1) + i).toNat (by omega) (by omega) (by omega)
  have m2 := term_le (24 * (Y - 1) + i).toNat (24 * Y).toNat (by omega) (by omega) (by omega)
  have c1 : (((24 * (Y - 1) + i).toNat : Nat) : Int) - ((24 * (Y - 1)).toNat : Nat) = i := by omega
  have c2 : (((24 * Y).toNat : Nat) : Int) - ((24 * (Y - 1) + i).toNat : Nat) = 24 - i := by omega
  rw [c1] at m1; rw [c2] at m2
  omega

theorem pillar_interval (a b lo : Int) (hlo : 2 ≤ lo) (hal : a ≤ lo) (hb : b ≤ 9998) (ht : TilesOn realEph a b)
    (F1 : realEph.mFirst a 0 ≤ realEph.termDay (24 * (lo - 1) + 11).toNat)
    (F2 : realEph.termDay (24 * (b - 1) + 13).toNat < realEph.mFirst (b + 1) 0)
    (Y : Int) (h1 : lo ≤ Y) (h2 : Y ≤ b) (i : Int) (hi : 11 ≤ i ∧ i ≤ 13) (p : Int)
    (h : pillarOf realEph (realEph.termDay (24 * (Y - 1) + i).toNat) = some p) :
    p = (realEph.termDay (24 * (Y - 1) + i).toNat + 49) % 60 := by
  obtain ⟨y1, y2, _⟩ := anchor_in_year Y (by omega) (by omega) i (by omega)
  have m1 := term_le (24 * (lo - 1) + 11).toNat (24 * (Y - 1) + i).toNat (by omega) (by omega) (by omega)
  have m2 := term_le (24 * (Y - 1) + i).toNat (24 * (b - 1) + 13).toNat (by omega) (by omega) (by omega)
  exact pillarOf_spec realEph realEph_leap_le a b ht _ Y (by omega) (by omega) y1 y2
    (by show realEph.mFirst a 0 ≤ _; omega) (by show _ < realEph.mFirst (b + 1) 0; omega) p h

theorem tiles_sub (a b : Nat) (hb : b ≤ 9998) (hgood : ∀ n, a ≤ n → n ≤ b → badYear n = false) :
    TilesOn realEph (a : Int) (b : Int) := C02_tilesOn_real a b hb hgood

/-- the Grain-in-Ear, summer-solstice and Slight-Heat days (i = 11, 12, 13) of every civil year 2..9998: whenever
their lunar conversion is accepted, the lunar-route pillar is (day number + 49) mod 60 -/
theorem pillar_real (Y : Int) (h1 : 2 ≤ Y) (h2 : Y ≤ 9998) (i : Int) (hi : 11 ≤ i ∧ i ≤ 13) (p : Int)
    (h : pillarOf realEph (realEph.termDay (24 * (Y - 1) + i).toNat) = some p) :
    p = (realEph.termDay (24 * (Y - 1) + i).toNat + 49) % 60 := by
  obtain ⟨f1, f2, f3, f4, f5, f6, f7, f8, f9, f10⟩ := c15_interval_facts
  have bad : ∀ n : Nat, ∀ a b : Nat, (∀ k, a ≤ k → k ≤ b → ¬ (k = 8 ∨ k = 23 ∨ k = 24 ∨ k = 236 ∨ k = 239)) → a ≤ n → n ≤ b → badYear n = false := by
    intro n a b hk ha hb
    have := hk n ha hb
    simp only [badYear, Bool.or_eq_false_iff, beq_eq_false_iff_ne, ne_eq]; omega
  by_cases c1 : Y ≤ 7
  · exact pillar_interval 1 7 2 (by omega) (by omega) (by omega) (tiles_sub 1 7 (by omega) (bad · 1 7 (by omega))) f1 f2 Y h1 c1 i hi p h
  by_cases c2 : 9 ≤ Y ∧ Y ≤ 22
  · exact pillar_interval 9 22 9 (by omega) (by omega) (by omega) (tiles_sub 9 22 (by omega) (bad · 9 22 (by omega))) f3 f4 Y c2.1 c2.2 i hi p h
  by_cases c3 : 25 ≤ Y ∧ Y ≤ 235
  · exact pillar_interval 25 235 25 (by omega) (by omega) (by omega) (tiles_sub 25 235 (by omega) (bad · 25 235 (by omega))) f5 f6 Y c3.1 c3.2 i hi p h
  by_cases c4 : 237 ≤ Y ∧ Y ≤ 238
  · exact pillar_interval 237 238 237 (by omega) (by omega) (by omega) (tiles_sub 237 238 (by omega) (bad · 237 238 (by omega))) f7 f8 Y c4.1 c4.2 i hi p h
  by_cases c5 : 240 ≤ Y
  · exact pillar_interval 240 9998 240 (by omega) (by omega) (by omega) (tiles_sub 240 9998 (by omega) (bad · 240 9998 (by omega))) f9 f10 Y c5 h2 i hi p h
  -- the five junction years: computed
  obtain ⟨b1, b2, b3, b4, b5, b6, b7, b8, b9, b10, b11, b12, b13, b14, b15⟩ := c15_bad_year_pillars
  have hY : Y = 8 ∨ Y = 23 ∨ Y = 24 ∨ Y = 236 ∨ Y = 239 := by omega
  have hI : i = 11 ∨ i = 12 ∨ i = 13 := by omega
  have use : ∀ g : Nat, pillarOK g = true → (24 * (Y - 1) + i).toNat = g → p = (realEph.termDay (24 * (Y - 1) + i).toNat + 49) % 60 := by
    intro g hg e
    rw [e] at h ⊢
    unfold pillarOK at hg
    rw [h] at hg
    simpa using hg
  rcases hY with e | e | e | e | e <;> rcases hI with e' | e' | e' <;> subst e <;> subst e'
  · exact use 179 b1 (by decide)
  · exact use 180 b2 (by decide)
  · exact use 181 b3 (by decide)
  · exact use 539 b4 (by decide)
  · exact use 540 b5 (by decide)
  · exact use 541 b6 (by decide)
  · exact use 563 b7 (by decide)
  · exact use 564 b8 (by decide)
  · exact use 565 b9 (by decide)
  · exact use 5651 b10 (by decide)
  · exact use 5652 b11 (by decide)
  · exact use 5653 b12 (by decide)
  · exact use 5723 b13 (by decide)
  · exact use 5724 b14 (by decide)
  · exact use 5725 b15 (by decide)

/-! ### spec functions: where they are none; function form ⇔ relational form -/

theorem dogAt_none (s l j : Int) (h : j < s + 20 ∨ s + 69 ≤ j) : dogAt s l j = none := by
  unfold dogAt
  simp only [nthFrom_geng, show ((2:Nat):Int) = 2 from rfl, show ((4:Nat):Int) = 4 from rfl]
  have : 0 ≤ (6 - stemOf s) % 10 ∧ (6 - stemOf s) % 10 < 10 := by omega
  generalize (6 - stemOf s) % 10 = d at *
  repeat' split
  all_goals first | rfl | omega

theorem plumAt_none (m h j : Int) (hc : j < m ∨ h + 11 < j) : plumAt m h j = none := by
  unfold plumAt
  simp only [firstFrom_bing, firstFrom_wei]
  have : 0 ≤ (2 - stemOf m) % 10 ∧ (2 - stemOf m) % 10 < 10 := by omega
  have : 0 ≤ (7 - branchOf h) % 12 ∧ (7 - branchOf h) % 12 < 12 := by omega
  generalize (2 - stemOf m) % 10 = d at *
  generalize (7 - branchOf h) % 12 = e at *
  repeat' split
  all_goals first | rfl | omega

/-- function form ⇔ relational form -/
theorem dogAt_iff (s l j k i : Int) : dogAt s l j = some (k, i) ↔ IsDogOf s l j k i := by
  unfold dogAt IsDogOf
  simp only [nthFrom_geng, isNth_geng_iff, show ((2:Nat):Int) = 2 from rfl, show ((4:Nat):Int) = 4 from rfl]
  have hd : 0 ≤ (6 - stemOf s) % 10 ∧ (6 - stemOf s) % 10 < 10 := by omega
  generalize (6 - stemOf s) % 10 = d at *
  constructor
  · intro h
    refine ⟨_, _, rfl, rfl, ?_⟩
    repeat' split at h
    all_goals simp only [Option.some.injEq, Prod.mk.injEq, reduceCtorEq] at h
    all_goals omega
  · rintro ⟨g3, g5, e3, e5, hi, hc⟩
    subst e3; subst e5
    repeat' split
    all_goals first | omega | (simp only [Option.some.injEq, Prod.mk.injEq]; omega)

theorem plumAt_iff (m h j k i : Int) (hmh : m + 9 ≤ h) : plumAt m h j = some (k, i) ↔ IsPlumOf m h j k i := by
  unfold plumAt IsPlumOf isBing isWei
  have hb := isFirst_stem_iff 2 (by omega) m
  have hw := isFirst_branch_iff 7 (by omega) h
  have fb := firstFrom_bing m
  have fw := firstFrom_wei h
  unfold isBing at fb; unfold isWei at fw
  simp only [fb, fw, hb, hw]
  have hd : 0 ≤ (2 - stemOf m) % 10 ∧ (2 - stemOf m) % 10 < 10 := by omega
  have he : 0 ≤ (7 - branchOf h) % 12 ∧ (7 - branchOf h) % 12 < 12 := by omega
  generalize (2 - stemOf m) % 10 = d at *
  generalize (7 - branchOf h) % 12 = e at *
  constructor
  · intro hh
    refine ⟨_, _, rfl, rfl, ?_⟩
    repeat' split at hh
    all_goals simp only [Option.some.injEq, Prod.mk.injEq, reduceCtorEq] at hh
    all_goals omega
  · rintro ⟨a, b, ea, eb, hc⟩
    subst ea; subst eb
    repeat' split
    all_goals first | omega | (simp only [Option.some.injEq, Prod.mk.injEq]; omega)


theorem commandAt_commands : ∀ (L : List (Int × Int)) (pos n s ty d : Int), 0 ≤ n →
    commandAt L pos n = some (s, ty, d) →
    ∃ pre c post, L = pre ++ (s, c) :: post ∧ d = n - total pre ∧ 0 ≤ d ∧
      ((post = [] ∧ ty = 2) ∨ (post ≠ [] ∧ ty = pos + pre.length ∧ d < c)) := by
  intro L
  induction L with
  | nil => intro pos n s ty d _ h; simp [commandAt] at h
  | cons e rest ih =>
    intro pos n s ty d hn h
    obtain ⟨s0, c0⟩ := e
    simp only [commandAt] at h
    split at h
    · rename_i hemp
      simp only [Option.some.injEq, Prod.mk.injEq] at h
      obtain ⟨rfl, rfl, rfl⟩ := h
      have : rest = [] := by simpa using hemp
      subst this
      exact ⟨[], c0, [], rfl, by simp [total], hn, Or.inl ⟨rfl, rfl⟩⟩
    · rename_i hemp
      split at h
      · rename_i hlt
        simp only [Option.some.injEq, Prod.mk.injEq] at h
        obtain ⟨rfl, rfl, rfl⟩ := h
        refine ⟨[], c0, rest, rfl, by simp [total], hn, Or.inr ⟨?_, by simp, hlt⟩⟩
        intro e; subst e; simp at hemp
      · rename_i hge
        obtain ⟨pre, c, post, e1, e2, e3, e4⟩ := ih (pos + 1) (n - c0) s ty d (by omega) h
        refine ⟨(s0, c0) :: pre, c, post, by rw [e1]; rfl, by simp only [total]; omega, e3, ?_⟩
        rcases e4 with ⟨p1, p2⟩ | ⟨p1, p2, p3⟩
        · exact Or.inl ⟨p1, p2⟩
        · refine Or.inr ⟨p1, ?_, p3⟩
          simp only [List.length_cons]; omega

theorem pentadAt_iff (r : Nat) (n p q d : Int) (hn : 0 ≤ n) : pentadAt r n = (p, q, d) ↔ InPentad r n p q d := by
  unfold pentadAt InPentad
  simp only [Prod.mk.injEq]
  constructor
  · rintro ⟨e1, e2, e3⟩
    split at e2 <;> omega
  · rintro ⟨e1, e2, e3⟩
    split <;> omega


theorem total_nonneg : ∀ (L : List (Int × Int)), (∀ e ∈ L, 0 < e.2) → 0 ≤ total L := by
  intro L
  induction L with
  | nil => intro _; simp [total]
  | cons e r ih =>
    intro h
    have h1 := h e (by simp)
    have h2 := ih (fun x hx => h x (by simp [hx]))
    simp only [total]; omega

theorem commands_commandAt : ∀ (pre : List (Int × Int)) (c : Int) (post : List (Int × Int)) (pos n s ty d : Int),
    (∀ e ∈ pre, 0 < e.2) → d = n - total pre → 0 ≤ d →
    ((post = [] ∧ ty = 2) ∨ (post ≠ [] ∧ ty = pos + pre.length ∧ d < c)) →
    commandAt (pre ++ (s, c) :: post) pos n = some (s, ty, d) := by
  intro pre
  induction pre with
  | nil =>
    intro c post pos n s ty d _ e1 e2 e3
    simp only [total] at e1
    simp only [List.nil_append, commandAt]
    rcases e3 with ⟨p1, p2⟩ | ⟨p1, p2, p3⟩
    · subst p1; subst p2; simp [e1]
    · have : post.isEmpty = false := by cases post <;> simp_all
      simp only [List.length_nil] at p2
      rw [this]
      have hlt : n < c := by omega
      simp [hlt, e1, p2]
  | cons e pre ih =>
    intro c post pos n s ty d hp e1 e2 e3
    obtain ⟨s0, c0⟩ := e
    have hpos := hp (s0, c0) (by simp)
    have hp' : ∀ e ∈ pre, 0 < e.2 := fun x hx => hp x (by simp [hx])
    have ht := total_nonneg pre hp'
    simp only [total] at e1
    simp only [List.cons_append, commandAt]
    have : (pre ++ (s, c) :: post).isEmpty = false := by cases pre <;> simp
    rw [this]
    have hge : ¬ (n < c0) := by dsimp only at hpos; omega
    simp only [Bool.false_eq_true, if_false, hge]
    apply ih c post (pos + 1) (n - c0) s ty d hp' (by omega) e2
    rcases e3 with ⟨p1, p2⟩ | ⟨p1, p2, p3⟩
    · exact Or.inl ⟨p1, p2⟩
    · refine Or.inr ⟨p1, ?_, p3⟩
      simp only [List.length_cons] at p2; omega

/-! ### get_term_day is total on 2..9998 -/

/-- the backward walk of get_term_day ends within its fuel when a term `lo` at most fuel−1 places back starts on or
before the day (and the terms in between are representable) -/
theorem backT_total (E : Eph) : ∀ (f g : Nat) (j : Int) (lo : Nat), lo ≤ g → g - lo < f → E.termDay lo ≤ j →
    (∀ x, lo ≤ x → x ≤ g → E.termDay x ≠ 0) → ∃ r, backT E f g j = some r ∧ lo ≤ r ∧ r ≤ g := by
  intro f
  induction f with
  | zero => intro g j lo _ h; omega
  | succ f ih =>
    intro g j lo h1 h2 h3 h4
    simp only [backT]
    rw [if_neg (h4 g h1 (Nat.le_refl _))]
    by_cases c : j < E.termDay g
    · rw [if_pos c]
      have hne : g ≠ lo := fun e => by subst e; omega
      have hg0 : ¬ (g = 0) := by omega
      rw [if_neg hg0]
      obtain ⟨r, e, r1, r2⟩ := ih (g - 1) j lo (by omega) (by omega) h3 (fun x a b => h4 x a (by omega))
      exact ⟨r, e, r1, by omega⟩
    · rw [if_neg c]
      exact ⟨g, rfl, h1, Nat.le_refl _⟩

/-- the forward walk ends within its fuel when a term `hi + 1` at most fuel places ahead starts after the day -/
theorem fwdT_total (E : Eph) : ∀ (f g : Nat) (j : Int) (hi : Nat), g ≤ hi → hi - g < f → j < E.termDay (hi + 1) →
    (∀ x, g + 1 ≤ x → x ≤ hi + 1 → E.termDay x ≠ 0) → ∃ r, fwdT E f g j = some r ∧ g ≤ r ∧ r ≤ hi := by
  intro f
  induction f with
  | zero => intro g j hi _ h; omega
  | succ f ih =>
    intro g j hi h1 h2 h3 h4
    simp only [fwdT]
    rw [if_neg (h4 (g + 1) (Nat.le_refl _) (by omega))]
    by_cases c : j < E.termDay (g + 1)
    · rw [if_pos c]
      exact ⟨g, rfl, Nat.le_refl _, h1⟩
    · rw [if_neg c]
      have hne : g ≠ hi := fun e => by subst e; omega
      obtain ⟨r, e, r1, r2⟩ := ih (g + 1) j hi (by omega) (by omega) h3 (fun x a b => h4 x (by omega) b)
      exact ⟨r, e, by omega, r2⟩

/-- get_term_day is never refused on a civil date of the years 2..9998 (the guess 2·month is at most 24 places
after the preceding winter solstice and the walk has fuel 30) -/
theorem ofDay_total (Y M D : Int) (hv : Civil.valid Y M D = true) (h1 : 2 ≤ Y) (h2 : Y ≤ 9998) :
    ∃ g k, ofDay realEph Y M D = some (g, k) := by
  obtain ⟨_, _, m1, m2, _, _, _⟩ := (valid_iff Y M D).1 hv
  obtain ⟨y1, y2⟩ := jdn_in_year Y M D hv
  have sa := solstice_bounds Y h1 (by omega)
  have sb := solstice_bounds (Y + 1) (by omega) (by omega)
  have e1 : Y + 1 - 1 = Y := by omega
  rw [e1] at sb
  obtain ⟨d1, d2, d3⟩ := jdn_dec_jan Y h1 (by omega)
  unfold ofDay
  have c0 : ¬ (24 * (Y - 1) + 2 * M < 0) := by omega
  simp only [c0, if_false]
  obtain ⟨g1, e, r1, r2⟩ := backT_total realEph FUEL (24 * (Y - 1) + 2 * M).toNat (jdn Y M D) (24 * (Y - 1)).toNat
    (by omega) (by unfold FUEL; omega) (by omega) (fun x a b => term_ne_zero x (by omega) (by omega))
  rw [e]
  have m3 := (term_le (24 * Y).toNat ((24 * Y).toNat + 2 + 1) (by omega) (by omega) (by omega)).1
  obtain ⟨g2, e', _, _⟩ := fwdT_total realEph FUEL g1 (jdn Y M D) ((24 * Y).toNat + 2)
    (by omega) (by unfold FUEL; omega) (by omega) (fun x a b => term_ne_zero x (by omega) (by omega))
  simp only [e']
  exact ⟨_, _, rfl⟩

end Tyme
