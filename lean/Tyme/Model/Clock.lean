import Tyme.Model.Jd
import Tyme.Spec.Clock
/-
Model of `SolarTime` (src/tyme/solar.rs: new / next / subtract / is_before / is_after) and of
`JulianDay::get_solar_time` (src/tyme/jd.rs) AFTER the two repairs fixes/C12-jd-carry.diff and
fixes/C12-jd-half.diff. Integers are unbounded; Rust `/`, `%` on isize are `Int.tdiv`, `Int.tmod`.
Only the data type `Time` is taken from Spec/Clock.lean. No other imports (linked into the driver).
-/
namespace Tyme

/-- `SolarTime::new` acceptance: hour ≤ 23, minute ≤ 59, second ≤ 59 (usize: a negative value cannot be
passed at all) and `SolarDay::from_ymd` does not panic. -/
def timeOk (y m d h mi s : Int) : Bool :=
  decide (0 ≤ h ∧ h ≤ 23) && decide (0 ≤ mi ∧ mi ≤ 59) && decide (0 ≤ s ∧ s ≤ 59) && solarDayOk y m d

/-- `SolarTime::from_ymd_hms` as a partial function (`none` = Err/panic). -/
def mkTime? (r : Int × Int × Int) (h mi s : Int) : Option Time :=
  if timeOk r.1 r.2.1 r.2.2 h mi s then some ⟨r, h, mi, s⟩ else none

namespace Clock

/-- the three trunc-and-repair carries of `SolarTime::next` (solar.rs:1399-1417), literally:
`ts = sec + n; tm = min + ts / 60; ts %= 60; if ts < 0 { ts += 60; tm -= 1 }` … returns (td, th, tm, ts). -/
def carry (sec min hour n : Int) : Int × Int × Int × Int :=
  let ts0 := sec + n
  let p1 := if Int.tmod ts0 60 < 0 then (Int.tmod ts0 60 + 60, Int.tdiv ts0 60 - 1) else (Int.tmod ts0 60, Int.tdiv ts0 60)
  let tm0 := min + p1.2
  let p2 := if Int.tmod tm0 60 < 0 then (Int.tmod tm0 60 + 60, Int.tdiv tm0 60 - 1) else (Int.tmod tm0 60, Int.tdiv tm0 60)
  let th0 := hour + p2.2
  let p3 := if Int.tmod th0 24 < 0 then (Int.tmod th0 24 + 24, Int.tdiv th0 24 - 1) else (Int.tmod th0 24, Int.tdiv th0 24)
  (p3.2, p3.1, p2.1, p1.1)

end Clock

/-- `SolarTime::next(n)`: `n == 0` returns the instant itself; otherwise carry, step the day by `td`
(`SolarDay::next`, refused when it leaves 0001..9999) and rebuild with `from_ymd_hms`. -/
def timeNext (t : Time) (n : Int) : Option Time :=
  if n = 0 then some t
  else
    let c := Clock.carry t.s t.mi t.h n
    (dayNext t.day c.1).bind fun d => mkTime? d c.2.1 c.2.2.1 c.2.2.2

/-- `SolarTime::subtract` (solar.rs:1578-1589) -/
def timeSub (a b : Time) : Int :=
  let days := daySub a.day b.day
  let cs := a.h * 3600 + a.mi * 60 + a.s
  let ts := b.h * 3600 + b.mi * 60 + b.s
  let seconds := cs - ts
  if seconds < 0 then (seconds + 86400) + (days - 1) * 86400 else seconds + days * 86400

/-- `SolarTime::is_before` -/
def timeBefore (a b : Time) : Bool :=
  if a.day != b.day then dayBefore a.day b.day
  else if a.h != b.h then decide (a.h < b.h)
  else if a.mi != b.mi then decide (a.mi < b.mi) else decide (a.s < b.s)

/-- `SolarTime::is_after` -/
def timeAfter (a b : Time) : Bool :=
  if a.day != b.day then dayAfter a.day b.day
  else if a.h != b.h then decide (a.h > b.h)
  else if a.mi != b.mi then decide (a.mi > b.mi) else decide (a.s > b.s)

/-- position on the seconds line: 86400 · (noon-based day number) + seconds of the day -/
def secs (t : Time) : Int := 86400 * jdn t.day.1 t.day.2.1 t.day.2.2 + 3600 * t.h + 60 * t.mi + t.s

/-- exact Julian date of an instant as a fraction `jdNum t / 172800`
(= day number − ½ + seconds-of-day / 86400): what `from_ymd_hms` computes up to f64 rounding. -/
def jdNum (t : Time) : Int := 2 * secs t - 86400
def jdDen : Int := 172800

/-- position on the `secs` line of the whole second nearest to the Julian date `p / q` (q > 0), a tie going
to the later second: ⌊86400·(p/q + ½) + ½⌋ -/
def jdSecs (p q : Int) : Int := (86400 * (2 * p + q) + q) / (2 * q)

/-- First part of the repaired `JulianDay::get_solar_time` on the Julian date `p / q` (q > 0; the harness
passes the f64's exact value, q = 2^k): day number `n` and hour, minute, second after the second→minute and
minute→hour carries. With `Q = 2q` the f64 `f` is the exact fraction `g / Q` throughout
(for |JD| ≥ 512 every f64 step below is exact, so this is what the code computes bit for bit):
  w = day.floor(); d = w; f = day − w + 0.5; if f ≥ 1 { f −= 1; d += 1 }
  f *= 24; hour = f as isize; f −= hour; f *= 60; minute = f as isize; f −= minute; f *= 60;
  second = f.round()  (f = g2·60/Q ≥ 0, so round-half-away = ⌊f + ½⌋ = ⌊(60·g2 + q)/Q⌋; `as isize` of f ≥ 0 is ⌊f⌋)
  if second > 59 { second −= 60; minute += 1 }   if minute > 59 { minute −= 60; hour += 1 } -/
def jdClock (p q : Int) : Int × Int × Int × Int :=
  let w := p / q
  let g0 := 2 * (p % q) + q
  let Q := 2 * q
  let d := if g0 ≥ Q then w + 1 else w
  let g := if g0 ≥ Q then g0 - Q else g0
  let hour0 := (24 * g) / Q
  let g1 := 24 * g - Q * hour0
  let min0 := (60 * g1) / Q
  let g2 := 60 * g1 - Q * min0
  let sec0 := (60 * g2 + q) / Q
  let second := if sec0 > 59 then sec0 - 60 else sec0
  let min1 := if sec0 > 59 then min0 + 1 else min0
  let minute := if min1 > 59 then min1 - 60 else min1
  let hour := if min1 > 59 then hour0 + 1 else hour0
  (d, hour, minute, second)

/-- Repaired `JulianDay::get_solar_time`: when the rounded time is 24:00:00 the code returns
`from_julian_day((n + 1) − 0.5).get_solar_time()` (one level of that recursion is unfolded here; the inner
call is on an exact midnight and never carries, lemma `jdClock_midnight`); otherwise the calendar date of day
number `n` (`ofJdn`, the C01 model) with the clock fields, through `SolarTime::from_ymd_hms`. -/
def ofJD (p q : Int) : Option Time :=
  let c := jdClock p q
  if c.2.1 > 23 then
    let c' := jdClock (2 * (c.1 + 1) - 1) 2
    mkTime? (ofJdn c'.1) c'.2.1 c'.2.2.1 c'.2.2.2
  else mkTime? (ofJdn c.1) c.2.1 c.2.2.1 c.2.2.2

end Tyme
