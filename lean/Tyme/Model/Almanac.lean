/-
Model of the almanac look-ups of src/tyme/culture/mod.rs (C18):

  God::get_day_gods            regex `;HH(.[^;]*)` on DAY_GODS[(month branch − 2) mod 12], hex pairs → God::from_index
  Taboo::get_taboos            DATA[sup].split(";")[sub].split(",")[idx], hex pairs → Taboo::from_index
  God::get_luck                index < 60
  KitchenGodSteed              NUMBERS[LoopTyme::steps_to(n)] of the stem / branch of the New Year day pillar
  AbstractCulture::index_of    the wrap used by every from_index

Strings are byte lists (`List Nat`, UTF-8): string literals do not reduce in the Lean kernel. A panic
(`unwrap` on a parse error, slice/array index out of range) is `none`.
The regex look-up is a leftmost byte scan with the same semantics (unanchored leftmost match, `.` = any
character but `\n`, `[^;]*` greedy), so a misaligned match is visible in the model.
No imports: this file is linked into the correspondence driver.
-/
namespace Tyme.Almanac

/-! ### byte tables -/

/-- the `len` low bytes of `n`, least significant first (generated tables store each string as `(len, n)`) -/
def unpack : Nat → Nat → List Nat
  | 0, _ => []
  | k + 1, n => (n % 256) :: unpack k (n / 256)

def bytesOf (p : Nat × Nat) : List Nat := unpack p.1 p.2

/-- sequence of `cnt` byte lists stored as `len, b₁ … b_len`; `len = 255` marks "the call was refused" -/
def unpackLists : Nat → List Nat → List (Option (List Nat))
  | 0, _ => []
  | _ + 1, [] => []
  | k + 1, n :: r => if n == 255 then none :: unpackLists k r else some (r.take n) :: unpackLists k (r.drop n)

/-- consecutive records of `w` bytes -/
def chunksOf (w : Nat) : Nat → List Nat → List (List Nat)
  | 0, _ => []
  | k + 1, l => l.take w :: chunksOf w k (l.drop w)

/-! ### integers -/

/-- `AbstractCulture::index_of(index, size)`: Rust `%` truncates, a negative remainder is repaired -/
def indexOf (index : Int) (size : Nat) : Nat :=
  let n : Int := size
  let i := Int.tmod index n
  (if i < 0 then i + n else i).toNat

/-- `LoopTyme::steps_to(target)` of an element at `index` in a list of `size` names -/
def stepsTo (index size : Nat) (target : Int) : Nat := indexOf (target - index) size

/-! ### hex -/

/-- `char::to_digit(16)` on one byte -/
def hexDigit (c : Nat) : Option Nat :=
  if 48 ≤ c ∧ c ≤ 57 then some (c - 48)
  else if 65 ≤ c ∧ c ≤ 70 then some (c - 55)
  else if 97 ≤ c ∧ c ≤ 102 then some (c - 87)
  else none

/-- `isize::from_str_radix(s, 16)` for a two-byte `s` (a leading `+` or `-` is accepted by Rust) -/
def parse2 (a b : Nat) : Option Int :=
  if a == 43 then (hexDigit b).map fun v => Int.ofNat v
  else if a == 45 then (hexDigit b).map fun v => - Int.ofNat v
  else
    match hexDigit a, hexDigit b with
    | some x, some y => some (Int.ofNat (16 * x + y))
    | _, _ => none

/-- `for i in (0..s.len()).step_by(2) { from_str_radix(&s[i..i + 2], 16).unwrap() }`:
`none` = panic (odd length ⇒ slice out of range; a pair that does not parse ⇒ `unwrap` on `Err`) -/
def hexPairs : List Nat → Option (List Int)
  | [] => some []
  | [_] => none
  | a :: b :: r =>
    match parse2 a b, hexPairs r with
    | some v, some t => some (v :: t)
    | _, _ => none

/-- upper-case hex digit character of `v < 16` -/
def hexChar (v : Nat) : Nat := if v < 10 then 48 + v else 55 + v

/-- `format!("{:02X}", d)` for `d < 256` -/
def hex2 (d : Nat) : Nat × Nat := (hexChar (d / 16), hexChar (d % 16))

/-! ### record look-up -/

/-- `[^;]*` : the maximal prefix without `;` -/
def takeField : List Nat → List Nat
  | [] => []
  | c :: r => if c == 59 then [] else c :: takeField r

/-- does `H₁H₂.[^;]*` match right after a `;`? Returns group 1 = the `.` character and the following `[^;]*`.
`.` is any character except `\n` (10) — in particular it may be a `;`. -/
def matchHere (h1 h2 : Nat) : List Nat → Option (List Nat)
  | a :: b :: x :: t => if a == h1 && b == h2 && x != 10 then some (x :: takeField t) else none
  | _ => none

/-- group 1 of the leftmost match of `;H₁H₂(.[^;]*)` (`regex::Regex::captures`), `none` = no match:
try every position from the left; a match starts at a `;`. -/
def findRecord (h1 h2 : Nat) : List Nat → Option (List Nat)
  | [] => none
  | c :: r =>
    if c == 59 then
      match matchHere h1 h2 r with
      | some g => some g
      | none => findRecord h1 h2 r
    else findRecord h1 h2 r

/-- `str::split(sep)` for a one-byte separator: always at least one piece -/
def splitOn (sep : Nat) : List Nat → List (List Nat)
  | [] => [[]]
  | c :: r =>
    match splitOn sep r with
    | [] => [[]]
    | h :: t => if c == sep then [] :: h :: t else (c :: h) :: t

/-! ### the look-ups -/

/-- `month.get_earth_branch().next(-2).get_index()` -/
def godTableIndex (monthBranch : Nat) : Nat := indexOf ((monthBranch : Int) - 2) 12

/-- the record text `God::get_day_gods` decodes: `none` = table index out of range (cannot happen for 12 strings),
`some none` = the pattern does not match (the API then returns an empty list) -/
def godRecord (tbl : List (List Nat)) (monthBranch day : Nat) : Option (Option (List Nat)) :=
  match tbl[godTableIndex monthBranch]? with
  | none => none
  | some s => some (findRecord (hex2 day).1 (hex2 day).2 s)

/-- the integers handed to `God::from_index` by `God::get_day_gods(month, day)`; `none` = panic -/
def dayGodsRaw (tbl : List (List Nat)) (monthBranch day : Nat) : Option (List Int) :=
  match godRecord tbl monthBranch day with
  | none => none
  | some none => some []
  | some (some r) => hexPairs r

/-- `data[sup].split(";")[sub]`: the record of one (branch, pillar) pair; `none` = an index out of range (panic) -/
def tabooRecord (tbl : List (List Nat)) (sup sub : Nat) : Option (List Nat) :=
  match tbl[sup]? with
  | none => none
  | some s => (splitOn 59 s)[sub]?

/-- the text `Taboo::get_taboos(data, sup, sub, idx)` decodes: `record.split(",")[idx]`; `none` = panic -/
def tabooField (tbl : List (List Nat)) (sup sub idx : Nat) : Option (List Nat) :=
  match tabooRecord tbl sup sub with
  | none => none
  | some r => (splitOn 44 r)[idx]?

/-- the integers handed to `Taboo::from_index` -/
def taboosRaw (tbl : List (List Nat)) (sup sub idx : Nat) : Option (List Int) :=
  match tabooField tbl sup sub idx with
  | none => none
  | some p => hexPairs p

/-- indices of the objects the API returns (`from_index` wraps into the name list of `size` entries) -/
def wrapAll (size : Nat) (l : Option (List Int)) : Option (List Nat) := l.map fun v => v.map fun i => indexOf i size

/-- `God::get_day_gods(month, day)` as indices; month and day are pillar indices 0..59 -/
def dayGods (tbl : List (List Nat)) (godSize monthPillar dayPillar : Nat) : Option (List Nat) :=
  wrapAll godSize (dayGodsRaw tbl (monthPillar % 12) dayPillar)

/-- `Taboo::get_day_recommends` (`idx = 0`) / `get_day_avoids` (`idx = 1`) -/
def dayTaboos (tbl : List (List Nat)) (tabooSize monthPillar dayPillar idx : Nat) : Option (List Nat) :=
  wrapAll tabooSize (taboosRaw tbl (monthPillar % 12) dayPillar idx)

/-- `Taboo::get_hour_recommends(day, hour)` (`idx = 0`) / `get_hour_avoids` (`idx = 1`) -/
def hourTaboos (tbl : List (List Nat)) (tabooSize dayPillar hourPillar idx : Nat) : Option (List Nat) :=
  wrapAll tabooSize (taboosRaw tbl (hourPillar % 12) dayPillar idx)

/-- `God::get_luck().get_index()` for the spirit with index `i` -/
def luck (i : Nat) : Nat := if i < 60 then 0 else 1

/-! ### kitchen god -/

/-- the number written by `NUMBERS[steps]` (1-based); `none` = array index out of range -/
def numberAt (steps : Nat) : Option Nat := if steps < 12 then some (steps + 1) else none

/-- `KitchenGodSteed::by_earth_branch(n)` for New Year day pillar `p` -/
def byBranch (p : Nat) (n : Int) : Option Nat := numberAt (stepsTo (p % 12) 12 n)

/-- `KitchenGodSteed::by_heaven_stem(n)` -/
def byStem (p : Nat) (n : Int) : Option Nat := numberAt (stepsTo (p % 10) 10 n)

/-- the 16 numbers of the 14 getters in source order: mouse, grass, cattle, flower, dragon, horse, chicken,
silkworm, pig, field, cake, gold, people_cakes (2), people_hoes (2) -/
def kitchenSlots (p : Nat) : List (Option Nat) :=
  [byBranch p 0, byBranch p 0, byBranch p 1, byBranch p 3, byBranch p 4, byBranch p 6, byBranch p 9, byBranch p 9,
   byBranch p 11, byStem p 0, byStem p 2, byStem p 7, byBranch p 2, byStem p 2, byBranch p 2, byStem p 3]

def kitchen (p : Nat) : Option (List Nat) := (kitchenSlots p).mapM id

end Tyme.Almanac
