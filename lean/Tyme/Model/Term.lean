import Tyme.Model.Jd
import Tyme.Model.Eph
/-
Model of SolarTerm (src/tyme/solar.rs:1629-1660), SolarDay::get_term_day and SolarTime::get_term
(after the `fix:` D6: walk back, then forward). Terms are addressed by the global index 24*(y-1)+i.
-/
namespace Tyme.Term
open Tyme

/-- `AbstractCulture::index_of` (Rust `%` truncates toward zero, then the repair) -/
def indexOf (i n : Int) : Int :=
  let r := Int.tmod i n
  if r < 0 then r + n else r

/-- `SolarTerm::from_index(year, index)`: (year, index in 0..23) -/
def fromIndex (y index : Int) : Int × Int := (Int.tdiv (y * 24 + index) 24, indexOf index 24)

/-- `SolarTerm::next n` -/
def next (t : Int × Int) (n : Int) : Int × Int :=
  fromIndex (Int.tdiv (t.1 * 24 + (t.2 + n)) 24) (indexOf (t.2 + n) 24)

def isJie (t : Int × Int) : Bool := t.2 % 2 == 1
def isQi (t : Int × Int) : Bool := t.2 % 2 == 0

/-- global index of (year ≥ 1, index) -/
def gidx (t : Int × Int) : Int := 24 * (t.1 - 1) + t.2
def ofGidx (g : Nat) : Int × Int := ((g / 24 : Nat) + 1, (g % 24 : Nat))

def FUEL : Nat := 30

/-- walk back while the day precedes the term's day; constructing the term's civil day refuses when
the instant is not representable (termDay = 0) -/
def backT (E : Eph) : Nat → Nat → Int → Option Nat
  | 0, _, _ => none
  | f+1, g, j =>
    if E.termDay g = 0 then none
    else if j < E.termDay g then (if g = 0 then none else backT E f (g - 1) j)
    else some g

/-- walk forward while the next term starts on or before the day (D6); a next term beyond the
representable range ends the walk (its instant lies after every supported day) -/
def fwdT (E : Eph) : Nat → Nat → Int → Option Nat
  | 0, _, _ => none
  | f+1, g, j =>
    if E.termDay (g + 1) = 0 then some g
    else if j < E.termDay (g + 1) then some g
    else fwdT E f (g + 1) j

/-- `SolarDay::get_term_day` for an accepted civil date: (global term index, day index) -/
def ofDay (E : Eph) (Y M D : Int) : Option (Nat × Int) :=
  let g0 : Int := 24 * (Y - 1) + 2 * M
  if g0 < 0 then none else
  match backT E FUEL g0.toNat (jdn Y M D) with
  | none => none
  | some g1 =>
    match fwdT E FUEL g1 (jdn Y M D) with
    | none => none
    | some g2 => some (g2, jdn Y M D - E.termDay g2)

/-- same on the seconds line for `SolarTime::get_term` -/
def backS (E : Eph) : Nat → Nat → Int → Option Nat
  | 0, _, _ => none
  | f+1, g, s =>
    if E.termDay g = 0 then none
    else if s < E.termSec g then (if g = 0 then none else backS E f (g - 1) s)
    else some g

def fwdS (E : Eph) : Nat → Nat → Int → Option Nat
  | 0, _, _ => none
  | f+1, g, s =>
    if E.termDay (g + 1) = 0 then some g
    else if s < E.termSec (g + 1) then some g
    else fwdS E f (g + 1) s

def ofTime (E : Eph) (Y M D h mi s : Int) : Option Nat :=
  let g0 : Int := 24 * (Y - 1) + 2 * M
  if g0 < 0 then none else
  let sec := 86400 * jdn Y M D + 3600 * h + 60 * mi + s
  match backS E FUEL g0.toNat sec with
  | none => none
  | some g1 => fwdS E FUEL g1 sec

end Tyme.Term
