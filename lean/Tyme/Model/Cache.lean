/-
Model of the process-wide lunar-month memo LUNAR_MONTH_CACHE (src/tyme/lunar.rs, `LunarMonth::from_ym`,
after the `fix:` commits D1 (delimited key) and D2 (construct outside the lock, refusal leaves the map alone)).
State machine at the level of the critical sections: `look` (lock, get, unlock) and `ins` (lock, insert, unlock).
Keys are byte strings (List Nat): format!("{}_{}", year, month).
-/
namespace Tyme.Cache

/-- decimal digits of n, least significant first (fuel-bounded; fuel = n + 1 always suffices) -/
def digitsRev : Nat → Nat → List Nat
  | 0, _ => []
  | f+1, n => if n < 10 then [n] else (n % 10) :: digitsRev f (n / 10)

/-- ASCII rendering of a natural number, as `format!("{}", n)` -/
def renderNat (n : Nat) : List Nat := ((digitsRev (n + 1) n).map (· + 48)).reverse

/-- ASCII rendering of an integer: '-' (45) then the magnitude -/
def render (i : Int) : List Nat := if i < 0 then 45 :: renderNat i.natAbs else renderNat i.natAbs

/-- the memo key after D1: year, '_' (95), month -/
def key (y m : Int) : List Nat := render y ++ [95] ++ render m

/-- the key before D1 (no delimiter) — kept to exhibit the collision -/
def keyOld (y m : Int) : List Nat := render y ++ render m

abbrev Key := List Nat

/-- cached value: what `from_cache` rebuilds (year, signed month, day count, index in year, first day) -/
structure Rec where
  y : Int
  m : Int
  len : Int
  idx : Int
  first : Int
deriving DecidableEq, Repr

abbrev State := List (Key × Rec)

def lookup (c : State) (k : Key) : Option Rec :=
  match c with
  | [] => none
  | (k', v) :: rest => if k' = k then some v else lookup rest k

/-- HashMap::insert (overwrites) -/
def insert (c : State) (k : Key) (v : Rec) : State := (k, v) :: c.filter (fun p => p.1 ≠ k)

/-- one `from_ym(y, m)` call: look up; on a miss construct (may be refused: state untouched) and insert -/
def step (kf : Int → Int → Key) (pure : Int → Int → Option Rec) (c : State) (q : Int × Int) : State × Option Rec :=
  match lookup c (kf q.1 q.2) with
  | some v => (c, some v)
  | none =>
    match pure q.1 q.2 with
    | none => (c, none)
    | some v => (insert c (kf q.1 q.2) v, some v)

/-- run a history, collecting the answers -/
def run (kf : Int → Int → Key) (pure : Int → Int → Option Rec) : State → List (Int × Int) → State × List (Option Rec)
  | c, [] => (c, [])
  | c, q :: qs =>
    let r := step kf pure c q
    let rest := run kf pure r.1 qs
    (rest.1, r.2 :: rest.2)

/-- micro-operations of concurrent callers: the two critical sections of one `from_ym` -/
inductive MOp where
  | look (y m : Int)
  | ins (y m : Int)

/-- a micro step: `look` leaves the state and reports the cached value; `ins` stores the pure value (a thread
only reaches `ins` after a successful construction) -/
def mstep (kf : Int → Int → Key) (pure : Int → Int → Option Rec) (c : State) : MOp → State × Option Rec
  | .look y m => (c, lookup c (kf y m))
  | .ins y m =>
    match pure y m with
    | none => (c, none)
    | some v => (insert c (kf y m) v, some v)

end Tyme.Cache
