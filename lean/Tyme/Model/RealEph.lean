import Tyme.Model.Eph
import Tyme.Gen.Months
import Tyme.Gen.Terms
/- `realEph`: the ephemeris extracted from /repo's current working tree (Gen data). -/
namespace Tyme
open Packed

/-- one record per lunar year 0..9999 -/
def yearRecs : List Nat := records 1024 Gen.monthsChunks
/-- one record per term, global index 24*(y-1)+i -/
def termRecs : List Nat := records 72 Gen.termsChunks

def realEph : Eph where
  leap y := if y = -1 then 11 else if 0 ≤ y then Rec.yLeap (yearRecs.getD y.toNat 0) else 0
  mFirst y i := Rec.sFirst (Rec.slot (yearRecs.getD y.toNat 0) i)
  mLen y i := Rec.sLen (Rec.slot (yearRecs.getD y.toNat 0) i)
  qiDay t := Rec.tQi (termRecs.getD t 0)
  termDay t := Rec.tDay (termRecs.getD t 0)
  termSod t := Rec.tSod (termRecs.getD t 0)

/-- arrays for the compiled driver (same content as the lists, O(1) access) -/
def yearArr : Array Nat := yearRecs.toArray
def termArr : Array Nat := termRecs.toArray

def fastEph : Eph where
  leap y := if y = -1 then 11 else if 0 ≤ y then Rec.yLeap (yearArr.getD y.toNat 0) else 0
  mFirst y i := Rec.sFirst (Rec.slot (yearArr.getD y.toNat 0) i)
  mLen y i := Rec.sLen (Rec.slot (yearArr.getD y.toNat 0) i)
  qiDay t := Rec.tQi (termArr.getD t 0)
  termDay t := Rec.tDay (termArr.getD t 0)
  termSod t := Rec.tSod (termArr.getD t 0)

end Tyme
