import Tyme.Model.SixtyCycle
/-
Model of the term-anchored day series of src/tyme/solar.rs (SolarDay):
  get_nine_day, get_dog_day, get_plum_rain_day, get_phenology_day, get_hide_heaven_stem_day
— the last one AFTER the repair of D21 (`if day_index < days`, fixes/C15-hide-stem.diff).

Civil days are represented by their noon-based day number `j = jdn Y M D` (as in Term.ofDay and Lunar.ofSolar):
`is_before` / `is_after` / `subtract` / `next(n)` are `<` / `>` / `-` / `+ n` on day numbers (C01), and a
SolarDay that the code constructs (`get_solar_day()`, `next(n)`) is refused when its day number lies outside
0001-01-01..9999-12-31 (`okJ`; the code panics in `SolarDay::from_ymd`).
The outer `Option` is refusal (panic), the inner one is the code's own `Option` ("not such a day").
No imports outside Model: linked into the driver.
-/
namespace Tyme.Series
open Tyme

def JFIRST : Int := 1721424   -- jdn 1 1 1
def JLAST : Int := 5373484    -- jdn 9999 12 31

/-- the day number is one of a civil day that `SolarDay::from_ymd` accepts -/
def okJ (j : Int) : Bool := decide (JFIRST ≤ j ∧ j ≤ JLAST)

def indexOf := Term.indexOf

/-- `term.get_julian_day().get_solar_day()` as a day number; refused when the civil day of the instant is not
representable (table entry 0) or the term lies before year 1 -/
def termStart (E : Eph) (t : Int × Int) : Option Int :=
  if Term.gidx t < 0 then none
  else if E.termDay (Term.gidx t).toNat = 0 then none
  else some (E.termDay (Term.gidx t).toNat)

/-- `day.get_lunar_day().get_sixty_cycle()` for the civil day with number `j`: the LUNAR route
(get_lunar_day, then first day number of the lunar month + day − 12) -/
def pillarOf (E : Eph) (j : Int) : Option Int :=
  match Lunar.ofSolar E (ofJdn j).1 (ofJdn j).2.1 (ofJdn j).2.2 with
  | none => none
  | some (x, k) => SC.dayPillar (Lunar.first E x) k

/-- `SixtyCycle::get_heaven_stem` / `get_earth_branch` (index % 10, % 12, then from_index) -/
def stemOfPillar (p : Int) : Int := indexOf (p % 10) 10
def branchOfPillar (p : Int) : Int := indexOf (p % 12) 12

/-- `LoopTyme::steps_to(target)` for an element `idx` of a cycle of `size` -/
def stepsTo (idx target size : Int) : Int := indexOf (target - idx) size

/-! ### get_nine_day -/

def nine (E : Eph) (Y : Int) (j : Int) : Option (Option (Int × Int)) :=
  match termStart E (Term.fromIndex (Y + 1) 0) with
  | none => none
  | some s1 =>
    match (if j < s1 then termStart E (Term.fromIndex Y 0) else some s1) with
    | none => none
    | some s =>
      if !okJ (s + 81) then none                                  -- start.next(81)
      else if j < s ∨ ¬ (j < s + 81) then some none
      else some (some (indexOf (Int.tdiv (j - s) 9) 9, Int.tmod (j - s) 9))

/-! ### get_dog_day -/

def dog (E : Eph) (Y : Int) (j : Int) : Option (Option (Int × Int)) :=
  match termStart E (Term.fromIndex Y 12) with
  | none => none
  | some s0 =>
    match pillarOf E s0 with
    | none => none
    | some p =>
      let start1 := s0 + (stepsTo (stemOfPillar p) 6 10 + 20)
      if !okJ start1 then none
      else if j - start1 < 0 then some none
      else if j - start1 < 10 then some (some (0, j - start1))
      else if !okJ (start1 + 10) then none
      else if j - (start1 + 10) < 10 then some (some (1, j - (start1 + 10)))
      else if !okJ (start1 + 20) then none
      else
        match termStart E (Term.next (Term.fromIndex Y 12) 3) with
        | none => none
        | some lq =>
          if lq > start1 + 20 then
            if j - (start1 + 20) < 10 then some (some (1, j - (start1 + 20) + 10))
            else if !okJ (start1 + 30) then none
            else if j - (start1 + 30) < 10 then some (some (2, j - (start1 + 30))) else some none
          else if j - (start1 + 20) < 10 then some (some (2, j - (start1 + 20))) else some none

/-! ### get_plum_rain_day -/

def plum (E : Eph) (Y : Int) (j : Int) : Option (Option (Int × Int)) :=
  match termStart E (Term.fromIndex Y 11) with
  | none => none
  | some g0 =>
    match pillarOf E g0 with
    | none => none
    | some p =>
      let start := g0 + stepsTo (stemOfPillar p) 2 10
      if !okJ start then none else
      match termStart E (Term.next (Term.fromIndex Y 11) 2) with
      | none => none
      | some h0 =>
        match pillarOf E h0 with
        | none => none
        | some q =>
          let stop := h0 + stepsTo (branchOfPillar q) 7 12
          if !okJ stop then none
          else if j < start ∨ j > stop then some none
          else if j = stop then some (some (1, 0))
          else some (some (0, j - start))

/-! ### get_phenology_day -/

/-- (pentad index 0..71, position in the term 0..2, day index) -/
def pheno (E : Eph) (Y M D : Int) : Option (Int × Int × Int) :=
  match Term.ofDay E Y M D with
  | none => none
  | some (g, k) =>
    let idx0 := Int.tdiv k 5
    let idx := if idx0 > 2 then 2 else idx0
    let p := indexOf (((g % 24 : Nat) : Int) * 3 + idx) 72
    some (p, indexOf (Int.tmod p 3) 3, k - idx * 5)

/-! ### get_hide_heaven_stem_day -/

/-- the packed string "93705542220504xx1513904541632524533533105544806564xx7573304542018584xx95" as bytes
(string literals do not reduce in the kernel) -/
def hideData : List Nat :=
  [57,51,55,48,53,53, 52,50,50,50,48,53, 48,52,120,120,49,53, 49,51,57,48,52,53, 52,49,54,51,50,53, 50,52,53,51,51,53,
   51,51,49,48,53,53, 52,52,56,48,54,53, 54,52,120,120,55,53, 55,51,51,48,52,53, 52,50,48,49,56,53, 56,52,120,120,57,53]

/-- `day_counts` -/
def dayCounts : List Int := [3, 5, 7, 9, 10, 30]

/-- `isize::from_str` / `usize::from_str` of a one-character slice: a decimal digit, else `unwrap` panics -/
def digit (b : Nat) : Option Int := if 48 ≤ b ∧ b ≤ 57 then some ((b - 48 : Nat) : Int) else none

/-- the `while type_index < 3` loop. `data` = the six bytes of the month, `n` = remaining iterations (3 − type_index),
state: type_index, days, heaven_stem_index. Result (stem, type, day index); falling out of the loop ends in
`HideHeavenStemType::from_code(3).unwrap()`, a panic. -/
def hideLoop (data : List Nat) (dayIndex : Int) : Nat → Nat → Int → Int → Option (Int × Int × Int)
  | 0, _, _, _ => none
  | n+1, ti, days, stem =>
    if data.getD (ti * 2) 0 = 120 then      -- "x": count = 0, stem and days unchanged
      (if dayIndex < days then
         (if dayIndex - days < 0 then none else some (stem, (ti : Int), dayIndex - days))   -- day_index -= days - 0
       else hideLoop data dayIndex n (ti + 1) days stem)
    else
      match digit (data.getD (ti * 2) 0), digit (data.getD (ti * 2 + 1) 0) with
      | some s, some c =>
        if c ≥ 6 then none else      -- day_counts[c] out of bounds
        if dayIndex < days + dayCounts.getD c.toNat 0 then
          -- day_index -= days - count, with days already increased by count
          (if dayIndex - days < 0 then none else some (s, (ti : Int), dayIndex - days))
        else hideLoop data dayIndex n (ti + 1) (days + dayCounts.getD c.toNat 0) s
      | _, _ => none

/-- (heaven stem index, type code 0 = residual / 1 = middle / 2 = main, day index) -/
def hide (E : Eph) (Y M D : Int) : Option (Int × Int × Int) :=
  match Term.ofDay E Y M D with
  | none => none
  | some (g, _) =>
    let t : Int × Int := Term.ofGidx g
    let t' := if Term.isQi t then Term.next t (-1) else t
    match termStart E t' with
    | none => none
    | some s =>
      let dayIndex := jdn Y M D - s
      if dayIndex < 0 then none else          -- `as usize` wraps to a huge value: the loop falls through and `from_code(3).unwrap()` panics
      if t'.2 - 1 < 0 then none else          -- usize subtraction
      let startIndex := ((t'.2 - 1) * 3).toNat
      if startIndex + 6 > hideData.length then none else    -- slice out of bounds
      match hideLoop ((hideData.drop startIndex).take 6) dayIndex 3 0 0 0 with
      | none => none
      | some (s, ty, di) => some (indexOf s 10, ty, di)

end Tyme.Series
