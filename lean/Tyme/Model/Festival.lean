import Tyme.Model.Jd
/-
Model of src/tyme/festival.rs and src/tyme/holiday.rs (C20).

* Strings are byte lists (`List Nat`); the three data strings are parameters (the driver and the
  theorems instantiate them with the bytes dumped from the crate, `Tyme.Gen.C20`).
* `Regex::new(..).find / find_iter / is_match` are modelled as left-to-right byte scans with the
  same semantics: unanchored, leftmost match, `find_iter` = successive non-overlapping leftmost
  matches.  Only the pattern shapes that occur in the two files are modelled: a fixed sequence of
  literal bytes / `\d` / `[a-b]` / `[\+|-]`, optionally followed by one greedy `\d+`.
  (`\d` of the regex crate is Unicode-aware; the data are pure ASCII — a table fact — so bytes suffice.)
* `format!("{:0>w$}", x)` is `fmtInt w x`: decimal digits, `-` for negatives, left-padded with `0`
  to `w` characters (fill/align padding is not sign-aware: -5 gives `00-5`).
* Err/panic = `Res.refused`; `None` = `Res.absent`.
* The lunar calendar and the solar terms are an abstract parameter `Cal` (they belong to other properties).
* `LunarFestival::from_ymd` is modelled WITH the repair fixes/C20-term-festival.diff (all term records are
  consulted, `find_iter`); `termFirstOnly := true` gives the unrepaired behaviour (`find`).
No imports beyond Model files: linked into the correspondence driver.
-/
namespace Tyme.Fest

abbrev Bytes := List Nat

/-- three-way outcome of an API call -/
inductive Res (α : Type) where
  | refused            -- Err or panic
  | absent             -- `None`
  | found (a : α)      -- `Some a`
  deriving Repr, DecidableEq

/-! ## the regex fragment -/

inductive Pat where
  | lit (b : Nat)        -- a literal byte
  | dig                  -- `\d`
  | rng (lo hi : Nat)    -- `[lo-hi]`
  | sgn                  -- `[\+|-]` : '+', '|' or '-'
  deriving Repr, DecidableEq

def isDigit (b : Nat) : Bool := decide (48 ≤ b) && decide (b ≤ 57)

def Pat.ok : Pat → Nat → Bool
  | .lit c, b => b == c
  | .dig, b => isDigit b
  | .rng lo hi, b => decide (lo ≤ b) && decide (b ≤ hi)
  | .sgn, b => b == 43 || b == 124 || b == 45

/-- match a fixed-length pattern at the head of `l`: matched bytes and the rest -/
def matchFix : List Pat → Bytes → Option (Bytes × Bytes)
  | [], l => some ([], l)
  | _ :: _, [] => none
  | p :: ps, b :: l =>
    if p.ok b then
      match matchFix ps l with
      | some r => some (b :: r.1, r.2)
      | none => none
    else none

def takeDigits : Bytes → Bytes
  | [] => []
  | b :: l => if isDigit b then b :: takeDigits l else []

/-- a regex: fixed part, then (if `plus`) a greedy `\d+` -/
structure Rx where
  fix : List Pat
  plus : Bool

/-- anchored match at the head of `l`; the matched bytes -/
def Rx.matchHere (r : Rx) (l : Bytes) : Option Bytes :=
  match matchFix r.fix l with
  | none => none
  | some (m, rest) =>
    if r.plus then
      (let ds := takeDigits rest
       if ds.isEmpty then none else some (m ++ ds))
    else some m

/-- `Regex::find(..).as_str()`: leftmost match -/
def Rx.find (r : Rx) : Bytes → Option Bytes
  | [] => r.matchHere []
  | b :: t =>
    match r.matchHere (b :: t) with
    | some m => some m
    | none => r.find t

/-- `Regex::find_iter`: successive non-overlapping leftmost matches (`skip` = bytes still covered by the last match) -/
def Rx.findIter (r : Rx) : Bytes → Nat → List Bytes
  | [], _ => []
  | b :: t, 0 =>
    match r.matchHere (b :: t) with
    | some m => m :: r.findIter t (m.length - 1)
    | none => r.findIter t 0
  | _ :: t, s + 1 => r.findIter t s

/-! ## number formatting and parsing -/

def decDigits : Nat → Nat → Bytes
  | 0, _ => []
  | f + 1, n => if n < 10 then [48 + n] else decDigits f (n / 10) ++ [48 + n % 10]

/-- `format!("{}", n)` for an unsigned number -/
def natStr (n : Nat) : Bytes := decDigits (n + 1) n

/-- `format!("{}", x)` for a signed number -/
def intStr (x : Int) : Bytes := if x < 0 then 45 :: natStr x.natAbs else natStr x.toNat

/-- `format!("{:0>w$}", x)` -/
def fmtInt (w : Nat) (x : Int) : Bytes :=
  let s := intStr x
  List.replicate (w - s.length) 48 ++ s

/-- `usize::from_str` on bytes (`none` = Err; only digit strings occur) -/
def parseNat (l : Bytes) : Option Nat :=
  if l.isEmpty then none
  else if l.all isDigit then some (l.foldl (fun a b => 10 * a + (b - 48)) 0) else none

/-- `isize::from_str` / `.parse::<isize>()` (optional leading '-') -/
def parseInt (l : Bytes) : Option Int :=
  match l with
  | 45 :: t => (parseNat t).map fun n => - (n : Int)
  | _ => (parseNat l).map fun n => (n : Int)

def lits (l : Bytes) : List Pat := l.map Pat.lit

/-- `AbstractCulture::index_of(i, n)` -/
def indexOf (i n : Int) : Int :=
  let r := Int.tmod i n
  if r < 0 then r + n else r

/-! ## civil festivals (`SolarFestival`) -/

structure SolarFest where
  idx : Nat
  y : Int
  m : Int
  d : Int
  start : Int
  deriving Repr, DecidableEq

/-- `@\d{2}0` MM DD `\d+` -/
def solarYmdRx (m d : Int) : Rx := ⟨[.lit 64, .dig, .dig, .lit 48] ++ lits (fmtInt 2 m ++ fmtInt 2 d), true⟩

/-- `@` II `\d+` -/
def idxRx (i : Int) : Rx := ⟨.lit 64 :: lits (fmtInt 2 i), true⟩

/-- the part of `from_ymd` after the regex matched `mt` -/
def solarYmdEval (y m d : Int) (mt : Bytes) : Res SolarFest :=
  match parseInt (mt.drop 8) with
  | none => .refused
  | some start =>
    if y < start then .absent
    else if solarDayOk y m d then
      match parseNat ((mt.drop 1).take 2) with
      | some idx => .found ⟨idx, y, m, d, start⟩
      | none => .refused
    else .refused

/-- `SolarFestival::from_ymd(year, month, day)`; a negative month/day cannot be passed (`usize`) -/
def solarFromYmd (data : Bytes) (y m d : Int) : Res SolarFest :=
  if m < 0 ∨ d < 0 then .refused else
  match (solarYmdRx m d).find data with
  | none => .absent
  | some mt => solarYmdEval y m d mt

/-- the part of `from_index` after the regex matched `mt` -/
def solarIdxEval (y : Int) (mt : Bytes) : Res SolarFest :=
  let dt := mt.getD 3 48 - 48
  if dt > 2 then .refused            -- FestivalType::from_code(..).unwrap()
  else if dt ≠ 0 then .absent        -- not a DAY record
  else if mt.length < 8 then .refused  -- slice out of range
  else
    match parseInt (mt.drop 8) with
    | none => .refused
    | some start =>
      if y < start then .absent else
      match parseNat ((mt.drop 4).take 2), parseNat ((mt.drop 6).take 2), parseNat ((mt.drop 1).take 2) with
      | some month, some day, some idx =>
        if solarDayOk y month day then .found ⟨idx, y, month, day, start⟩ else .refused
      | _, _, _ => .refused

/-- `SolarFestival::from_index(year, index)`; `size` = `SOLAR_FESTIVAL_NAMES.len()` -/
def solarFromIndex (size : Nat) (data : Bytes) (y i : Int) : Res SolarFest :=
  if i < 0 then .refused else
  if i ≥ size then .absent else
  match (idxRx i).find data with
  | none => .absent
  | some mt => solarIdxEval y mt

/-- `SolarFestival::next(n)` -/
def solarNext (size : Nat) (data : Bytes) (f : SolarFest) (n : Int) : Res SolarFest :=
  let i : Int := f.idx + n
  solarFromIndex size data (Int.tdiv (f.y * size + i) size) (indexOf i size)

/-! ## legal holidays (`LegalHoliday`) -/

structure Hol where
  y : Int
  m : Int
  d : Int
  idx : Nat
  work : Bool
  deriving Repr, DecidableEq

/-- `[0-1][0-8][\+|-]\d{2}` -/
def holTail : List Pat := [.rng 48 49, .rng 48 56, .sgn, .dig, .dig]

/-- YYYY MM DD `[0-1][0-8][\+|-]\d{2}` -/
def holYmdRx (y m d : Int) : Rx := ⟨lits (fmtInt 4 y ++ fmtInt 2 m ++ fmtInt 2 d) ++ holTail, false⟩

/-- YYYY `\d{4}[0-1][0-8][\+|-]\d{2}` -/
def holYearRx (y : Int) : Rx := ⟨lits (fmtInt 4 y) ++ [.dig, .dig, .dig, .dig] ++ holTail, false⟩

/-- `LegalHoliday::from_ymd(year, month, day)` -/
def holFromYmd (data : Bytes) (y m d : Int) : Res Hol :=
  if m < 0 ∨ d < 0 then .refused else
  match (holYmdRx y m d).find data with
  | none => .absent
  | some mt =>
    if solarDayOk y m d then .found ⟨y, m, d, mt.getD 9 48 - 48, mt.getD 8 0 == 48⟩ else .refused

/-- position of the first element with the given prefix (`starts_with` loop) -/
def firstPrefix (p : Bytes) : List Bytes → Nat → Option Nat
  | [], _ => none
  | x :: t, i => if p.isPrefixOf x then some i else firstPrefix p t (i + 1)

/-- the `while index >= size` loop of `next` (`Y y` = the year's matches); `refused` = fuel exhausted / `unwrap` of a missing element -/
def holFwd {α : Type} (Y : Int → List α) : Nat → Int → Int → List α → Res α
  | 0, _, _, _ => .refused
  | f + 1, index, y, cur =>
    if index ≥ cur.length then
      let cur' := Y (y + 1)
      if cur'.length < 1 then .absent else holFwd Y f (index - cur.length) (y + 1) cur'
    else
      match cur[index.toNat]? with
      | some x => .found x
      | none => .refused

/-- the `while index < 0` loop of `next` -/
def holBwd {α : Type} (Y : Int → List α) : Nat → Int → Int → List α → Res α
  | 0, _, _, _ => .refused
  | f + 1, index, y, cur =>
    if index < 0 then
      let cur' := Y (y - 1)
      if cur'.length < 1 then .absent else holBwd Y f (index + cur'.length) (y - 1) cur'
    else
      match cur[index.toNat]? with
      | some x => .found x
      | none => .refused

/-- iteration bound of the two loops in the model (each iteration moves to another year that has records) -/
def holFuel : Nat := 20000

/-- `LegalHoliday::next(n)` -/
def holNext (data : Bytes) (h : Hol) (n : Int) : Res Hol :=
  if n == 0 then .found h else
  let Y : Int → List Bytes := fun y => (holYearRx y).findIter data 0
  let today := fmtInt 4 h.y ++ fmtInt 2 h.m ++ fmtInt 2 h.d
  let cur := Y h.y
  match firstPrefix today cur 0 with
  | none => .absent
  | some i =>
    let index : Int := i + n
    let r := if n > 0 then holFwd Y holFuel index h.y cur else holBwd Y holFuel index h.y cur
    match r with
    | .refused => .refused
    | .absent => .absent
    | .found rec =>
      match parseInt (rec.take 4), parseNat ((rec.drop 4).take 2), parseNat ((rec.drop 6).take 2) with
      | some y', some m', some d' => holFromYmd data y' m' d'
      | _, _, _ => .refused

/-! ## lunar festivals (`LunarFestival`) over an abstract calendar -/

/-- what the festival code asks of the lunar calendar and the solar terms -/
structure Cal where
  /-- `LunarDay::new(year, month, day)` is `Ok` (month negative = leap) -/
  valid : Int → Int → Int → Bool
  /-- `LunarDay::get_solar_day` as a day number; `none` = refused -/
  toSolar : Int → Int → Int → Option Int
  /-- the civil day with that day number, `.get_lunar_day()`; `none` = refused (no such civil day, or panic) -/
  toLunar : Int → Option (Int × Int × Int)
  /-- `SolarTerm::from_index(year, index).get_julian_day().get_solar_day()` as a day number; `none` = refused -/
  termJdn : Int → Int → Option Int

/-- `LunarDay::next(n)` for a constructed day -/
def Cal.step (C : Cal) (l : Int × Int × Int) (n : Int) : Option (Int × Int × Int) :=
  if n == 0 then some l else
  match C.toSolar l.1 l.2.1 l.2.2 with
  | none => none
  | some j => C.toLunar (j + n)

/-- lunar date of the civil day of term (year, index) -/
def Cal.termLunar (C : Cal) (y t : Int) : Option (Int × Int × Int) :=
  match C.termJdn y t with
  | none => none
  | some j => C.toLunar j

structure LunarFest where
  idx : Nat
  ty : Nat          -- 0 DAY, 1 TERM, 2 EVE
  y : Int
  m : Int
  d : Int
  term : Int        -- index of the solar term (0..23), -1 if none
  deriving Repr, DecidableEq

/-- `@\d{2}0` MM DD -/
def lunarYmdRx (m d : Int) : Rx := ⟨[.lit 64, .dig, .dig, .lit 48] ++ lits (fmtInt 2 m ++ fmtInt 2 d), false⟩
/-- `@\d{2}1\d{2}` -/
def lunarTermRx : Rx := ⟨[.lit 64, .dig, .dig, .lit 49, .dig, .dig], false⟩
/-- `@\d{2}2` -/
def lunarEveRx : Rx := ⟨[.lit 64, .dig, .dig, .lit 50], false⟩

/-- the term records consulted by `from_ymd`, in order -/
def lunarTermLoop (C : Cal) (y m d : Int) : List Bytes → Res LunarFest
  | [] => .absent
  | mt :: rest =>
    match parseNat (mt.drop 4), parseNat ((mt.drop 1).take 2) with
    | some ti, some idx =>
      match C.termLunar y ti with
      | none => .refused
      | some l =>
        if l.1 == y && l.2.1 == m && l.2.2 == d then .found ⟨idx, 1, l.1, l.2.1, l.2.2, indexOf ti 24⟩
        else lunarTermLoop C y m d rest
    | _, _ => .refused

/-- step 3 of `from_ymd`: New Year's Eve, after the regex matched `mt` -/
def lunarEveEval (C : Cal) (y m d : Int) (mt : Bytes) : Res LunarFest :=
  match parseNat ((mt.drop 1).take 2) with
  | none => .refused
  | some idx =>
    if C.valid y m d then
      match C.step (y, m, d) 1 with
      | none => .refused
      | some nx => if nx.2.1 == 1 && nx.2.2 == 1 then .found ⟨idx, 2, y, m, d, -1⟩ else .absent
    else .refused

/-- step 1 of `from_ymd`: a fixed lunar date, after the regex matched `mt` -/
def lunarDayEval (C : Cal) (y m d : Int) (mt : Bytes) : Res LunarFest :=
  if C.valid y m d then
    match parseNat ((mt.drop 1).take 2) with
    | some idx => .found ⟨idx, 0, y, m, d, -1⟩
    | none => .refused
  else .refused

/-- `LunarFestival::from_ymd(year, month, day)`.
`termFirstOnly = false`: the repaired code (every term record, `find_iter`); `true`: the unrepaired one (`find`). -/
def lunarFromYmd (C : Cal) (data : Bytes) (y m d : Int) (termFirstOnly : Bool := false) : Res LunarFest :=
  if d < 0 then .refused else
  match (lunarYmdRx m d).find data with
  | some mt => lunarDayEval C y m d mt
  | none =>
    let terms := if termFirstOnly then (lunarTermRx.find data).toList else lunarTermRx.findIter data 0
    match lunarTermLoop C y m d terms with
    | .refused => .refused
    | .found f => .found f
    | .absent =>
      match lunarEveRx.find data with
      | none => .absent
      | some mt => lunarEveEval C y m d mt

/-- the part of `from_index` after the regex matched `mt` -/
def lunarIdxEval (C : Cal) (y : Int) (mt : Bytes) : Res LunarFest :=
  let dt := mt.getD 3 48 - 48
  if dt > 2 then .refused
  else
    match parseNat ((mt.drop 1).take 2) with
    | none => .refused
    | some idx =>
      if dt == 0 then
        if mt.length < 8 then .refused else
        match parseNat ((mt.drop 4).take 2), parseNat ((mt.drop 6).take 2) with
        | some month, some day =>
          if C.valid y month day then .found ⟨idx, 0, y, month, day, -1⟩ else .refused
        | _, _ => .refused
      else if dt == 1 then
        match parseNat (mt.drop 4) with
        | none => .refused
        | some ti =>
          match C.termLunar y ti with
          | none => .refused
          | some l => .found ⟨idx, 1, l.1, l.2.1, l.2.2, indexOf ti 24⟩
      else
        if C.valid (y + 1) 1 1 then
          match C.step (y + 1, 1, 1) (-1) with
          | none => .refused
          | some l => .found ⟨idx, 2, l.1, l.2.1, l.2.2, -1⟩
        else .refused

/-- `LunarFestival::from_index(year, index)`; `size` = `LUNAR_FESTIVAL_NAMES.len()` -/
def lunarFromIndex (C : Cal) (size : Nat) (data : Bytes) (y i : Int) : Res LunarFest :=
  if i < 0 then .refused else
  if i ≥ size then .absent else
  match (idxRx i).find data with
  | none => .absent
  | some mt => lunarIdxEval C y mt

/-- `LunarFestival::next(n)` -/
def lunarNext (C : Cal) (size : Nat) (data : Bytes) (f : LunarFest) (n : Int) : Res LunarFest :=
  let i : Int := f.idx + n
  lunarFromIndex C size data (Int.tdiv (f.y * size + i) size) (indexOf i size)

end Tyme.Fest
