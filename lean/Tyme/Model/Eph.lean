import Tyme.Basic.Packed
/-
Abstract ephemeris: the integer-valued outputs of the astronomy (new-moon days, term days/instants,
leap months) as functions. Models of the calendar logic are parameterised by an `Eph`; theorems
assume named facts about it, which are kernel-decided for `realEph` (Gen data) in `Tyme/Facts`.
-/
namespace Tyme

structure Eph where
  /-- leap month of lunar year y (0 = none) -/
  leap     : Int → Nat
  /-- noon-based day number of day 1 of the month with index-in-year `i` of lunar year `y` -/
  mFirst   : Int → Nat → Int
  /-- its day count -/
  mLen     : Int → Nat → Int
  /-- calendar-making (cursory) day of term t; global term index t = 24*(y-1)+i, y ≥ 1 -/
  qiDay    : Nat → Int
  /-- civil day number of the precise instant as reported by the library (0 = not representable) -/
  termDay  : Nat → Int
  /-- second of day of the precise instant -/
  termSod  : Nat → Int

namespace Eph

/-- months in lunar year y (`LunarYear::get_month_count`) -/
def cnt (E : Eph) (y : Int) : Nat := if E.leap y > 0 then 13 else 12

/-- instant of a term in seconds on the civil time line -/
def termSec (E : Eph) (t : Nat) : Int := 86400 * E.termDay t + E.termSod t

end Eph

/-! record field accessors for the packed Gen tables (see tools/gen_eph.py) -/
namespace Rec
def BASE : Nat := 1700000
/-- 32-bit slot i of a year record -/
def slot (r i : Nat) : Nat := r / 2 ^ (32 * i) % 2 ^ 32
def sFirst (s : Nat) : Nat := s % 2 ^ 27 + BASE
def sLen (s : Nat) : Nat := s / 2 ^ 27
def yLeap (r : Nat) : Nat := r / 2 ^ 448 % 16
def yCount (r : Nat) : Nat := r / 2 ^ 452 % 16
/-- k-th calendar-making zhongqi day (k = 0..12) of the solstice year ending in December of the record's year; 0 = not dumped -/
def yQiRaw (r k : Nat) : Nat := r / 2 ^ (512 + 27 * k) % 2 ^ 27
def yQi (r k : Nat) : Nat := yQiRaw r k + BASE
/-- precise conjunction day of month slot i minus the table's first day, plus 1 (0,1,2); 3 = further off -/
def yShuoCode (r i : Nat) : Nat := r / 2 ^ (864 + 2 * i) % 4
def tQi (r : Nat) : Nat := r % 2 ^ 24 + BASE
def tDayRaw (r : Nat) : Nat := r / 2 ^ 24 % 2 ^ 24
def tDay (r : Nat) : Nat := if tDayRaw r = 0 then 0 else tDayRaw r + BASE
def tSod (r : Nat) : Nat := r / 2 ^ 48
end Rec

end Tyme
