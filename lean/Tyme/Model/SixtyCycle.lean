import Tyme.Model.Lunar
import Tyme.Model.Term
/-
Model of the sexagenary views: LunarDay::get_sixty_cycle, LunarMonth::get_sixty_cycle, SixtyCycleYear,
SixtyCycleDay::from_solar_day, SixtyCycleHour::from_solar_time, LunarHour::get_sixty_cycle
(src/tyme/lunar.rs:395-397, 793-796, 1094-1102; src/tyme/sixtycycle.rs:559-565, 723-750, 897-935).
-/
namespace Tyme.SC
open Tyme

def indexOf := Term.indexOf

/-- `SixtyCycle::from_name(stem ++ branch)`: position of the pair in the 60 names; refused (panic) if the
pair is not one of the sixty (parity mismatch) -/
def pairIndex (s b : Int) : Option Int :=
  (List.range 60).findSome? fun (p : Nat) => if (p : Int) % 10 = s ∧ (p : Int) % 12 = b then some (p : Int) else none

/-- `SixtyCycle::next` / from_index -/
def cycNext (p n : Int) : Int := indexOf (p + n) 60

/-- `LunarDay::get_sixty_cycle`: offset = first day number + day - 12 -/
def dayPillar (first d : Int) : Option Int :=
  pairIndex (indexOf (first + d - 12) 10) (indexOf (first + d - 12) 12)

/-- `LunarYear::get_sixty_cycle` / `SixtyCycleYear::get_sixty_cycle` -/
def yearPillar (y : Int) : Int := indexOf (y - 4) 60

/-- `LunarMonth::get_sixty_cycle` for the month with index-in-year `idx` of lunar year `y` -/
def lunarMonthPillar (y : Int) (idx : Int) : Option Int :=
  pairIndex (indexOf ((yearPillar y % 10 + 1) * 2 + idx) 10) (indexOf (idx + 2) 12)

/-- `LunarHour::get_sixty_cycle` from the day pillar and the clock hour -/
def hourPillar (dayP : Int) (hour : Int) : Option Int :=
  let eb := ((hour + 1) / 2) % 12
  let d := if hour ≥ 23 then cycNext dayP 1 else dayP
  pairIndex (indexOf (d % 10 % 5 * 2 + eb) 10) (indexOf eb 12)

structure DayView where
  year : Int    -- year pillar index
  month : Int   -- month pillar index
  day : Int     -- day pillar index
deriving Repr

/-- floor(index / 2) as the code computes it: (index as f64 / 2.0).floor() -/
def half (i : Int) : Int := i / 2

/-- the lunar-year adjustment around Lichun (`before` = the day/instant precedes Lichun of civil year Y);
the last branch is the D17 repair (lunar new year in late December) -/
def adjYear (Y ly0 : Int) (before : Bool) : Int :=
  if ly0 = Y then (if before then ly0 - 1 else ly0)
  else if ly0 < Y then (if !before then ly0 + 1 else ly0) else ly0 - 1

/-- month offset from the first month of civil year Y: term index − 3, +24 when negative and the term lies
after Lichun (December terms), then floor(/2) -/
def monthOffset (ti : Int) (afterSpring : Bool) : Int :=
  half (if ti - 3 < 0 ∧ afterSpring = true then ti - 3 + 24 else ti - 3)

/-- `SixtyCycleDay::from_solar_day` for an accepted civil date -/
def ofSolarDay (E : Eph) (Y M D : Int) : Option DayView :=
  if 24 * (Y - 1) + 3 < 0 then none else
  let spring := E.termDay (24 * (Y - 1) + 3).toNat
  if spring = 0 then none else
  match Lunar.ofSolar E Y M D with
  | none => none
  | some (x, k) =>
    let ly := adjYear Y x.y (decide (jdn Y M D < spring))
    if ly < -1 ∨ ly > 9999 then none else   -- LunarYear::next / SixtyCycleYear::from_year
    match Term.ofDay E Y M D with
    | none => none
    | some (g, _) =>
      match Lunar.fromYm E Y 1 with          -- LunarMonth::from_ym(solar_year, 1)
      | none => none
      | some m1 =>
        match lunarMonthPillar m1.y m1.idx with
        | none => none
        | some fm =>
          match dayPillar (Lunar.first E x) k with
          | none => none
          | some dp =>
            some { year := yearPillar ly,
                   month := cycNext fm (monthOffset ((g % 24 : Nat) : Int) (decide (E.termDay g > spring))),
                   day := dp }

structure HourView where
  year : Int
  month : Int
  day : Int
  hour : Int
deriving Repr

/-- `SixtyCycleHour::from_solar_time` for an accepted instant -/
def ofSolarTime (E : Eph) (Y M D h mi s : Int) : Option HourView :=
  if 24 * (Y - 1) + 3 < 0 then none else
  if E.termDay (24 * (Y - 1) + 3).toNat = 0 then none else
  let springSec := E.termSec (24 * (Y - 1) + 3).toNat
  let sec := 86400 * jdn Y M D + 3600 * h + 60 * mi + s
  match Lunar.ofSolar E Y M D with
  | none => none
  | some (x, k) =>
    let ly := adjYear Y x.y (decide (sec < springSec))
    if ly < -1 ∨ ly > 9999 then none else
    match Term.ofTime E Y M D h mi s with
    | none => none
    | some g =>
      match Lunar.fromYm E Y 1 with
      | none => none
      | some m1 =>
        match lunarMonthPillar m1.y m1.idx with
        | none => none
        | some fm =>
          match dayPillar (Lunar.first E x) k with
          | none => none
          | some dp =>
            match hourPillar dp h with
            | none => none
            | some hp =>
              some { year := yearPillar ly,
                     month := cycNext fm (monthOffset ((g % 24 : Nat) : Int) (decide (E.termSec g > springSec))),
                     day := if h = 23 then cycNext dp 1 else dp, hour := hp }

/-- `SixtyCycleYear::get_first_month` -/
def firstMonthPillar (y : Int) : Option Int :=
  pairIndex (indexOf ((yearPillar y % 10 + 1) * 2) 10) 2

end Tyme.SC
