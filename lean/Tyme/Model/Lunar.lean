import Tyme.Model.Jd
import Tyme.Model.Eph
/-
Model of src/tyme/lunar.rs (LunarYear / LunarMonth / LunarDay) and SolarDay::get_lunar_day over an
abstract ephemeris. Mirrors the code after the `fix:` commits D3 (forward walk) and D5 (leap-twin order).
No imports outside Model: linked into the driver.
-/
namespace Tyme.Lunar
open Tyme

/-- a lunar month in canonical form: lunar year and index in year (0-based, listing order) -/
structure Month where
  y : Int
  idx : Nat
deriving DecidableEq, Repr

/-- `LunarMonth::new` / `from_ym` acceptance and index-in-year.
Refused: year outside 0..9999 (`LunarYear::from_year(year)` needs -1..9999 and `from_year(year-1)` refuses -2),
month 0 or |month| > 12, a leap month the year does not have. -/
def fromYm (E : Eph) (y m : Int) : Option Month :=
  if y < 0 ∨ y > 9999 then none
  else if m = 0 ∨ m > 12 ∨ m < -12 then none
  else if m < 0 ∧ m.natAbs ≠ E.leap y then none
  else some ⟨y, m.natAbs - 1 + (if m < 0 ∨ (E.leap y > 0 ∧ m.natAbs > E.leap y) then 1 else 0)⟩

/-- `LunarMonth::get_month_with_leap` recovered from the index -/
def monthWithLeap (E : Eph) (x : Month) : Int :=
  if E.leap x.y = 0 ∨ x.idx < E.leap x.y then (x.idx : Int) + 1
  else if x.idx = E.leap x.y then -((E.leap x.y : Nat) : Int) else (x.idx : Int)

def first (E : Eph) (x : Month) : Int := E.mFirst x.y x.idx
def len (E : Eph) (x : Month) : Int := E.mLen x.y x.idx

/-- forward loop of `LunarMonth::next`: while m > size(y) { m -= size(y); y += 1 }
(`LunarYear::next` refuses beyond 9999) -/
def loopF (E : Eph) : Nat → Int → Int → Option (Int × Int)
  | 0, _, _ => none
  | f+1, m, y =>
    if m > (E.cnt y : Int) then
      (if y + 1 > 9999 then none else loopF E f (m - E.cnt y) (y + 1))
    else some (m, y)

/-- backward loop: while m <= 0 { y -= 1; m += size(y) }  (refuses below -1) -/
def loopB (E : Eph) : Nat → Int → Int → Option (Int × Int)
  | 0, _, _ => none
  | f+1, m, y =>
    if m ≤ 0 then
      (if y - 1 < -1 then none else loopB E f (m + E.cnt (y - 1)) (y - 1))
    else some (m, y)

/-- `LunarMonth::next n` -/
def next (E : Eph) (x : Month) (n : Int) : Option Month :=
  if n = 0 then fromYm E x.y (monthWithLeap E x)
  else
    let m0 : Int := (x.idx : Int) + 1 + n
    match (if n > 0 then loopF E (n.natAbs + 1) m0 x.y else loopB E (n.natAbs + 1) m0 x.y) with
    | none => none
    | some (m, y) =>
      let lp : Int := E.leap y
      let isLeap : Bool := decide (lp > 0 ∧ m = lp + 1)
      let m' : Int := if lp > 0 ∧ m > lp then m - 1 else m
      fromYm E y (if isLeap then -m' else m')

/-- `LunarYear::get_months` (after fix D10): from_ym(y,1) then next(1) month_count − 1 times -/
def yearMonths (E : Eph) (y : Int) : Option (List Month) :=
  if y < 0 ∨ y > 9999 then none
  else some ((List.range (E.cnt y)).map fun i => ⟨y, i⟩)

def yearDayCount (E : Eph) (y : Int) : Option Int :=
  (yearMonths E y).map fun l => (l.map (len E)).foldl (· + ·) 0

/-- `LunarDay::new` -/
def dayNew (E : Eph) (y m d : Int) : Option (Month × Int) :=
  match fromYm E y m with
  | none => none
  | some x => if d < 1 ∨ d > len E x then none else some (x, d)

/-- `LunarDay::get_solar_day` = first_julian_day.next(day-1).get_solar_day() -/
def daySolar (E : Eph) (x : Month) (d : Int) : Option (Int × Int × Int) :=
  let r := ofJdn (first E x + d - 1)
  if solarDayOk r.1 r.2.1 r.2.2 then some r else none

def walkBack (E : Eph) : Nat → Month → Int → Option (Month × Int)
  | 0, _, _ => none
  | f+1, x, days =>
    if days < 0 then
      match next E x (-1) with
      | none => none
      | some x' => walkBack E f x' (days + len E x')
    else some (x, days)

def walkFwd (E : Eph) : Nat → Month → Int → Option (Month × Int)
  | 0, _, _ => none
  | f+1, x, days =>
    if days ≥ len E x then
      match next E x 1 with
      | none => none
      | some x' => walkFwd E f x' (days - len E x)
    else some (x, days)

def WALK_FUEL : Nat := 40

/-- `SolarDay::get_lunar_day` for an accepted civil date: start at lunar month (civil year, civil month),
subtract, walk back, walk forward (D3), then `LunarDay::from_ymd` (refuses day > length) -/
def ofSolar (E : Eph) (Y M D : Int) : Option (Month × Int) :=
  match fromYm E Y M with
  | none => none
  | some x0 =>
    let r0 := ofJdn (first E x0)
    if !solarDayOk r0.1 r0.2.1 r0.2.2 then none   -- m.get_first_julian_day().get_solar_day()
    else
      match walkBack E WALK_FUEL x0 (jdn Y M D - first E x0) with
      | none => none
      | some (x1, d1) =>
        match walkFwd E WALK_FUEL x1 d1 with
        | none => none
        | some (x2, d2) => if d2 + 1 > len E x2 then none else some (x2, d2 + 1)

/-- `LunarDay::is_before` (after D5) on (year, signed month, day) -/
def dayBefore (a b : Int × Int × Int) : Bool :=
  if a.1 ≠ b.1 then decide (a.1 < b.1)
  else if a.2.1 ≠ b.2.1 then
    (if a.2.1.natAbs ≠ b.2.1.natAbs then decide (a.2.1.natAbs < b.2.1.natAbs) else decide (a.2.1 > b.2.1))
  else decide (a.2.2 < b.2.2)

def dayAfter (a b : Int × Int × Int) : Bool :=
  if a.1 ≠ b.1 then decide (a.1 > b.1)
  else if a.2.1 ≠ b.2.1 then
    (if a.2.1.natAbs ≠ b.2.1.natAbs then decide (a.2.1.natAbs > b.2.1.natAbs) else decide (a.2.1 < b.2.1))
  else decide (a.2.2 > b.2.2)

end Tyme.Lunar
