import Tyme.Model.Jd
import Tyme.Model.Clock
import Tyme.Model.SixtyCycle
/-
Model of the list-returning accessors (C13):
  solar.rs      SolarYear::get_months / get_seasons / get_half_years, SolarHalfYear::get_months / get_seasons,
                SolarSeason::get_months, SolarMonth::get_season, SolarMonth::get_days (AFTER fixes/C13-solar-month-days-1582.diff)
  lunar.rs      LunarYear::get_months (AFTER fixes/C13-lunar-year-months-9999.diff), LunarMonth::get_days, LunarDay::get_hours
  sixtycycle.rs SixtyCycleYear::get_first_month / get_months, SixtyCycleMonth::next / from_index / get_first_day / get_days,
                SixtyCycleDay::get_hours
Every list is built the way the code builds it: a loop that pushes values whose constructor may panic; the whole call is
refused (`none`) as soon as one constructor refuses. No imports outside Model/Spec: linked into the driver.
-/
namespace Tyme.Cont
open Tyme

/-- a `Vec` filled by pushing constructed values: refused if any constructor refuses -/
def collect {α : Type} : List (Option α) → Option (List α)
  | [] => some []
  | none :: _ => none
  | some a :: t => match collect t with
    | none => none
    | some l => some (a :: l)

/-- the Rust range `a..b` -/
def rangeI (a b : Int) : List Int := (List.range (b - a).toNat).map fun (k : Nat) => a + (k : Int)

/-! ### civil containers -/

/-- `SolarYear::new` -/
def yearOk (y : Int) : Bool := decide (1 ≤ y ∧ y ≤ 9999)
/-- `SolarMonth::new` -/
def monthNew (y m : Int) : Option (Int × Int) := if yearOk y && decide (1 ≤ m ∧ m ≤ 12) then some (y, m) else none
/-- `SolarSeason::new` (index is a usize: a negative value cannot be passed) -/
def seasonNew (y i : Int) : Option (Int × Int) := if yearOk y && decide (0 ≤ i ∧ i ≤ 3) then some (y, i) else none
/-- `SolarHalfYear::new` -/
def halfNew (y i : Int) : Option (Int × Int) := if yearOk y && decide (0 ≤ i ∧ i ≤ 1) then some (y, i) else none
/-- `SolarDay::new` -/
def dayNew (y m d : Int) : Option (Int × Int × Int) := if solarDayOk y m d then some (y, m, d) else none

/-- `SolarYear::get_months`: for i in 1..13 { push(SolarMonth::from_ym(year, i)) } -/
def yearMonths (y : Int) : Option (List (Int × Int)) :=
  if !yearOk y then none else collect ((rangeI 1 13).map fun i => monthNew y i)
/-- `SolarYear::get_seasons`: for i in 0..4 -/
def yearSeasons (y : Int) : Option (List (Int × Int)) :=
  if !yearOk y then none else collect ((rangeI 0 4).map fun i => seasonNew y i)
/-- `SolarYear::get_half_years`: for i in 0..2 -/
def yearHalves (y : Int) : Option (List (Int × Int)) :=
  if !yearOk y then none else collect ((rangeI 0 2).map fun i => halfNew y i)
/-- `SolarHalfYear::get_months`: for i in 1..7 { from_ym(y, index * 6 + i) } -/
def halfMonths (y i : Int) : Option (List (Int × Int)) :=
  match halfNew y i with
  | none => none
  | some _ => collect ((rangeI 1 7).map fun k => monthNew y (i * 6 + k))
/-- `SolarHalfYear::get_seasons`: for i in 0..2 { from_index(y, index * 2 + i) } -/
def halfSeasons (y i : Int) : Option (List (Int × Int)) :=
  match halfNew y i with
  | none => none
  | some _ => collect ((rangeI 0 2).map fun k => seasonNew y (i * 2 + k))
/-- `SolarSeason::get_months`: for i in 1..4 { from_ym(y, index * 3 + i) } -/
def seasonMonths (y i : Int) : Option (List (Int × Int)) :=
  match seasonNew y i with
  | none => none
  | some _ => collect ((rangeI 1 4).map fun k => monthNew y (i * 3 + k))
/-- `SolarMonth::get_season`: from_index(year, (month - 1) / 3) -/
def monthSeason (y m : Int) : Option (Int × Int) :=
  match monthNew y m with
  | none => none
  | some _ => seasonNew y ((m - 1) / 3)

/-- day number of list position i (1-based) — the D9 repair: the 21 days of October 1582 are numbered 1..4, 15..31 -/
def dayOfPos (y m i : Int) : Int := if y = 1582 ∧ m = 10 ∧ i > 4 then i + 10 else i

/-- `SolarMonth::get_days`: for i in 1..day_count+1 { push(SolarDay::from_ymd(y, month, day number of position i)) } -/
def monthDays (y m : Int) : Option (List (Int × Int × Int)) :=
  match monthNew y m with
  | none => none
  | some _ => collect ((rangeI 1 (monthLen y m + 1)).map fun i => dayNew y m (dayOfPos y m i))

/-- the year's day lists one after the other (what `get_months().flat_map(get_days)` yields) -/
def yearDays (y : Int) : Option (List (Int × Int × Int)) :=
  match yearMonths y with
  | none => none
  | some ms => (collect (ms.map fun p => monthDays p.1 p.2)).map List.flatten

/-! ### lunar containers (abstract ephemeris) -/

/-- the `for _ in 1..month_count { m = m.next(1); push(m) }` part of `LunarYear::get_months` -/
def stepMonths (E : Eph) : Nat → Lunar.Month → Option (List Lunar.Month)
  | 0, _ => some []
  | n + 1, x =>
    match Lunar.next E x 1 with
    | none => none
    | some x' =>
      match stepMonths E n x' with
      | none => none
      | some l => some (x' :: l)

/-- `LunarYear::get_months` (after the D10 repair: exactly month_count months, never constructs a month of year 10000).
`LunarYear::new` accepts −1..9999; `LunarMonth::from_ym(−1, 1)` refuses. -/
def lunarYearMonths (E : Eph) (y : Int) : Option (List Lunar.Month) :=
  if y < -1 ∨ y > 9999 then none else
  match Lunar.fromYm E y 1 with
  | none => none
  | some x =>
    match stepMonths E (E.cnt y - 1) x with
    | none => none
    | some l => some (x :: l)

/-- `LunarMonth::get_days`: for i in 0..day_count { push(LunarDay::from_ymd(year, month_with_leap, i + 1)) } -/
def lunarMonthDays (E : Eph) (x : Lunar.Month) : Option (List (Lunar.Month × Int)) :=
  collect ((rangeI 0 (Lunar.len E x)).map fun i => Lunar.dayNew E x.y (Lunar.monthWithLeap E x) (i + 1))

/-- a `LunarHour`: lunar day, hour, minute, second -/
structure LHour where
  month : Lunar.Month
  day : Int
  h : Int
  mi : Int
  s : Int
deriving DecidableEq, Repr

/-- `LunarHour::new` -/
def lunarHourNew (E : Eph) (y m d h mi s : Int) : Option LHour :=
  if h < 0 ∨ h > 23 ∨ mi < 0 ∨ mi > 59 ∨ s < 0 ∨ s > 59 then none
  else match Lunar.dayNew E y m d with
    | none => none
    | some ld => some ⟨ld.1, ld.2, h, mi, s⟩

/-- `LunarHour::get_index_in_day` -/
def LHour.indexInDay (x : LHour) : Int := (x.h + 1) / 2

/-- the Rust iterator `(a..b).step_by(s)` -/
def stepBy (a b s : Nat) : List Int := (List.range ((b - a + s - 1) / s)).map fun k => ((a + s * k : Nat) : Int)

/-- `LunarDay::get_hours`: push(hour 0); for i in (0..24).step_by(2) { push(hour i + 1) } -/
def lunarDayHours (E : Eph) (x : Lunar.Month) (d : Int) : Option (List LHour) :=
  let y := x.y
  let m := Lunar.monthWithLeap E x
  collect (lunarHourNew E y m d 0 0 0 :: (stepBy 0 24 2).map fun i => lunarHourNew E y m d (i + 1) 0 0)

/-! ### sexagenary containers -/

/-- `SixtyCycleHour::from_solar_time` on a `Time` -/
def viewOfTime (E : Eph) (t : Time) : Option SC.HourView := SC.ofSolarTime E t.day.1 t.day.2.1 t.day.2.2 t.h t.mi t.s

/-- `for _ in 0..n { h = h.next(step); push(h) }` with `SixtyCycleHour::next(n) = from_solar_time(solar_time.next(n))`
(the code's step is the literal 7200; it is a parameter here only so that the recursion unfolds cheaply in proofs) -/
def hoursLoop (E : Eph) (step : Int) : Nat → Time → Option (List (Time × SC.HourView))
  | 0, _ => some []
  | n + 1, t =>
    match timeNext t step with
    | none => none
    | some t' =>
      match viewOfTime E t' with
      | none => none
      | some v =>
        match hoursLoop E step n t' with
        | none => none
        | some l => some ((t', v) :: l)

/-- `SixtyCycleDay::get_hours` of the sexagenary day of civil date (Y, M, D): 23:00 of the previous civil day
(`solar_day.next(-1)`, refused for 0001-01-01), then eleven steps of 7200 s -/
def scdHours (E : Eph) (Y M D : Int) : Option (List (Time × SC.HourView)) :=
  match SC.ofSolarDay E Y M D with       -- the SixtyCycleDay itself (from_solar_day)
  | none => none
  | some _ =>
    match dayNext (Y, M, D) (-1) with
    | none => none
    | some p =>
      match mkTime? p 23 0 0 with
      | none => none
      | some t0 =>
        match viewOfTime E t0 with
        | none => none
        | some v0 =>
          match hoursLoop E 7200 11 t0 with
          | none => none
          | some l => some ((t0, v0) :: l)

/-- a `SixtyCycleMonth`: the year number of its `SixtyCycleYear` and the index of its month pillar -/
structure SCMonth where
  year : Int
  pillar : Int
deriving DecidableEq, Repr

/-- `SixtyCycleYear::new` -/
def scYearOk (y : Int) : Bool := decide (-1 ≤ y ∧ y ≤ 9999)

/-- `SixtyCycleMonth::get_index_in_year` = month.get_earth_branch().next(-2).get_index() -/
def scmIndexInYear (p : Int) : Int := SC.indexOf (p % 12 - 2) 12

/-- `SixtyCycleYear::get_first_month` -/
def scyFirstMonth (y : Int) : Option SCMonth :=
  if !scYearOk y then none else
  match SC.firstMonthPillar y with
  | none => none
  | some p => some ⟨y, p⟩

/-- `SixtyCycleMonth::next`: year = (year * 12 + index_in_year + n).div_euclid(12) (floor carry, after the C11 `fix:` commit),
pillar + n -/
def scmNext (x : SCMonth) (n : Int) : Option SCMonth :=
  let y := (x.year * 12 + scmIndexInYear x.pillar + n) / 12
  if scYearOk y then some ⟨y, SC.cycNext x.pillar n⟩ else none

/-- `SixtyCycleYear::get_months`: first month, then for i in 1..12 { push(first.next(i)) } -/
def scyMonths (y : Int) : Option (List SCMonth) :=
  match scyFirstMonth y with
  | none => none
  | some m =>
    match collect ((rangeI 1 12).map fun i => scmNext m i) with
    | none => none
    | some l => some (m :: l)

/-- `SixtyCycleMonth::from_index` -/
def scmFromIndex (y idx : Int) : Option SCMonth :=
  match scyFirstMonth y with
  | none => none
  | some m => scmNext m idx

/-- global index of the Jie that starts the month: `SolarTerm::from_index(year, 3 + index_in_year * 2)` -/
def scmJie (x : SCMonth) : Int := 24 * (x.year - 1) + 3 + 2 * scmIndexInYear x.pillar

/-- civil day of the month's Jie: `….get_julian_day().get_solar_day()` (refused when the instant is not representable) -/
def scmFirstDay (E : Eph) (x : SCMonth) : Option (Int × Int × Int) :=
  if scmJie x < 0 ∨ scmJie x ≥ 240000 then none
  else if E.termDay (scmJie x).toNat = 0 then none
  else
    let r := ofJdn (E.termDay (scmJie x).toNat)
    if solarDayOk r.1 r.2.1 r.2.2 then some r else none

/-- the loop condition `d.get_sixty_cycle_month() == *self`: `PartialEq for SixtyCycleMonth` compares `to_string()`,
i.e. "<year pillar name>年<month pillar name>月" — equal exactly when the year PILLARS (not the year numbers) and the
month pillars are equal (the sixty names are pairwise different: C11). -/
def scmSame (x : SCMonth) (v : SC.DayView) : Bool := v.year == SC.yearPillar x.year && v.month == x.pillar

/-- `while d.get_sixty_cycle_month() == *self { push(d); d = d.next(1) }` from civil day `d`;
`SixtyCycleDay::next(1) = from_solar_day(solar_day.next(1))`. The fuel only makes the function total: the loop
advances one civil day per round and is refused after 9999-12-31, so `scmFuel` rounds are never used up
(`C13_scm_fuel`). `next1` is `SolarDay::next(1)`, passed as a parameter only so that the recursion unfolds cheaply in proofs. -/
def scmDaysLoop (E : Eph) (x : SCMonth) (next1 : Int × Int × Int → Option (Int × Int × Int)) :
    Nat → Int × Int × Int → Option (List (Int × Int × Int))
  | 0, _ => none
  | f + 1, d =>
    match SC.ofSolarDay E d.1 d.2.1 d.2.2 with
    | none => none
    | some v =>
      if scmSame x v then
        match next1 d with
        | none => none
        | some d' =>
          match scmDaysLoop E x next1 f d' with
          | none => none
          | some l => some (d :: l)
      else some []

/-- more rounds than there are civil days in 0001..9999 -/
def scmFuel : Nat := 3652062

/-- `SixtyCycleMonth::get_days` -/
def scmDays (E : Eph) (x : SCMonth) : Option (List (Int × Int × Int)) :=
  match scmFirstDay E x with
  | none => none
  | some d => scmDaysLoop E x (fun a => dayNext a 1) scmFuel d

end Tyme.Cont
