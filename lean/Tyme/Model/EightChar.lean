import Tyme.Model.SixtyCycle
/-
Model of the eight characters (default provider: the four pillars of SixtyCycleHour) and of the inverse search
EightChar::get_solar_times (src/tyme/eightchar/mod.rs:93-150, after the `fix:` commits D7 and D20).
-/
namespace Tyme.EC
open Tyme SC

structure EightChar where
  year : Int
  month : Int
  day : Int
  hour : Int
deriving DecidableEq, Repr

abbrev Time := Int × Int × Int × Int × Int × Int   -- y m d h mi s

/-- `LunarHour::get_eight_char` with the default provider = pillars of `SixtyCycleHour::from_solar_time` -/
def ofTime (E : Eph) (t : Time) : Option EightChar :=
  (ofSolarTime E t.1 t.2.1 t.2.2.1 t.2.2.2.1 t.2.2.2.2.1 t.2.2.2.2.2).map fun v => ⟨v.year, v.month, v.day, v.hour⟩

/-- The route `SolarTime::get_lunar_hour().get_eight_char()` literally: the instant's civil date is converted to its lunar
date and BACK (`LunarHour::get_solar_time` → `LunarDay::get_solar_day`), and the pillars are those of the instant on the
date that comes back. Wherever the lunar round trip is the identity (C02: every date outside the D4 junction windows) this
is `ofTime`; inside those windows the date that comes back is one lunation off and the code's answer follows it. -/
def ofTimeViaLunar (E : Eph) (t : Time) : Option EightChar :=
  match Lunar.ofSolar E t.1 t.2.1 t.2.2.1 with
  | none => none
  | some (x, k) =>
    match Lunar.daySolar E x k with
    | none => none
    | some sd => ofTime E (sd.1, sd.2.1, sd.2.2, t.2.2.2.1, t.2.2.2.2.1, t.2.2.2.2.2)

def ceilDiv60 (a : Int) : Int := (a + 59) / 60     -- ((a as f64) / 60.0).ceil() for a > 0

/-- candidate instants for one 60-year step y: `none` = the code panics -/
def candidatesAt (E : Eph) (ec : EightChar) (m : Int) (hours : List Int) (y0 y : Int) : Option (List Time) :=
  let g : Int := 24 * (y - 1) + 3 + (if m > 0 then m else 0)
  if g < 0 then none else           -- SolarTerm of a year ≤ 0: its instant is not representable
  let td := E.termDay g.toNat
  if td = 0 then none else
  let sod := E.termSod g.toNat
  let tdate := ofJdn td
  if tdate.1 ≥ y0 - 1 then
    match Lunar.ofSolar E tdate.1 tdate.2.1 tdate.2.2 with
    | none => none
    | some (x, k) =>
      match dayPillar (Lunar.first E x) k with
      | none => none
      | some p =>
        let d := cycNext ec.day (-p)
        match (if d > 0 then dayNext tdate d else some tdate) with
        | none => none
        | some day =>
          some (hours.map fun hour =>
            if d = 0 ∧ hour = sod / 3600 then (day.1, day.2.1, day.2.2, hour, sod % 3600 / 60, sod % 60)
            else (day.1, day.2.1, day.2.2, hour, 0, 0))
  else some []

def loopYears (E : Eph) (ec : EightChar) (m : Int) (hours : List Int) (y0 y1 : Int) : Nat → Int → Option (List Time)
  | 0, _ => some []
  | f+1, y =>
    if y ≤ y1 then
      match candidatesAt E ec m hours y0 y with
      | none => none
      | some l =>
        match loopYears E ec m hours y0 y1 f (y + 60) with
        | none => none
        | some r => some (l ++ r)
    else some []

/-- all candidates the search verifies, in order -/
def candidates (E : Eph) (ec : EightChar) (y0 y1 : Int) : Option (List Time) :=
  let m := indexOf (ec.month % 12 - 2) 12
  if indexOf ((ec.year % 10 + 1) * 2 + m) 10 ≠ ec.month % 10 then some [] else
  let ys := cycNext ec.year (-57) + 1
  let h := ec.hour % 12 * 2
  let hours : List Int := if h = 0 then [0, 23] else [h]
  let base := y0 - 1
  let ystart := if base > ys then ys + 60 * ceilDiv60 (base - ys) else ys
  loopYears E ec (m * 2) hours y0 y1 ((y1 - ystart) / 60 + 2).toNat ystart

/-- the verification step: candidate in range and its eight characters equal the wanted ones
(a candidate whose own conversion panics makes the whole call panic) -/
def verify (E : Eph) (ec : EightChar) (y0 : Int) (t : Time) : Option Bool :=
  if t.1 ≥ y0 then (ofTime E t).map fun e => decide (e = ec) else some false

def filterM' (f : Time → Option Bool) : List Time → Option (List Time)
  | [] => some []
  | t :: ts =>
    match f t with
    | none => none
    | some b =>
      match filterM' f ts with
      | none => none
      | some r => some (if b then t :: r else r)

/-- `EightChar::get_solar_times(start_year, end_year)` -/
def solarTimes (E : Eph) (ec : EightChar) (y0 y1 : Int) : Option (List Time) :=
  match candidates E ec y0 y1 with
  | none => none
  | some l => filterM' (verify E ec y0) l

end Tyme.EC
