import Tyme.Spec.Classical
/-
Model of the attribute getters of tyme4rs (sixtycycle.rs, culture/mod.rs, culture/fetus.rs, culture/star/*.rs,
culture/ren/minor.rs, solar.rs get_constellation, eightchar/mod.rs signs): the literal arrays and the index
arithmetic AS THE CODE HAS THEM.  `isize` arithmetic is `Int`; `LoopTyme::from_index` is `indexOf` (truncating
remainder, then `+ n` if negative), written literally.

NOTE (D23): `ownSign` / `bodySign` mirror the REPAIRED code (fixes/C19-own-body-sign.diff); the unrepaired
formulas are kept as `ownSignOld` / `bodySignOld` for the record.
-/
namespace Tyme.Attr
open Tyme.Classical (Fam optI natsI charsI)

/-- `AbstractCulture::index_of`: `i = index % n` (truncating); `if i < 0 { i += n }` -/
def indexOf (index : Int) (n : Nat) : Nat :=
  let i := Int.tmod index n
  (if i < 0 then i + n else i).toNat

def arr (l : List Int) (i : Nat) : Int := (l[i]?).getD 0

-- HeavenStem
def stemElement (s : Nat) : Nat := indexOf ((s / 2 : Nat) : Int) 5
def stemYinYang (s : Nat) : Nat := if s % 2 == 0 then 1 else 0          -- YANG = 1, YIN = 0
def elementDirection (e : Nat) : Nat := indexOf (arr [2, 8, 4, 6, 0] e) 9
def stemDirection (s : Nat) : Nat := elementDirection (stemElement s)
def stemJoy (s : Nat) : Nat := indexOf (arr [7, 5, 1, 8, 3] (s % 5)) 9
def stemYang (s : Nat) : Nat := indexOf (arr [1, 1, 6, 5, 7, 0, 8, 7, 2, 3] s) 9
def stemYin (s : Nat) : Nat := indexOf (arr [7, 0, 5, 6, 1, 1, 7, 8, 3, 2] s) 9
def stemWealth (s : Nat) : Nat := indexOf (arr [7, 1, 0, 2, 8] (s / 2)) 9
def stemMascot (s : Nat) : Nat := indexOf (arr [3, 3, 2, 2, 0, 8, 1, 1, 5, 6] s) 9
def stemTerrain (s b : Nat) : Nat :=
  let eb : Int := if stemYinYang s == 0 then -(b : Int) else (b : Int)
  indexOf (arr [1, 6, 10, 9, 10, 9, 7, 0, 4, 3] s + eb) 12
def stemTenStar (s t : Nat) : Nat :=
  let offset : Int := (t : Int) - (s : Int)
  let offset := if s % 2 != 0 && t % 2 == 0 then offset + 2 else offset
  indexOf offset 10
def stemCombine (s : Nat) : Nat := indexOf ((s : Int) + 5) 10
def stemCombine2 (s t : Nat) : Option Nat := if stemCombine s == t then some (indexOf ((s : Int) + 2) 5) else none

-- EarthBranch
def branchElement (b : Nat) : Nat := indexOf (arr [4, 2, 0, 0, 2, 1, 1, 2, 3, 3, 2, 4] b) 5
def branchYinYang (b : Nat) : Nat := if b % 2 == 0 then 1 else 0
def hideMain (b : Nat) : Nat := indexOf (arr [9, 5, 0, 1, 4, 2, 3, 5, 6, 7, 4, 8] b) 10
def optStem (n : Int) : Option Nat := if n == -1 then none else some (indexOf n 10)
def hideMiddle (b : Nat) : Option Nat := optStem (arr [-1, 9, 2, -1, 1, 6, 5, 3, 8, -1, 7, 0] b)
def hideResidual (b : Nat) : Option Nat := optStem (arr [-1, 7, 4, -1, 9, 4, -1, 1, 4, -1, 3, -1] b)
/-- get_hide_heaven_stems: (stem, type) with MAIN = 2, MIDDLE = 1, RESIDUAL = 0 -/
def hideList (b : Nat) : List Nat :=
  [hideMain b, 2] ++ (match hideMiddle b with | some x => [x, 1] | none => [])
                  ++ (match hideResidual b with | some x => [x, 0] | none => [])
def branchZodiac (b : Nat) : Nat := indexOf (b : Int) 12
def branchDirection (b : Nat) : Nat := indexOf (arr [0, 4, 2, 2, 4, 8, 8, 4, 6, 6, 4, 0] b) 9
def branchOpposite (b : Nat) : Nat := indexOf ((b : Int) + 6) 12
def branchOminous (b : Nat) : Nat := indexOf (arr [8, 2, 0, 6] (b % 4)) 9
def branchCombine (b : Nat) : Nat := indexOf (1 - (b : Int)) 12
def branchCombine2 (b c : Nat) : Option Nat :=
  if branchCombine b == c then some (indexOf (arr [2, 2, 0, 1, 3, 4, 2, 2, 4, 3, 1, 0] b) 5) else none
def branchHarm (b : Nat) : Nat := indexOf (19 - (b : Int)) 12

-- SixtyCycle
def cycleStem (p : Nat) : Nat := indexOf ((p % 10 : Nat) : Int) 10
def cycleBranch (p : Nat) : Nat := indexOf ((p % 12 : Nat) : Int) 12
def cycleSound (p : Nat) : Nat := indexOf ((p / 2 : Nat) : Int) 30
/-- element index of the last character of SOUND_NAMES[i] (金3 火1 木0 土2 水4) -/
def soundElement (i : Nat) : Nat :=
  (arr [3, 1, 0, 2, 3, 1, 4, 2, 3, 0, 4, 2, 1, 0, 4, 3, 1, 0, 2, 3, 1, 4, 2, 3, 0, 4, 2, 1, 0, 4] i).toNat
def cycleTen (p : Nat) : Nat := indexOf (Int.tdiv ((cycleStem p : Int) - (cycleBranch p : Int)) 2) 6
def cycleExtra (p : Nat) : List Nat :=
  let e := indexOf (10 + (cycleBranch p : Int) - (cycleStem p : Int)) 12
  [e, indexOf ((e : Int) + 1) 12]

-- Element, Direction, Land, Zone
def elementNext (e : Nat) (n : Int) : Nat := indexOf ((e : Int) + n) 5
def directionElement (d : Nat) : Nat := indexOf (arr [4, 2, 0, 0, 2, 3, 3, 2, 1] d) 5
def landDirection (l : Nat) : Nat := indexOf (l : Int) 9
/-- Zone::get_direction goes through the NAME: 东→2 北→0 西→6 南→8 in DIRECTION_NAMES -/
def zoneDirection (z : Nat) : Nat := (arr [2, 0, 6, 8] z).toNat

-- stars
def mansionSeven (i : Nat) : Nat := indexOf (((i % 7 : Nat) : Int) + 4) 7
def mansionLand (i : Nat) : Nat :=
  indexOf (arr [4, 4, 4, 2, 2, 2, 7, 7, 7, 0, 0, 0, 0, 5, 5, 5, 6, 6, 6, 1, 1, 1, 8, 8, 8, 3, 3, 3] i) 9
def mansionZone (i : Nat) : Nat := indexOf ((i / 7 : Nat) : Int) 4
def mansionLuck (i : Nat) : Nat :=
  indexOf (arr [0, 1, 1, 0, 1, 0, 0, 0, 1, 1, 1, 1, 0, 0, 1, 0, 0, 1, 0, 1, 0, 0, 1, 1, 1, 0, 1, 0] i) 2
def nineStarElement (i : Nat) : Nat := indexOf (arr [4, 2, 0, 0, 2, 3, 3, 2, 1] i) 5
def nineStarColor (i : Nat) : List Char := [(['白', '黑', '碧', '绿', '黄', '白', '赤', '白', '紫'] : List Char)[i]?.getD ' ']
def twelveEcliptic (i : Nat) : Nat := indexOf (arr [0, 0, 1, 1, 0, 0, 1, 0, 1, 1, 0, 1] i) 2
def minorRenLuck (i : Nat) : Nat := indexOf ((i % 2 : Nat) : Int) 2
def minorRenElement (i : Nat) : Nat := indexOf (arr [0, 4, 1, 3, 0, 2] i) 5

-- foetus spirit
def fetusDayRaw (p : Nat) : Int :=
  arr [3, 3, 8, 8, 8, 8, 8, 1, 1, 1, 1, 1, 1, 6, 6, 6, 6, 6, 5, 5, 5, 5, 5, 5, 0, 0, 0, 0, 0, -9, -9, -9, -9, -9, -5, -5,
       -1, -1, -1, -3, -7, -7, -7, -7, -5, 7, 7, 7, 7, 7, 7, 2, 2, 2, 2, 2, 3, 3, 3, 3] p
def fetusDay (p : Nat) : List Nat :=
  [indexOf ((cycleStem p : Int).tmod 5) 5, indexOf ((cycleBranch p : Int).tmod 6) 6,
   (if fetusDayRaw p < 0 then 0 else 1), indexOf (fetusDayRaw p) 9]
def fetusMonth (m : Nat) (leap : Bool) : Option Nat := if leap then none else some (indexOf ((m : Int) - 1) 12)

-- SolarDay::get_constellation
def constellation (m d : Nat) : Nat :=
  let y := m * 100 + d
  let index : Int :=
    if y > 1221 || y < 120 then 9 else if y < 219 then 10 else if y < 321 then 11 else if y < 420 then 0
    else if y < 521 then 1 else if y < 622 then 2 else if y < 723 then 3 else if y < 823 then 4
    else if y < 923 then 5 else if y < 1024 then 6 else if y < 1123 then 7 else 8
  indexOf index 12

-- SixtyCycle::from_name(stem name + branch name): the pillar with these parts; a pair of unequal parity has no name ⇒ panic
-- (the library searches the sixty names linearly; `pillarNamedSlow` is that search, `pillarNamed` looks only at the six
--  pillars that have stem `s` — equal for all stems and branches by `C19_pillar_search`; the kernel needs the fast one)
def pillarNamedSlow (s b : Nat) : Option Nat := (List.range 60).find? (fun p => p % 10 == s && p % 12 == b)
def pillarNamed (s b : Nat) : Option Nat := ((List.range 6).map (fun k => s + 10 * k)).find? (fun p => p % 12 == b)

def fetalOrigin (mp : Nat) : Option Nat := pillarNamed (indexOf ((cycleStem mp : Int) + 1) 10) (indexOf ((cycleBranch mp : Int) + 3) 12)
def fetalBreath (dp : Nat) : Option Nat := pillarNamed (indexOf ((cycleStem dp : Int) + 5) 10) (indexOf (13 - (cycleBranch dp : Int)) 12)

/-- get_own_sign after the repair: month and hour counted 寅=1 … 丑=12 -/
def ownSign (ys mb hb : Nat) : Option Nat :=
  let m : Int := (mb : Int) - 1
  let m := if m < 1 then m + 12 else m
  let h : Int := (hb : Int) - 1
  let h := if h < 1 then h + 12 else h
  let offset := m + h
  let offset := (if offset ≥ 14 then 26 else 14) - offset
  let offset := offset - 1
  pillarNamed (indexOf (((ys : Int) + 1) * 2 + offset) 10) (indexOf (2 + offset) 12)

/-- get_body_sign after the repair -/
def bodySign (ys mb hb : Nat) : Option Nat :=
  let offset : Int := (mb : Int) - 1
  let offset := if offset < 1 then offset + 12 else offset
  let offset := offset + (hb : Int) + 1
  let offset := if offset > 12 then offset - 12 else offset
  let offset := offset - 1
  pillarNamed (indexOf (((ys : Int) + 1) * 2 + offset) 10) (indexOf (2 + offset) 12)

/-- get_own_sign as it was at 3b842a4 (`next(-1).get_index()` makes 丑 count 0 instead of 12) -/
def ownSignOld (ys mb hb : Nat) : Option Nat :=
  let offset : Int := (indexOf ((mb : Int) - 1) 12 : Int) + (indexOf ((hb : Int) - 1) 12 : Int)
  let offset := (if offset ≥ 14 then 26 else 14) - offset
  let offset := offset - 1
  pillarNamed (indexOf (((ys : Int) + 1) * 2 + offset) 10) (indexOf (2 + offset) 12)

/-- get_body_sign as it was at 3b842a4 (truncating `%`: 子 month with 子 hour gives −1) -/
def bodySignOld (ys mb hb : Nat) : Option Nat :=
  let offset : Int := Int.tmod ((mb : Int) + (hb : Int) - 1) 12
  pillarNamed (indexOf (((ys : Int) + 1) * 2 + offset) 10) (indexOf (2 + offset) 12)

-- name tables (the Rust string arrays as code points)
def soundNames : List (List Char) :=
  [['海','中','金'], ['炉','中','火'], ['大','林','木'], ['路','旁','土'], ['剑','锋','金'], ['山','头','火'], ['涧','下','水'], ['城','头','土'], ['白','蜡','金'], ['杨','柳','木'],
   ['泉','中','水'], ['屋','上','土'], ['霹','雳','火'], ['松','柏','木'], ['长','流','水'], ['沙','中','金'], ['山','下','火'], ['平','地','木'], ['壁','上','土'], ['金','箔','金'],
   ['覆','灯','火'], ['天','河','水'], ['大','驿','土'], ['钗','钏','金'], ['桑','柘','木'], ['大','溪','水'], ['沙','中','土'], ['天','上','火'], ['石','榴','木'], ['大','海','水']]
def fetusMonthNames : List (List Char) :=
  [['占','房','床'], ['占','户','窗'], ['占','门','堂'], ['占','厨','灶'], ['占','房','床'], ['占','床','仓'], ['占','碓','磨'], ['占','厕','户'], ['占','门','房'], ['占','房','床'], ['占','灶','炉'], ['占','房','床']]
def fetusStemNames : List (List Char) := [['门'], ['碓','磨'], ['厨','灶'], ['仓','库'], ['房','床']]
def fetusBranchNames : List (List Char) := [['碓'], ['厕'], ['炉'], ['门'], ['栖'], ['床']]

/-- the public name arrays of the library by type number (see harness p19.rs `name_of`); 24 = SIXTY_CYCLE_NAMES -/
def nameTables : List (List (List Char)) :=
  [
   -- 0 stem
   [['甲'], ['乙'], ['丙'], ['丁'], ['戊'], ['己'], ['庚'], ['辛'], ['壬'], ['癸']],
   -- 1 branch
   [['子'], ['丑'], ['寅'], ['卯'], ['辰'], ['巳'], ['午'], ['未'], ['申'], ['酉'], ['戌'], ['亥']],
   -- 2 element
   [['木'], ['火'], ['土'], ['金'], ['水']],
   -- 3 direction
   [['北'], ['西','南'], ['东'], ['东','南'], ['中'], ['西','北'], ['西'], ['东','北'], ['南']],
   -- 4 zodiac
   [['鼠'], ['牛'], ['虎'], ['兔'], ['龙'], ['蛇'], ['马'], ['羊'], ['猴'], ['鸡'], ['狗'], ['猪']],
   -- 5 terrain
   [['长','生'], ['沐','浴'], ['冠','带'], ['临','官'], ['帝','旺'], ['衰'], ['病'], ['死'], ['墓'], ['绝'], ['胎'], ['养']],
   -- 6 tenstar
   [['比','肩'], ['劫','财'], ['食','神'], ['伤','官'], ['偏','财'], ['正','财'], ['七','杀'], ['正','官'], ['偏','印'], ['正','印']],
   -- 7 ten
   [['甲','子'], ['甲','戌'], ['甲','申'], ['甲','午'], ['甲','辰'], ['甲','寅']],
   -- 8 sevenstar
   [['日'], ['月'], ['火'], ['水'], ['木'], ['金'], ['土']],
   -- 9 land
   [['玄','天'], ['朱','天'], ['苍','天'], ['阳','天'], ['钧','天'], ['幽','天'], ['颢','天'], ['变','天'], ['炎','天']],
   -- 10 zone
   [['东'], ['北'], ['西'], ['南']],
   -- 11 beast
   [['青','龙'], ['玄','武'], ['白','虎'], ['朱','雀']],
   -- 12 animal
   [['蛟'], ['龙'], ['貉'], ['兔'], ['狐'], ['虎'], ['豹'], ['獬'], ['牛'], ['蝠'], ['鼠'], ['燕'], ['猪'], ['獝'], ['狼'], ['狗'], ['彘'], ['鸡'], ['乌'], ['猴'], ['猿'
     ], ['犴'], ['羊'], ['獐'], ['马'], ['鹿'], ['蛇'], ['蚓']],
   -- 13 mansion
   [['角'], ['亢'], ['氐'], ['房'], ['心'], ['尾'], ['箕'], ['斗'], ['牛'], ['女'], ['虚'], ['危'], ['室'], ['壁'], ['奎'], ['娄'], ['胃'], ['昴'], ['毕'], ['觜'], ['参'
     ], ['井'], ['鬼'], ['柳'], ['星'], ['张'], ['翼'], ['轸']],
   -- 14 luck
   [['吉'], ['凶']],
   -- 15 constellation
   [['白','羊'], ['金','牛'], ['双','子'], ['巨','蟹'], ['狮','子'], ['处','女'], ['天','秤'], ['天','蝎'], ['射','手'], ['摩','羯'], ['水','瓶'], ['双','鱼']],
   -- 16 minorren
   [['大','安'], ['留','连'], ['速','喜'], ['赤','口'], ['小','吉'], ['空','亡']],
   -- 17 twelvestar
   [['青','龙'], ['明','堂'], ['天','刑'], ['朱','雀'], ['金','匮'], ['天','德'], ['白','虎'], ['玉','堂'], ['天','牢'], ['玄','武'], ['司','命'], ['勾','陈']],
   -- 18 ecliptic
   [['黄','道'], ['黑','道']],
   -- 19 dipper
   [['天','枢'], ['天','璇'], ['天','玑'], ['天','权'], ['玉','衡'], ['开','阳'], ['摇','光'], ['洞','明'], ['隐','元']],
   -- 20 ninestar
   [['一'], ['二'], ['三'], ['四'], ['五'], ['六'], ['七'], ['八'], ['九']],
   -- 21 yinyang
   [['阴'], ['阳']],
   -- 22 side
   [['内'], ['外']],
   -- 23 hidetype
   [['余','气'], ['中','气'], ['本','气']],
   -- 24 sixty cycle
   [['甲','子'], ['乙','丑'], ['丙','寅'], ['丁','卯'], ['戊','辰'], ['己','巳'], ['庚','午'], ['辛','未'], ['壬','申'], ['癸','酉'], ['甲','戌'], ['乙','亥'], ['丙','子'
     ], ['丁','丑'], ['戊','寅'], ['己','卯'], ['庚','辰'], ['辛','巳'], ['壬','午'], ['癸','未'], ['甲','申'], ['乙','酉'], ['丙','戌'], ['丁','亥'], ['戊','子'], ['己','丑'
     ], ['庚','寅'], ['辛','卯'], ['壬','辰'], ['癸','巳'], ['甲','午'], ['乙','未'], ['丙','申'], ['丁','酉'], ['戊','戌'], ['己','亥'], ['庚','子'], ['辛','丑'], ['壬','寅'
     ], ['癸','卯'], ['甲','辰'], ['乙','巳'], ['丙','午'], ['丁','未'], ['戊','申'], ['己','酉'], ['庚','戌'], ['辛','亥'], ['壬','子'], ['癸','丑'], ['甲','寅'], ['乙','卯'
     ], ['丙','辰'], ['丁','巳'], ['戊','午'], ['己','未'], ['庚','申'], ['辛','酉'], ['壬','戌'], ['癸','亥']]
  ]
def nameOf (t i : Nat) : List Char := (nameTables[t]?.getD [])[i]?.getD []

/-- THE MODEL: canonical answer of family `f` at an in-range argument tuple -/
def answer (f : Fam) (a : List Nat) : List Int :=
  match f, a with
  | .stemElement, [s] => natsI [stemElement s]
  | .stemYinYang, [s] => natsI [stemYinYang s]
  | .stemDirection, [s] => natsI [stemDirection s]
  | .stemJoy, [s] => natsI [stemJoy s]
  | .stemYang, [s] => natsI [stemYang s]
  | .stemYin, [s] => natsI [stemYin s]
  | .stemWealth, [s] => natsI [stemWealth s]
  | .stemMascot, [s] => natsI [stemMascot s]
  | .stemTerrain, [s, b] => natsI [stemTerrain s b]
  | .stemTenStar, [s, t] => natsI [stemTenStar s t]
  | .stemCombine, [s] => natsI [stemCombine s]
  | .stemCombine2, [s, t] => [optI (stemCombine2 s t)]
  | .branchElement, [b] => natsI [branchElement b]
  | .branchYinYang, [b] => natsI [branchYinYang b]
  | .branchHide, [b] => [(hideMain b : Int), optI (hideMiddle b), optI (hideResidual b)]
  | .branchHideList, [b] => natsI (hideList b)
  | .branchZodiac, [b] => natsI [branchZodiac b]
  | .branchDirection, [b] => natsI [branchDirection b]
  | .branchOpposite, [b] => natsI [branchOpposite b]
  | .branchOminous, [b] => natsI [branchOminous b]
  | .branchCombine, [b] => natsI [branchCombine b]
  | .branchCombine2, [b, c] => [optI (branchCombine2 b c)]
  | .branchHarm, [b] => natsI [branchHarm b]
  | .cycleParts, [p] => natsI [cycleStem p, cycleBranch p]
  | .cycleSound, [p] => natsI [cycleSound p, soundElement (cycleSound p)]
  | .cycleTen, [p] => natsI [cycleTen p]
  | .cycleExtra, [p] => natsI (cycleExtra p)
  | .cyclePengZu, [p] => natsI [indexOf (cycleStem p : Int) 10, indexOf (cycleBranch p : Int) 12]
  | .elementCycle, [e] => natsI [elementNext e 1, elementNext e 2, elementNext e (-1), elementNext e (-2)]
  | .elementDirection, [e] => natsI [elementDirection e]
  | .directionElement, [d] => natsI [directionElement d]
  | .landDirection, [l] => natsI [landDirection l]
  | .zoneAttr, [z] => natsI [zoneDirection z, indexOf (z : Int) 4]
  | .mansionAttr, [i] => natsI [mansionSeven i, mansionLand i, mansionZone i, indexOf (i : Int) 28, mansionLuck i]
  | .nineStarAttr, [i] => natsI [nineStarElement i, indexOf (i : Int) 9, indexOf (i : Int) 9]
  | .twelveStarEcliptic, [i] => natsI [twelveEcliptic i, indexOf (twelveEcliptic i : Int) 2]
  | .eclipticLuck, [i] => natsI [indexOf (i : Int) 2]
  | .minorRenAttr, [i] => natsI [minorRenLuck i, minorRenElement i]
  | .fetusDay, [p] => natsI (fetusDay p)
  | .fetusMonth, [k] => [optI (if k == 12 then fetusMonth 2 true else fetusMonth (k + 1) false)]
  | .dayConstellation, [m, d] => natsI [constellation (m + 1) (d + 1)]
  | .ecOrigin, [p] => [optI (fetalOrigin p)]
  | .ecBreath, [p] => [optI (fetalBreath p)]
  | .ecOwn, [y, m, h] => [optI (ownSign y m h)]
  | .ecBody, [y, m, h] => [optI (bodySign y m h)]
  | .nameSound, [i] => charsI (soundNames[i]?.getD [])
  | .nameFetusMonth, [i] => charsI (fetusMonthNames[i]?.getD [])
  | .nameFetusStem, [i] => charsI (fetusStemNames[i]?.getD [])
  | .nameFetusBranch, [i] => charsI (fetusBranchNames[i]?.getD [])
  | .nameNineColor, [i] => charsI (nineStarColor i)
  | .nameOf, [t, i] => charsI (nameOf t i)
  | _, _ => []

def table (f : Fam) : List (List Int) := f.args.map (answer f)

end Tyme.Attr
