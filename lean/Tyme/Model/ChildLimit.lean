import Tyme.Model.SixtyCycle
import Tyme.Model.Clock
/-
Model of the child limit and the fortunes (src/tyme/eightchar/mod.rs: ChildLimit::from_solar_time, DecadeFortune,
Fortune; src/tyme/eightchar/provider.rs: AbstractChildLimitProvider::next and the four shipped strategies).
Mirrors the code AS IT IS, including the defect D22 (the day-overflow walk of `next` treats October 1582 as a
month of 21 days numbered 1..21). usize/isize are unbounded integers; every usize here is provably ≥ 0.
Imports only Model/Spec files (linked into the driver).
-/
namespace Tyme.CL
open Tyme

/-- `ChildLimitInfo` counts: years, months, days, hours, minutes -/
structure Counts where
  y : Int
  mo : Int
  d : Int
  h : Int
  mi : Int
deriving DecidableEq, Repr

/-- DefaultChildLimitProvider::get_info (provider.rs:113-134): seconds → counts, 3 days = 1 year -/
def countsDefault (s : Int) : Counts :=
  let year := s / 259200
  let s1 := s % 259200
  let month := s1 / 21600
  let s2 := s1 % 21600
  let day := s2 / 720
  let s3 := s2 % 720
  let hour := s3 / 30
  let s4 := s3 % 30
  ⟨year, month, day, hour, s4 * 2⟩

/-- China95ChildLimitProvider::get_info: whole minutes; years, months, days only -/
def countsChina95 (s : Int) : Counts :=
  let minutes := s / 60
  let year := minutes / 4320
  let m1 := minutes % 4320
  let month := m1 / 360
  let m2 := m1 % 360
  ⟨year, month, m2 / 12, 0, 0⟩

/-- LunarSect2ChildLimitProvider::get_info: whole minutes; 1 minute = 2 hours -/
def countsSect2 (s : Int) : Counts :=
  let minutes := s / 60
  let year := minutes / 4320
  let m1 := minutes % 4320
  let month := m1 / 360
  let m2 := m1 % 360
  let day := m2 / 12
  let m3 := m2 % 12
  ⟨year, month, day, m3 * 2, 0⟩

/-- the double-hour index LunarSect1 uses: `if hour == 23 {11} else {(hour + 1) / 2}` -/
def zhiIndex (h : Int) : Int := if h = 23 then 11 else (h + 1) / 2

/-- LunarSect1ChildLimitProvider::get_info arithmetic on isize (`/` truncates): double-hour difference and
day difference → counts -/
def countsSect1 (startIdx endIdx dayDiff0 : Int) : Counts :=
  let hd0 := endIdx - startIdx
  let hd := if hd0 < 0 then hd0 + 12 else hd0
  let dd := if hd0 < 0 then dayDiff0 - 1 else dayDiff0
  let monthDiff := Int.tdiv (hd * 10) 30
  let month := dd * 4 + monthDiff
  let day := hd * 10 - monthDiff * 30
  let year := Int.tdiv month 12
  ⟨year, month - year * 12, day, 0, 0⟩

/-- `SolarMonth::from_ym(y, m).next(n)` (solar.rs:464-468); `SolarYear::from_year` refuses outside 1..9999 -/
def monthNext (y m n : Int) : Option (Int × Int) :=
  let i := m - 1 + n
  let y' := Int.tdiv (y * 12 + i) 12
  if y' < 1 ∨ y' > 9999 then none else some (y', Term.indexOf i 12 + 1)

/-- the overflow loop of `next`: `while d > dc { d -= dc; sm = sm.next(1); dc = sm.get_day_count(); }`.
The fuel is only a termination device; `walk (d.toNat + 1) d sm` never runs out (lemma `walk_fuel`). -/
def walk : Nat → Int → Int × Int → Option (Int × Int × Int)
  | 0, _, _ => none
  | f+1, d, sm =>
    if d > monthLen sm.1 sm.2 then
      match monthNext sm.1 sm.2 1 with
      | none => none
      | some sm' => walk f (d - monthLen sm.1 sm.2) sm'
    else some (sm.1, sm.2, d)

/-- the second / minute / hour carries of `next` (all operands usize ≥ 0): returns (day, hour, minute, second) -/
def carries (d h mi s : Int) : Int × Int × Int × Int :=
  let mi1 := mi + s / 60
  let h1 := h + mi1 / 60
  (d + h1 / 24, h1 % 24, mi1 % 60, s % 60)

/-- `AbstractChildLimitProvider::next(birth, Y, M, D, H, MI, 0)` (provider.rs:66-96): the end instant -/
def addNext (b : Time) (c : Counts) : Option Time :=
  let k := carries (b.day.2.2 + c.d) (b.h + c.h) (b.mi + c.mi) b.s
  if b.day.1 + c.y < 1 ∨ b.day.1 + c.y > 9999 then none else
  match monthNext (b.day.1 + c.y) b.day.2.1 c.mo with
  | none => none
  | some sm =>
    match walk (k.1.toNat + 1) k.1 sm with
    | none => none
    | some r => mkTime? r k.2.1 k.2.2.1 k.2.2.2

/-- `term.get_julian_day().get_solar_time()` for the term (year, index): the civil instant the library
reports (ephemeris data), refused when not representable -/
def termTime (E : Eph) (t : Int × Int) : Option Time :=
  let g := Term.gidx t
  if g < 0 then none else
  if E.termDay g.toNat = 0 then none else
  let sod := E.termSod g.toNat
  mkTime? (ofJdn (E.termDay g.toNat)) (sod / 3600) (sod % 3600 / 60) (sod % 60)

/-- `SolarTime::get_lunar_hour()` does not panic: the lunar day exists and `LunarDay::from_ymd` accepts it -/
def lunarDayOf (E : Eph) (t : Time) : Option (Lunar.Month × Int) :=
  match Lunar.ofSolar E t.day.1 t.day.2.1 t.day.2.2 with
  | none => none
  | some (x, k) => Lunar.dayNew E x.y (Lunar.monthWithLeap E x) k

/-- the four strategies (0 Default, 1 China95, 2 LunarSect1, 3 LunarSect2): counts from birth and Jie instant -/
def countsOf (E : Eph) (p : Int) (b term : Time) : Option Counts :=
  let s : Int := (timeSub term b).natAbs
  if p = 1 then some (countsChina95 s)
  else if p = 3 then some (countsSect2 s)
  else if p = 2 then
    let en := if timeAfter b term then b else term
    let st := if timeAfter b term then term else b
    -- `end.get_lunar_hour()` is evaluated only when hour ≠ 23
    if en.h ≠ 23 ∧ (lunarDayOf E en).isNone then none
    else if st.h ≠ 23 ∧ (lunarDayOf E st).isNone then none
    else some (countsSect1 (zhiIndex st.h) (zhiIndex en.h) (daySub en.day st.day))
  else some (countsDefault s)

/-- `birth_time.get_lunar_hour().get_eight_char()` with the default eight-char provider:
solar → lunar day → lunar hour → its solar time (lunar → solar) → SixtyCycleHour::from_solar_time -/
def eightChar (E : Eph) (b : Time) : Option SC.HourView :=
  match lunarDayOf E b with
  | none => none
  | some (x, k) =>
    match Lunar.daySolar E x k with
    | none => none
    | some sd =>
      if timeOk sd.1 sd.2.1 sd.2.2 b.h b.mi b.s then SC.ofSolarTime E sd.1 sd.2.1 sd.2.2 b.h b.mi b.s else none

/-- luck runs forward for Yang-year men and Yin-year women (mod.rs:243-246) -/
def forward (yearPillar : Int) (man : Bool) : Bool :=
  let yang : Bool := yearPillar % 10 % 2 == 0
  (yang && man) || (!yang && !man)

/-- the governing Jie (mod.rs:247-253) from the term of the birth instant (global index g) -/
def governing (g : Nat) (fwd : Bool) : Int × Int :=
  let t := Term.ofGidx g
  let t1 := if !Term.isJie t then Term.next t (-1) else t
  if fwd then Term.next t1 2 else t1

structure Limit where
  ec : SC.HourView
  man : Bool
  fwd : Bool
  c : Counts
  start : Time
  stop : Time
deriving Repr

/-- `ChildLimit::from_solar_time(birth, gender)` under strategy p -/
def fromSolarTime (E : Eph) (p : Int) (b : Time) (man : Bool) : Option Limit :=
  match eightChar E b with
  | none => none
  | some ec =>
    let fwd := forward ec.year man
    match Term.ofTime E b.day.1 b.day.2.1 b.day.2.2 b.h b.mi b.s with
    | none => none
    | some g =>
      match termTime E (governing g fwd) with
      | none => none
      | some tt =>
        match countsOf E p b tt with
        | none => none
        | some c =>
          match addNext b c with
          | none => none
          | some e => some ⟨ec, man, fwd, c, b, e⟩

/-- `SixtyCycleYear::from_year` acceptance -/
def scYearOk (y : Int) : Bool := decide (-1 ≤ y ∧ y ≤ 9999)

/-- `ChildLimit::get_end_age` -/
def endAge (l : Limit) : Int :=
  let n := l.stop.day.1 - l.start.day.1
  if n > 1 then n else 1

/-- `DecadeFortune` getters at index k: (start age, end age, pillar, start year) -/
def decStartAge (l : Limit) (k : Int) : Int := l.stop.day.1 - l.start.day.1 + 1 + k * 10
def decEndAge (l : Limit) (k : Int) : Int := decStartAge l k + 9
def decPillar (l : Limit) (k : Int) : Int :=
  let n := k + 1
  SC.cycNext l.ec.month (if l.fwd then n else -n)
def decStartYear (l : Limit) (k : Int) : Option Int :=
  if scYearOk (l.stop.day.1 + k * 10) then some (l.stop.day.1 + k * 10) else none
def decEndYear (l : Limit) (k : Int) : Option Int :=
  match decStartYear l k with
  | none => none
  | some y => if scYearOk (y + 9) then some (y + 9) else none
/-- `DecadeFortune::next` / `Fortune::next`: the index moves by n -/
def stepIndex (k n : Int) : Int := k + n
/-- `DecadeFortune::get_start_fortune` index -/
def decStartFortune (k : Int) : Int := k * 10

/-- `Fortune` getters at index k: age, year, pillar -/
def fortAge (l : Limit) (k : Int) : Int := l.stop.day.1 - l.start.day.1 + 1 + k
def fortYear (l : Limit) (k : Int) : Option Int :=
  if scYearOk (l.stop.day.1 + k) then some (l.stop.day.1 + k) else none
def fortPillar (l : Limit) (k : Int) : Int :=
  let n := fortAge l k
  SC.cycNext l.ec.hour (if l.fwd then n else -n)

end Tyme.CL
