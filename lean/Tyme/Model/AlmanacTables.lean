import Tyme.Model.Almanac
import Tyme.Gen.C18Raw
import Tyme.Gen.C18Ext
import Tyme.Gen.C18Known
/-
The generated data of C18 as the objects the model, the facts and the driver talk about.
`raw*` = lifted from the Rust source text (mechanism T); `ext*` = what the API returns on the complete domain (E).
-/
namespace Tyme.Almanac
open Tyme.Gen

/-- `DAY_GODS` as 12 byte strings -/
def rawDayGods : List (List Nat) := C18Raw.dayGods.map bytesOf
/-- `DAY_TABOO` -/
def rawDayTaboo : List (List Nat) := C18Raw.dayTaboo.map bytesOf
/-- `HOUR_TABOO` -/
def rawHourTaboo : List (List Nat) := C18Raw.hourTaboo.map bytesOf
/-- `GOD_NAMES` (UTF-8) -/
def rawGodNames : List (List Nat) := C18Raw.godNames.map bytesOf
/-- `TABOO_NAMES` (UTF-8) -/
def rawTabooNames : List (List Nat) := C18Raw.tabooNames.map bytesOf

/-- number of entries of `GOD_NAMES` in the source (151 on the pinned tree) -/
def godCount : Nat := C18Raw.godNames.length
/-- number of entries of `TABOO_NAMES` in the source (141) -/
def tabooCount : Nat := C18Raw.tabooNames.length

/-- entry `d` of row `b` of an extension table; `none` = the API call panicked (or no such entry) -/
def extRow (tbl : List (Nat × Nat)) (b d : Nat) : Option (List Nat) :=
  match tbl[b]? with
  | none => none
  | some p => ((unpackLists 60 (bytesOf p))[d]?).join

/-- indices of `God::get_day_gods(month, day)`, month given by its branch -/
def extGods (monthBranch day : Nat) : Option (List Nat) := extRow C18Ext.gods monthBranch day
def extDayRec (monthBranch day : Nat) : Option (List Nat) := extRow C18Ext.dayRec monthBranch day
def extDayAvoid (monthBranch day : Nat) : Option (List Nat) := extRow C18Ext.dayAvoid monthBranch day
/-- indices of `Taboo::get_hour_recommends(day, hour)`, hour given by its branch -/
def extHourRec (day hourBranch : Nat) : Option (List Nat) := extRow C18Ext.hourRec hourBranch day
def extHourAvoid (day hourBranch : Nat) : Option (List Nat) := extRow C18Ext.hourAvoid hourBranch day

/-- luck index the API reports for every spirit (255 = refused) -/
def extLuckTable : List Nat := bytesOf C18Ext.luck
def extGodNames : List (List Nat) := C18Ext.godNames.map bytesOf
def extTabooNames : List (List Nat) := C18Ext.tabooNames.map bytesOf

/-- the 17-byte record (136 bits: New Year day pillar, then 16 numbers, least significant byte first) of entry `i`
= lunar year `i − 1`; 200 records per literal of `C18Ext.kitchen` (a missing literal reads as 0) -/
def extKitchenRec (i : Nat) : Nat :=
  match C18Ext.kitchen[i / 200]? with
  | some p => (p.2 >>> (136 * (i % 200))) % 2 ^ 136
  | none => 0

/-- New Year day pillar and the 16 numbers the getters of `KitchenGodSteed::from_lunar_year(y)` show; `none` = refused -/
def extKitchen (y : Int) : Option (Nat × List Nat) :=
  let r := extKitchenRec (y + 1).toNat
  if r % 256 == 255 then none else some (r % 256, unpack 16 (r / 256))

end Tyme.Almanac
