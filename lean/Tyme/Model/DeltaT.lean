/-
Exact rational model of ShouXingUtil::dt_calc (src/tyme/util.rs): piecewise cubic with decimal coefficients from
the table DT_AT, quadratic extrapolation dt_ext(y, 31) beyond the table and a linear blend over the first 100
years after it. No transcendental function is involved, so the model is exact over ℚ: all table entries are
scaled by 10^4, a year is given in thousandths (y1000), and a value is a fraction num/den in units of 10^-4 s.
-/
namespace Tyme.DT

/-- rows (year, a, b, c, d) of the table, dropping the final (year, value) pair -/
def rows : List Int → List (Int × Int × Int × Int × Int)
  | y :: a :: b :: c :: d :: rest => (y, a, b, c, d) :: rows rest
  | _ => []

/-- the final (year, value) pair -/
def lastPair (t : List Int) : Int × Int :=
  (t.getD (t.length - 2) 0, t.getD (t.length - 1) 0)

/-- segment polynomial at parameter t1 = N/D: (a D³ + b N D² + c N² D + d N³) / D³ (units 10^-4 s) -/
def polyNum (r : Int × Int × Int × Int × Int) (n d : Int) : Int :=
  r.2.1 * d * d * d + r.2.2.1 * n * d * d + r.2.2.2.1 * n * n * d + r.2.2.2.2 * n * n * n

/-- value at the END of a segment (t1 = 10), units 10^-4 s, exact integer -/
def segEnd (r : Int × Int × Int × Int × Int) : Int := r.2.1 + 10 * r.2.2.1 + 100 * r.2.2.2.1 + 1000 * r.2.2.2.2

/-- jump at each join: end of segment j minus start of segment j+1; the last segment against the final value -/
def joinJumps (t : List Int) : List Int :=
  let rs := rows t
  let starts := (rs.drop 1).map (fun r => r.2.1) ++ [(lastPair t).2]
  (rs.zip starts).map fun p => segEnd p.1 - p.2

/-- dt_ext(y, 31) × 10^4 for a year in thousandths: −20 + 31·((y−1820)/100)² = (−20·10^10 + 31 (y1000 − 1820000)²) / 10^10 s -/
def extNum (y1000 : Int) : Int := -200000 * 10000000000 + 31 * (y1000 - 1820000) * (y1000 - 1820000) * 10000
def extDen : Int := 10000000000

/-- dt_calc as an exact fraction (num, den) in units of 10^-4 s, for a year given in thousandths -/
def dtCalc (t : List Int) (y1000 : Int) : Int × Int :=
  let lp := lastPair t
  let y0k := lp.1 / 10        -- table years are scaled by 10^4; thousandths = /10
  if y1000 ≥ y0k then
    if y1000 > y0k + 100000 then (extNum y1000, extDen)
    else
      -- ext(y) − (ext(y0) − t0)·(y0+100−y)/100 ; (y0+100−y)/100 = (y0k + 100000 − y1000)/100000
      (extNum y1000 * 100000 - (extNum y0k - lp.2 * extDen) * (y0k + 100000 - y1000), extDen * 100000)
  else
    let rs := rows t
    let nexts := (rs.drop 1).map (fun r => r.1) ++ [lp.1]
    match ((rs.zip nexts).filter fun p => decide (y1000 * 10 < p.2)).head? with
    | none => (0, 1)
    | some (r, yn) =>
      let n := 10 * (y1000 * 10 - r.1)
      let d := yn - r.1
      (polyNum r n d, d * d * d)

end Tyme.DT
