/-!
Model of the cyclic ("loop") types of tyme4rs: `AbstractCulture::index_of`, `LoopTyme` and the 42 copy-pasted
wrappers (`HeavenStem`, `EarthBranch`, `SixtyCycle`, every `culture::*` cycle, `LunarSeason`).
Source: src/tyme/mod.rs:29-36 (index_of), 129-205 (LoopTyme), e.g. src/tyme/culture/mod.rs:17-49 (a wrapper).
Core Lean only (linked into the driver).
-/
namespace Tyme

/-- `AbstractCulture::index_of(index, size)` (src/tyme/mod.rs:29-36), literally:
`let n = size as isize; let mut i = index % n; if i < 0 { i += n; } i as usize` — Rust `%` truncates toward zero. -/
def indexOf (index : Int) (size : Nat) : Int :=
  let n : Int := size
  let i := Int.tmod index n
  if i < 0 then i + n else i

/-- `LoopTyme::from_index(names, index).get_index()` -/
def loopFromIndex (size : Nat) (index : Int) : Int := indexOf index size

/-- `LoopTyme::next_index(n)` = `index_of(self.index as isize + n, size)` -/
def loopNextIndex (size : Nat) (i n : Int) : Int := indexOf (i + n) size

/-- every wrapper: `fn next(&self, n) = Self::from_index(self.parent.next_index(n) as isize)` (index of the result) -/
def loopNext (size : Nat) (i n : Int) : Int := loopFromIndex size (loopNextIndex size i n)

/-- `LoopTyme::steps_to(target)` -/
def loopStepsTo (size : Nat) (i target : Int) : Int := indexOf (target - i) size

/-- `LoopTyme::new(names, name)`: index of the FIRST entry equal to `name`; `none` = `Err("illegal name")`
(`from_name` unwraps it, i.e. panics). Names are UTF-8 byte lists. -/
def firstIdxFrom (names : List (List Nat)) (name : List Nat) (k : Nat) : Option Nat :=
  match names with
  | [] => none
  | x :: xs => if x = name then some k else firstIdxFrom xs name (k + 1)

def fromName (names : List (List Nat)) (name : List Nat) : Option Nat := firstIdxFrom names name 0

/-- `get_name()` of the element with index `i` -/
def getName (names : List (List Nat)) (i : Nat) : List Nat := names.getD i []

/-- The table of cyclic types (same order as `cycs()` in harness/src/p11.rs): name, size, has `from_name`.
Sizes are written by hand from the `*_NAMES` arrays; the correspondence stream `c11.cyc` and the table fact
`C11_sizes_match` (against the re-extracted name lists) check them on every run. -/
def cycTypes : List (String × Nat × Bool) := [
  ("HeavenStem", 10, true), ("EarthBranch", 12, true), ("SixtyCycle", 60, true),
  ("Animal", 28, true), ("Beast", 4, true), ("Constellation", 12, true), ("Direction", 9, true),
  ("Duty", 12, true), ("Element", 5, true), ("God", 151, true), ("Land", 9, true), ("Luck", 2, true),
  ("Phase", 30, true), ("Sixty", 3, true), ("Sound", 30, true), ("Taboo", 141, true), ("Ten", 6, true),
  ("Terrain", 12, true), ("Twenty", 9, true), ("Week", 7, true), ("Zodiac", 12, true), ("Zone", 4, true),
  ("Dog", 3, true), ("FetusHeavenStem", 5, false), ("FetusEarthBranch", 6, false), ("FetusMonth", 12, false),
  ("Nine", 9, true), ("PengZuHeavenStem", 10, true), ("PengZuEarthBranch", 12, true),
  ("Phenology", 72, true), ("ThreePhenology", 3, true), ("PlumRain", 2, true), ("MinorRen", 6, true),
  ("Dipper", 9, true), ("NineStar", 9, true), ("SevenStar", 7, true), ("SixStar", 6, true), ("TenStar", 10, true),
  ("Ecliptic", 2, true), ("TwelveStar", 12, true), ("TwentyEightStar", 28, true), ("LunarSeason", 12, true)]

/-- the five plain enums with `from_code` / `from_name` / `get_name` (src/tyme/enums.rs): name, number of codes -/
def enumTypes : List (String × Nat) := [
  ("FestivalType", 3), ("HideHeavenStemType", 3), ("Gender", 2), ("Side", 2), ("YinYang", 2)]

end Tyme
