/-
Model of the two process-wide strategy slots (`CHILD_LIMIT_PROVIDER` in src/tyme/eightchar/mod.rs, `EIGHT_CHAR_PROVIDER`
in src/tyme/lunar.rs): an `Arc<Mutex<Box<dyn Provider>>>`. A request locks the mutex, calls the strategy while the guard
is held, and releases. If the strategy panics (a refused birth instant), the guard is dropped during unwinding and the
mutex becomes POISONED. `lock().unwrap()` then fails for ever; `lock().unwrap_or_else(|e| e.into_inner())` (the code after
the repair D24) takes the guard of a poisoned mutex and goes on. The strategy itself is a pure function of the request
(`none` = it panics); setting another strategy replaces it.
-/
namespace Tyme.ProviderLock

structure Slot (ρ α : Type) where
  strategy : ρ → Option α      -- none = the call panics (refused request)
  poisoned : Bool

inductive Op (ρ α : Type) where
  | call (r : ρ)
  | set (f : ρ → Option α)

/-- one request with the recovering lock (the code as it is): the answer is the strategy's, a panic poisons the mutex -/
def stepRecover {ρ α : Type} (s : Slot ρ α) : Op ρ α → Slot ρ α × Option α
  | .call r => (match s.strategy r with
      | some a => (s, some a)
      | none => ({ s with poisoned := true }, none))
  | .set f => ({ s with strategy := f }, none)

/-- the same with `lock().unwrap()`: a poisoned mutex refuses every later request -/
def stepUnwrap {ρ α : Type} (s : Slot ρ α) : Op ρ α → Slot ρ α × Option α
  | .call r => if s.poisoned then (s, none) else (match s.strategy r with
      | some a => (s, some a)
      | none => ({ s with poisoned := true }, none))
  | .set f => if s.poisoned then (s, none) else ({ s with strategy := f }, none)

def run {ρ α : Type} (step : Slot ρ α → Op ρ α → Slot ρ α × Option α) : Slot ρ α → List (Op ρ α) → Slot ρ α × List (Option α)
  | s, [] => (s, [])
  | s, op :: ops => let r := step s op; let rest := run step r.1 ops; (rest.1, r.2 :: rest.2)

/-- the strategy in force after a history (the last `set`, else the initial one) -/
def current {ρ α : Type} (f0 : ρ → Option α) : List (Op ρ α) → ρ → Option α
  | [] => f0
  | .call _ :: ops => current f0 ops
  | .set f :: ops => current f ops

end Tyme.ProviderLock
