/-
Model of the per-object lazy memos of `LunarDay` (`solar_day`, `sixty_cycle_day`) and `LunarHour` (`solar_time`,
`sixty_cycle_hour`) in src/tyme/lunar.rs: a value carries its numbers (`args`) and one optional remembered answer per
memoised view; a memoised getter fills the slot on first use and afterwards returns the slot; `clone` copies the slots
(`#[derive(Clone)]`, also what `next(0)` returns); `next(n)` with n ≠ 0 goes through `from_ymd_hms` / the civil day
and therefore starts with EMPTY slots. `view i` stands for what the uncached computation of view `i` returns
(get_solar_time, get_sixty_cycle_hour, …) and `stepArgs` for the numbers of the stepped value; both are parameters:
nothing here depends on what they compute.
-/
namespace Tyme.ObjMemo

structure Obj (α β : Type) where
  args : α
  memo : Nat → Option β      -- slot per memoised view

inductive Op where
  | get (i : Nat)            -- a memoised getter
  | clone
  | next (n : Int)
deriving Repr

def fresh {α β : Type} (a : α) : Obj α β := ⟨a, fun _ => none⟩

/-- a memoised getter: the answer and the value afterwards (interior mutability made explicit) -/
def mget {α β : Type} (view : Nat → α → β) (o : Obj α β) (i : Nat) : β × Obj α β :=
  match o.memo i with
  | some v => (v, o)
  | none => (view i o.args, { o with memo := fun j => if j = i then some (view i o.args) else o.memo j })

/-- `next`: 0 clones, otherwise a new value built from numbers -/
def mnext {α β : Type} (stepArgs : α → Int → α) (o : Obj α β) (n : Int) : Obj α β :=
  if n = 0 then o else fresh (stepArgs o.args n)

/-- one operation of a history: the observable output (the getter's answer, or the numbers of the new value) -/
def step {α β : Type} (view : Nat → α → β) (stepArgs : α → Int → α) (o : Obj α β) : Op → Obj α β × (Option β × α)
  | .get i => let r := mget view o i; (r.2, (some r.1, r.2.args))
  | .clone => (o, (none, o.args))
  | .next n => let o' := mnext stepArgs o n; (o', (none, o'.args))

def run {α β : Type} (view : Nat → α → β) (stepArgs : α → Int → α) : Obj α β → List Op → Obj α β × List (Option β × α)
  | o, [] => (o, [])
  | o, op :: ops => let r := step view stepArgs o op; let rest := run view stepArgs r.1 ops; (rest.1, r.2 :: rest.2)

/-- the memo-free reference: the same history on numbers only -/
def pureStep {α β : Type} (view : Nat → α → β) (stepArgs : α → Int → α) (a : α) : Op → α × (Option β × α)
  | .get i => (a, (some (view i a), a))
  | .clone => (a, (none, a))
  | .next n => let a' := if n = 0 then a else stepArgs a n; (a', (none, a'))

def pureRun {α β : Type} (view : Nat → α → β) (stepArgs : α → Int → α) : α → List Op → α × List (Option β × α)
  | a, [] => (a, [])
  | a, op :: ops => let r := pureStep view stepArgs a op; let rest := pureRun view stepArgs r.1 ops; (rest.1, r.2 :: rest.2)

/-- every filled slot holds what the uncached computation returns for THIS value's numbers -/
def Inv {α β : Type} (view : Nat → α → β) (o : Obj α β) : Prop := ∀ i v, o.memo i = some v → v = view i o.args

end Tyme.ObjMemo
