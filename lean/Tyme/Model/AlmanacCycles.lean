import Tyme.Model.SixtyCycle
/-
Model of the daily / hourly almanac cycles (indices only):
  SixtyCycleDay::{get_duty, get_twelve_star, get_twenty_eight_star, get_nine_star}, SixtyCycleHour::{get_nine_star,
  get_twelve_star}, SixtyCycleYear/SixtyCycleMonth::get_nine_star          (src/tyme/sixtycycle.rs)
  LunarDay::{get_six_star, get_twenty_eight_star, get_nine_star, get_phase, get_minor_ren, get_duty, get_twelve_star},
  LunarHour::{get_nine_star, get_twelve_star, get_minor_ren}, LunarYear/LunarMonth::get_nine_star,
  LunarMonth::get_minor_ren                                                  (src/tyme/lunar.rs)
after the repairs D12 (six-day star uses the unsigned month number), D24 (hour nine star ascends again from the
December solstice on) and D26 (day nine star of January days before the winter turning point continues the
descent of the previous summer). Every `X::from_index(i)` is `indexOf i size` (LoopTyme::from_index), `.next(n)` is
`indexOf (index + n) size`; Rust `%` on isize is `Int.tmod`. No imports outside Model: linked into the driver.
-/
namespace Tyme.Alm
open Tyme

def indexOf := Term.indexOf

/-- `SixtyCycle::get_earth_branch().get_index()` of the pillar with index p -/
def branch (p : Int) : Int := indexOf p 12

/-- `SixtyCycleDay::get_duty`: Duty::from_index(day branch − month branch) -/
def duty (dayP monthP : Int) : Int := indexOf (branch dayP - branch monthP) 12

/-- `get_twelve_star` (day: reference = month pillar; hour: reference = day pillar):
TwelveStar::from_index(branch + (8 − refBranch % 6) * 2) -/
def twelve (p refP : Int) : Int := indexOf (branch p + (8 - Int.tmod (branch refP) 6) * 2) 12

/-- the literal table `[10, 18, 26, 6, 14, 22, 2][week]` (an index outside 0..6 panics) -/
def mansionBase (w : Int) : Option Int :=
  if w = 0 then some 10 else if w = 1 then some 18 else if w = 2 then some 26 else if w = 3 then some 6
  else if w = 4 then some 14 else if w = 5 then some 22 else if w = 6 then some 2 else none

/-- `get_twenty_eight_star`: TwentyEightStar::from_index(table[week]).next(−7 · day branch) -/
def mansion (week dayP : Int) : Option Int :=
  (mansionBase week).map fun b => indexOf (indexOf b 28 + -7 * branch dayP) 28

/-- `TwentyEightStar::get_seven_star`: SevenStar::from_index(index % 7 + 4) -/
def sevenStar (m : Int) : Int := indexOf (Int.tmod m 7 + 4) 7

/-- `LunarDay::get_six_star` after D12: SixStar::from_index((|month| + day − 2) % 6) -/
def six (absMonth day : Int) : Int := indexOf (Int.tmod (absMonth + day - 2) 6) 6

/-- the same getter BEFORE the repair (signed month): kept to state the defect -/
def sixSigned (monthWithLeap day : Int) : Int := indexOf (Int.tmod (monthWithLeap + day - 2) 6) 6

/-- `LunarDay::get_phase` -/
def phase (day : Int) : Int := indexOf (day - 1) 30

/-- `LunarMonth::get_minor_ren`: MinorRen::from_index((month − 1) % 6), month unsigned -/
def renMonth (absMonth : Int) : Int := indexOf (Int.tmod (absMonth - 1) 6) 6
/-- `LunarDay::get_minor_ren` = month's `.next(day − 1)` -/
def renDay (absMonth day : Int) : Int := indexOf (renMonth absMonth + (day - 1)) 6
/-- `LunarHour::get_minor_ren` = day's `.next(index_in_day)`, index_in_day = (hour + 1) / 2 -/
def renHour (absMonth day hour : Int) : Int := indexOf (renDay absMonth day + (hour + 1) / 2) 6

/-- `get_twenty().get_sixty().get_index()`: Twenty::from_index(⌊(y − 1864)/20⌋), Sixty index = that / 3 -/
def sixtyIdx (y : Int) : Int := indexOf ((y - 1864) / 20) 9 / 3

/-- `LunarYear::get_nine_star` = `SixtyCycleYear::get_nine_star` -/
def yearNine (y : Int) : Int := indexOf (63 + sixtyIdx y * 3 - SC.yearPillar y) 9

/-- `get_nine_star` of a month from the year pillar and the month pillar (LunarMonth and SixtyCycleMonth alike) -/
def monthNine (yearP monthP : Int) : Int :=
  let i := branch monthP
  let i' := if i < 2 then i + 3 else i
  indexOf (27 - Int.tmod (branch yearP) 3 * 3 - i') 9

/-- `LunarMonth::get_nine_star` for the month `x` (the month pillar goes by the position in the year's listing) -/
def lunarMonthNine (x : Lunar.Month) : Option Int :=
  (SC.lunarMonthPillar x.y x.idx).map fun mp => monthNine (SC.yearPillar x.y) mp

/-- `SixtyCycleMonth::from_index(y, i).get_nine_star()`: first month of y stepped i times; the year is carried
by `(y·12 + 0 + i).div_euclid(12)` (floor; after the C11 carry fix) -/
def scMonthNine (y i : Int) : Option Int :=
  if y < -1 ∨ y > 9999 then none else
  match SC.firstMonthPillar y with
  | none => none
  | some fm =>
    let y' := (y * 12 + 0 + i) / 12
    if y' < -1 ∨ y' > 9999 then none else
    some (monthNine (SC.yearPillar y') (SC.cycNext fm i))

/-- the Jiazi day nearest the solstice term `g` (the code: solstice day, its pillar index p through the lunar
route, then `.next(if p > 29 {60 − p} else {−p})`); refused when a civil day is not constructible -/
def turn (E : Eph) (g : Nat) : Option Int :=
  let s := E.termDay g
  if s = 0 then none else
  let c := ofJdn s
  if !solarDayOk c.1 c.2.1 c.2.2 then none else
  match Lunar.ofSolar E c.1 c.2.1 c.2.2 with
  | none => none
  | some (x, k) =>
    match SC.dayPillar (Lunar.first E x) k with
    | none => none
    | some p =>
      let t := jdn c.1 c.2.1 c.2.2 + (if p > 29 then 60 - p else -p)
      let r := ofJdn t
      if solarDayOk r.1 r.2.1 r.2.2 then some t else none

/-- the offset chosen by the four branches of `get_nine_star` for day number j of civil year Y, given the three
turning points (winter Y−1, summer Y, winter Y) and — evaluated only in the fourth branch (D26) — the turning
point of the previous summer solstice -/
def nineOffset (j sb nz sb2 : Int) (nz0 : Unit → Option Int) : Option Int :=
  if sb ≤ j ∧ j < nz then some (j - sb)
  else if nz ≤ j ∧ j < sb2 then some (8 - (j - nz))
  else if sb2 ≤ j then some (j - sb2)
  else if j < sb then (nz0 ()).map fun t => 8 - (j - t)
  else some 0

/-- the three turning points `get_nine_star` computes first, for civil year Y: (winter Y−1, summer Y, winter Y) -/
def yearTurns (E : Eph) (Y : Int) : Option (Int × Int × Int) :=
  if 24 * (Y - 1) < 0 then none else
  let g := (24 * (Y - 1)).toNat
  if E.termDay g = 0 ∨ E.termDay (g + 12) = 0 ∨ E.termDay (g + 24) = 0 then none else
  match turn E g, turn E (g + 24), turn E (g + 12) with
  | some sb, some sb2, some nz => some (sb, nz, sb2)
  | _, _, _ => none

/-- star of day number j of civil year Y from the year's turning points -/
def dayNineOf (E : Eph) (Y : Int) (t : Int × Int × Int) (j : Int) : Option Int :=
  (nineOffset j t.1 t.2.1 t.2.2 (fun _ => if 24 * (Y - 1) - 12 < 0 then none else turn E (24 * (Y - 1) - 12).toNat)).map
    fun o => indexOf o 9

/-- `SixtyCycleDay::get_nine_star` / `LunarDay::get_nine_star` for the civil day (Y, M, D), after D26 -/
def dayNine (E : Eph) (Y M D : Int) : Option Int :=
  match yearTurns E Y with
  | none => none
  | some t => dayNineOf E Y t (jdn Y M D)

/-- ascending half-year as the code decides it for the civil day j of civil year Y (after D24) -/
def hourAsc (E : Eph) (Y j : Int) : Option Bool :=
  if 24 * (Y - 1) < 0 then none else
  let g := (24 * (Y - 1)).toNat
  if E.termDay g = 0 ∨ E.termDay (g + 12) = 0 ∨ E.termDay (g + 24) = 0 then none else
  some (decide ((E.termDay g ≤ j ∧ j < E.termDay (g + 12)) ∨ E.termDay (g + 24) ≤ j))

/-- the literal `[8, 5, 2][branch % 3]` -/
def hourStart (b : Int) : Int := if b % 3 = 0 then 8 else if b % 3 = 1 then 5 else 2

/-- hour nine star from the half-year, the day pillar used, and the index of the double-hour -/
def hourNineOf (asc : Bool) (dayP ebi : Int) : Int :=
  let s0 := hourStart (branch dayP)
  let s := if asc then 8 - s0 else s0
  indexOf (s + (if asc then ebi else -ebi)) 9

/-- `SixtyCycleHour::get_nine_star`: day pillar rolled at 23:00, index_in_day = 0 for 23 -/
def schNine (E : Eph) (Y M D h : Int) (v : SC.HourView) : Option Int :=
  (hourAsc E Y (jdn Y M D)).map fun asc => hourNineOf asc v.day (Int.tmod (if h = 23 then 0 else (h + 1) / 2) 12)

/-- `LunarHour::get_nine_star`: civil day = the lunar day's own `get_solar_day()`, the lunar day's own pillar
(not rolled at 23:00), index_in_day = (hour + 1)/2 -/
def lhNine (E : Eph) (sd : Int × Int × Int) (dayP h : Int) : Option Int :=
  (hourAsc E sd.1 (jdn sd.1 sd.2.1 sd.2.2)).map fun asc => hourNineOf asc dayP (Int.tmod ((h + 1) / 2) 12)

/-- |month| of a lunar month -/
def absMonth (E : Eph) (x : Lunar.Month) : Int := (Lunar.monthWithLeap E x).natAbs

structure DayOut where
  duty : Int
  twelve : Int
  mansion : Int
  luminary : Int
  week : Int
  nine : Option Int
  lSix : Int
  lMansion : Int
  lNine : Option Int
  lPhase : Int
  lRen : Int
  lDuty : Int
  lTwelve : Int
  scmNine : Int
  lmNine : Int
  lmRen : Int

/-- everything `alm.day` prints for an accepted civil date: the sexagenary-day view of the date, and the
lunar-day view (whose sexagenary day is that of ITS OWN `get_solar_day()`) -/
def dayOutWith (E : Eph) (nine : Int → Int → Int → Option Int) (Y M D : Int) : Option DayOut :=
  match SC.ofSolarDay E Y M D with
  | none => none
  | some v =>
    match Lunar.ofSolar E Y M D with
    | none => none
    | some (x, k) =>
      match mansion (weekOfJdn (jdn Y M D)) v.day with
      | none => none
      | some ms =>
        match Lunar.daySolar E x k with
        | none => none
        | some sd =>
          match SC.ofSolarDay E sd.1 sd.2.1 sd.2.2, SC.dayPillar (Lunar.first E x) k with
          | some lv, some lp =>
            match mansion (weekOfJdn (jdn sd.1 sd.2.1 sd.2.2)) lp, lunarMonthNine x with
            | some lms, some lmn =>
              some { duty := duty v.day v.month, twelve := twelve v.day v.month, mansion := ms, luminary := sevenStar ms,
                     week := weekOfJdn (jdn Y M D), nine := nine Y M D,
                     lSix := six (absMonth E x) k, lMansion := lms, lNine := nine sd.1 sd.2.1 sd.2.2,
                     lPhase := phase k, lRen := renDay (absMonth E x) k,
                     lDuty := duty lv.day lv.month, lTwelve := twelve lv.day lv.month,
                     scmNine := monthNine v.year v.month, lmNine := lmn, lmRen := renMonth (absMonth E x) }
            | _, _ => none
          | _, _ => none

def dayOut (E : Eph) (Y M D : Int) : Option DayOut := dayOutWith E (dayNine E) Y M D

structure HourOut where
  nine : Option Int
  twelve : Int
  lNine : Option Int
  lTwelve : Int
  lRen : Int

/-- everything `alm.hour` prints for an accepted instant -/
def hourOut (E : Eph) (Y M D h mi s : Int) : Option HourOut :=
  match SC.ofSolarTime E Y M D h mi s with
  | none => none
  | some v =>
    match Lunar.ofSolar E Y M D with
    | none => none
    | some (x, k) =>
      match Lunar.daySolar E x k, SC.dayPillar (Lunar.first E x) k with
      | some sd, some lp =>
        match SC.hourPillar lp h, SC.ofSolarTime E sd.1 sd.2.1 sd.2.2 h mi s with
        | some lhp, some lv =>
          some { nine := schNine E Y M D h v, twelve := twelve v.hour v.day,
                 lNine := lhNine E sd lp h, lTwelve := twelve lhp lv.day,
                 lRen := renHour (absMonth E x) k h }
        | _, _ => none
      | _, _ => none

end Tyme.Alm
