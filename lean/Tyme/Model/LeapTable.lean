/-
Model of the decoder of the packed leap-month table LEAP_MONTH_YEAR (src/tyme/lunar.rs:24-52) and of
LunarYear::get_leap_month's look-up. Strings are byte lists.
-/
namespace Tyme.Leap

/-- `chars.find(c)` -/
def findIdx (alphabet : List Nat) (c : Nat) : Option Nat :=
  match alphabet with
  | [] => none
  | a :: as => if a = c then some 0 else (findIdx as c).map (· + 1)

/-- one month string: pairs of characters are base-64 deltas (first character × 64 + second), accumulated;
`size = len / 2`, so a trailing odd character is ignored; an unknown character panics (`none`) -/
def decodeMonth (alphabet : List Nat) : List Nat → Nat → Option (List Nat)
  | a :: b :: rest, n =>
    match findIdx alphabet a, findIdx alphabet b with
    | some ia, some ib =>
      (decodeMonth alphabet rest (n + (ib + 64 * ia))).map fun l => (n + (ib + 64 * ia)) :: l
    | _, _ => none
  | _, _ => some []

def decodeAll (alphabet : List Nat) (raw : List (List Nat)) : Option (List (List Nat)) :=
  raw.mapM fun s => decodeMonth alphabet s 0

/-- month (1-based) whose list starts with year y, scanning the 12 cursors; also how many do -/
def hitsAt (y : Nat) : List (List Nat) → Nat → Nat × Nat
  | [], _ => (0, 0)
  | l :: ls, m =>
    let r := hitsAt y ls (m + 1)
    match l with
    | h :: _ => if h = y then (m, r.2 + 1) else r
    | [] => r

/-- drop year y from the heads; fail (none) if some head is smaller than y (list not increasing / stale) -/
def advance (y : Nat) : List (List Nat) → Option (List (List Nat))
  | [] => some []
  | l :: ls =>
    match advance y ls with
    | none => none
    | some r =>
      match l with
      | h :: t => if h = y then some (t :: r) else if h < y then none else some (l :: r)
      | [] => some ([] :: r)

/-- walk the years 0,1,2,… of the extension: at each year at most one month list has it at its head, the
extension's leap month is that month (0 if none); at the end every list is used up. This says: the decoded lists
are strictly increasing, pairwise disjoint, contain only years of the extension's range, and the look-up
(whatever the HashMap iteration order) answers exactly the extension. -/
def walk : List (List Nat) → List Nat → Nat → Bool
  | cur, [], _ => cur.all (· == [])
  | cur, e :: es, y =>
    let h := hitsAt y cur 1
    decide (h.2 ≤ 1) && e == h.1 &&
      (match advance y cur with
       | none => false
       | some cur' => walk cur' es (y + 1))

def tableOK (alphabet : List Nat) (raw : List (List Nat)) (ext : List Nat) : Bool :=
  match decodeAll alphabet raw with
  | none => false
  | some lists => lists.length == 12 && walk lists ext 0

end Tyme.Leap
