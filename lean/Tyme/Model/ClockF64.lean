/-
Bit-exact model of the f64 arithmetic of `JulianDay::from_ymd_hms` (src/tyme/jd.rs:35-50): every `+`, `-`, `/` is the
exact rational operation followed by IEEE-754 round-to-nearest-even to 53 significant bits (`fl`; normal range only —
all values here lie in [2^-7, 2^23]). Used by the correspondence run only (op `time.jdbits`); the theorems of C12 do
not depend on it: they cover the conversion through `C12_roundtrip_robust` (any Julian date within 1e-7 day of the exact
one maps back). No imports.
-/
namespace Tyme.F64

/-- a dyadic rational num / 2^k -/
abbrev Dy := Int × Nat

/-- the positive rational p/q rounded to the nearest f64, ties to even, as num / 2^k -/
def fl (p q : Nat) : Dy :=
  if p = 0 then (0, 0) else
  let e0 : Int := (Nat.log2 p : Int) - (Nat.log2 q : Int) - 52
  let mant (e : Int) : Nat := if e ≥ 0 then p / (q * 2 ^ e.toNat) else (p * 2 ^ (-e).toNat) / q
  let e := if mant e0 ≥ 2 ^ 53 then e0 + 1 else if mant e0 < 2 ^ 52 then e0 - 1 else e0
  let num := if e ≥ 0 then p else p * 2 ^ (-e).toNat
  let den := if e ≥ 0 then q * 2 ^ e.toNat else q
  let m := num / den
  let r := num % den
  let m' := if 2 * r > den ∨ (2 * r = den ∧ m % 2 = 1) then m + 1 else m
  if e ≥ 0 then ((m' * 2 ^ e.toNat : Nat), 0) else ((m' : Nat), (-e).toNat)

/-- f64 quotient of a non-negative dyadic by a positive integer constant -/
def divc (a : Dy) (c : Nat) : Dy := fl a.1.toNat (c * 2 ^ a.2)

/-- f64 sum of two dyadics whose exact sum is non-negative -/
def add (a b : Dy) : Dy :=
  let k := max a.2 b.2
  let n : Int := a.1 * 2 ^ (k - a.2) + b.1 * 2 ^ (k - b.2)
  fl n.toNat (2 ^ k)

/-- lowest terms: num odd or k = 0 (the canonical text both sides print) -/
def reduce (a : Dy) : Dy := Id.run do
  let mut n := a.1
  let mut k := a.2
  while k > 0 ∧ n % 2 = 0 do
    n := n / 2
    k := k - 1
  return (n, k)

/-- `JulianDay::from_ymd_hms(year, month, day, hour, minute, second).day` as the exact value of the resulting f64 -/
def toJD (year month day hour minute second : Int) : Dy :=
  let t := divc (add (divc (add (divc (second, 0) 60) (minute, 0)) 60) (hour, 0)) 24
  let d := add (day, 0) t
  let g : Bool := decide (year * 372 + month * 31 + day ≥ 588829)     -- `d as isize` = day (0 ≤ t < 1)
  let y := if month ≤ 2 then year - 1 else year
  let m := if month ≤ 2 then month + 12 else month
  let a := y / 100
  let n : Int := if g then 2 - a + a / 4 else 0
  let A : Int := (1461 * (y + 4716)) / 4          -- (365.25 * (y + 4716)) as isize   (validated exhaustively by C01)
  let B : Int := (306001 * (m + 1)) / 10000       -- (30.6001 * (m + 1)) as isize
  reduce (add (add (add (A + B, 0) d) (n, 0)) (-3049, 1))

end Tyme.F64
