import Tyme.Model.Cycle
/-!
Model of `next(n)` of the linear units that step by the carry pattern
`from_index((year * size + index + n) / size, index_of(index + n, size))`:
SolarYear / LunarYear / SixtyCycleYear (plain `year + n`), SolarHalfYear, SolarSeason, SolarMonth, SolarTerm,
SixtyCycleMonth, SolarFestival, LunarFestival, and the fortunes (`index + n`).
Source: src/tyme/solar.rs:24-28, 186-190, 331-335, 464-468, 1629-1660; src/tyme/lunar.rs:61-65;
src/tyme/sixtycycle.rs:528-532, 559-565, 617-635; src/tyme/festival.rs:57-92, 107-111, 205-255, 274-278;
src/tyme/eightchar/mod.rs:369-373, 454-458.

Rust `/` on `isize` truncates toward zero (`Int.tdiv`).  Two sites use `.div_euclid` (floor, `Int.ediv`, Lean `/`)
after the repair fixes/C11-floor-carry.diff: `SixtyCycleMonth::next` and `LunarFestival::next` — the two units whose
constructors accept years ≤ 0, where truncation is visible (see notes/C11.md).
Core Lean only (linked into the driver).
-/
namespace Tyme

/-- Rust `(year * size + i) / size` on `isize` (truncating) -/
def carryT (size : Nat) (y i : Int) : Int := Int.tdiv (y * (size : Int) + i) (size : Int)

/-- Rust `(year * size + i).div_euclid(size)` (floor for a positive divisor) -/
def carryF (size : Nat) (y i : Int) : Int := (y * (size : Int) + i) / (size : Int)

/-- `SolarYear::new`, `SolarYear::from_year`: 1..9999 -/
def solarYearOk (y : Int) : Bool := decide (1 ≤ y ∧ y ≤ 9999)

/-- `LunarYear::new`, `SixtyCycleYear::new`: -1..9999 -/
def lunarYearOk (y : Int) : Bool := decide (-1 ≤ y ∧ y ≤ 9999)

/-- `X::from_year(self.year + n)` for X = SolarYear, LunarYear, SixtyCycleYear -/
def yearNext (ok : Int → Bool) (y n : Int) : Option Int := if ok (y + n) then some (y + n) else none

/-- the carry pattern with truncating division; `ok` is the acceptance of the constructor that is called last -/
def linNextT (size : Nat) (ok : Int → Int → Bool) (y idx n : Int) : Option (Int × Int) :=
  let i := idx + n
  let y' := carryT size y i
  let i' := indexOf i size
  if ok y' i' then some (y', i') else none

/-- the carry pattern with floor division (repaired sites) -/
def linNextF (size : Nat) (ok : Int → Int → Bool) (y idx n : Int) : Option (Int × Int) :=
  let i := idx + n
  let y' := carryF size y i
  let i' := indexOf i size
  if ok y' i' then some (y', i') else none

def solarPartOk (y _i : Int) : Bool := solarYearOk y

/-- `SolarHalfYear::next` (state: year, index 0..1) -/
def halfNext (y idx n : Int) : Option (Int × Int) := linNextT 2 solarPartOk y idx n

/-- `SolarSeason::next` (state: year, index 0..3) -/
def seasonNext (y idx n : Int) : Option (Int × Int) := linNextT 4 solarPartOk y idx n

/-- `SolarMonth::next` (state: year, month 1..12): `i = month - 1 + n; from_ym((year*12 + i)/12, index_of(i,12) + 1)` -/
def monthNext (y m n : Int) : Option (Int × Int) :=
  (linNextT 12 solarPartOk y (m - 1) n).map fun r => (r.1, r.2 + 1)

/-- `SolarTerm::from_index(year, index)` → (year, index): `y = (year*24 + index)/24`, index wrapped; no range check -/
def termFromIndex (y idx : Int) : Int × Int := (carryT 24 y idx, indexOf idx 24)

/-- `SolarTerm::next`: `from_index((year*24 + i)/24, index_of(i))` with `i = index + n` (normalised twice) -/
def termNext (y idx n : Int) : Int × Int :=
  let i := idx + n
  termFromIndex (carryT 24 y i) (indexOf i 24)

/-- `SixtyCycle::get_earth_branch().get_index()`: `EarthBranch::from_index(index % 12)` -/
def scEarthBranch (sc : Int) : Int := loopFromIndex 12 (Int.tmod sc 12)

/-- `SixtyCycle::get_heaven_stem().get_index()` -/
def scHeavenStem (sc : Int) : Int := loopFromIndex 10 (Int.tmod sc 10)

/-- `SixtyCycleMonth::get_index_in_year`: `month.get_earth_branch().next(-2).get_index()` -/
def scIndexInYear (sc : Int) : Int := loopNext 12 (scEarthBranch sc) (-2)

/-- `SixtyCycleMonth::next` after the repair (`.div_euclid(12)`); state: (sexagenary year number, month pillar 0..59) -/
def scMonthNext (y sc n : Int) : Option (Int × Int) :=
  let y' := carryF 12 y (scIndexInYear sc + n)
  if lunarYearOk y' then some (y', loopNext 60 sc n) else none

/-- `SixtyCycleYear::get_first_month`: stem `((year stem)+1)*2`, branch 寅 (2); `SixtyCycle::from_name(stem ++ "寅")`
is the first of the 60 names with that stem and that branch (names[k] = stem[k%10] ++ branch[k%12]). -/
def scFirstMonth (y : Int) : Option Int :=
  let h := loopFromIndex 10 ((scHeavenStem (loopFromIndex 60 (y - 4)) + 1) * 2)
  ((List.range 60).find? fun k => ((k % 10 : Nat) : Int) == h && k % 12 == 2).map fun k => (k : Int)

/-- `SixtyCycleMonth::from_index(year, index)` = `SixtyCycleYear::from_year(year).get_first_month().next(index)` -/
def scMonthFromIndex (y k : Int) : Option (Int × Int) :=
  if lunarYearOk y then (scFirstMonth y).bind fun sc => scMonthNext y sc k else none

/-- start years of the ten solar festivals (`SOLAR_FESTIVAL_DATA`, src/tyme/festival.rs:12) -/
def sfestStart : List Int := [1950, 1950, 1979, 1950, 1950, 1950, 1941, 1933, 1985, 1950]

/-- `SolarFestival::from_index(year, index)` is `Some`: index < 10, year ≥ start year, and `SolarDay::from_ymd` accepts the year -/
def sfestOk (y i : Int) : Bool :=
  decide (0 ≤ i ∧ i < 10) && decide (sfestStart.getD i.toNat 10000 ≤ y) && solarYearOk y

/-- `SolarFestival::next` (state: year of the day, index 0..9) -/
def sfestNext (y idx n : Int) : Option (Int × Int) := linNextT 10 sfestOk y idx n

/-- `LunarFestival::from_index(year, index)` is `Some` (observed on every year -1..10000, stream `c11.lfest`):
lunar years 1..9998 always; 9999 except New Year's Eve (needs lunar year 10000); 0 except the two term festivals
(their civil day would lie in year 0); -1 never. -/
def lfestOk (y i : Int) : Bool :=
  decide (0 ≤ i ∧ i < 13) &&
  (decide (1 ≤ y ∧ y ≤ 9998) || (y == 9999 && i != 12) || (y == 0 && i != 4 && i != 10))

/-- `LunarFestival::next` after the repair (`.div_euclid(13)`); state: (lunar year of the day, index 0..12) -/
def lfestNext (y idx n : Int) : Option (Int × Int) := linNextF 13 lfestOk y idx n

/-- `DecadeFortune::next`, `Fortune::next`: `Self::new(child_limit, index + n)` -/
def fortuneNext (idx n : Int) : Int := idx + n

end Tyme
