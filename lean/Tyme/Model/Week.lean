import Tyme.Model.Jd
/-
Model of the week code: `SolarMonth::get_week_count/get_weeks`, `SolarWeek::{new,get_first_day,get_days,next,
get_index_in_year}`, `SolarDay::get_solar_week` (src/tyme/solar.rs) and — through the same generic functions —
`LunarMonth::get_week_count`, `LunarWeek::{new,get_first_day,next}` (src/tyme/lunar.rs), whose code is the
same text over a different month type.

The week-count / first-day / stepping code only uses four things of a month: the day number of its first day,
its day count, and `month.next(1)` / `month.next(-1)`.  These are the fields of `MonthOps`; the civil instance
`civilOps` supplies the literal `SolarMonth` operations, a lunar instance will supply the lunar-month table.
`while` loops are structural recursion on fuel (fuel exhaustion = `none`; proved never to happen).
Only core Lean; linked into the driver.
-/
namespace Tyme.Wk

/-- `AbstractCulture::index_of(index, size)`: Rust `%` (truncated) then `+ size` if negative. -/
def indexOf (i n : Int) : Int :=
  let r := Int.tmod i n
  if r < 0 then r + n else r

/-- `(x as f64 / 7.0).ceil() as usize` for a `usize` x (x ≥ 0 small: exact in f64). -/
def ceil7 (x : Int) : Int := (x + 6) / 7

/-- what the week code needs of a month type -/
structure MonthOps (M : Type) where
  /-- day number (noon-based) of day 1 of the month -/
  first : M → Int
  /-- `get_day_count` -/
  len : M → Int
  /-- `month.next(1)`; `none` = refused (panics) -/
  next : M → Option M
  /-- `month.next(-1)` -/
  prev : M → Option M

variable {M : Type}

/-- `index_of(weekday(first day) - start, 7)`: how many days of the first week lie before day 1 -/
def off (O : MonthOps M) (m : M) (s : Int) : Int := indexOf (weekOfJdn (O.first m) - s) 7

/-- `get_week_count(start)` = ceil((off + day_count) / 7) -/
def weekCount (O : MonthOps M) (m : M) (s : Int) : Int := ceil7 (off O m s + O.len m)

/-- a week: month, index, start weekday -/
structure Week (M : Type) where
  month : M
  index : Int
  start : Int
  deriving DecidableEq

/-- the checks of `SolarWeek::new` / `LunarWeek::new` after the month has been built
(`usize` arguments: negative = cannot be passed = refused) -/
def weekNew (O : MonthOps M) (m : M) (i s : Int) : Option (Week M) :=
  if i < 0 ∨ s < 0 then none
  else if i > 5 then none
  else if s > 6 then none
  else if i ≥ weekCount O m s then none
  else some ⟨m, i, s⟩

/-- argument of `first_day.next(..)` in `get_first_day`: `index*7 - off` -/
def firstShift (O : MonthOps M) (w : Week M) : Int := w.index * 7 - off O w.month w.start

/-- day number of the week's first day -/
def firstJ (O : MonthOps M) (w : Week M) : Int := O.first w.month + firstShift O w

/-- the `n > 0` loop of `next`: `while d >= week_count { d -= week_count; m = m.next(1);
if weekday(first of m) != start { d += 1 }; week_count = .. }` -/
def fwd (O : MonthOps M) (s : Int) : Nat → M → Int → Option (M × Int)
  | fuel, m, d =>
    if d ≥ weekCount O m s then
      match fuel with
      | 0 => none
      | fuel + 1 =>
        match O.next m with
        | none => none
        | some m' => fwd O s fuel m' (d - weekCount O m s + (if weekOfJdn (O.first m') != s then 1 else 0))
    else some (m, d)

/-- the `n < 0` loop: `while d < 0 { if weekday(first of m) != start { d -= 1 }; m = m.next(-1); d += week_count(m) }` -/
def bwd (O : MonthOps M) (s : Int) : Nat → M → Int → Option (M × Int)
  | fuel, m, d =>
    if d < 0 then
      match fuel with
      | 0 => none
      | fuel + 1 =>
        match O.prev m with
        | none => none
        | some m' => bwd O s fuel m' (d - (if weekOfJdn (O.first m) != s then 1 else 0) + weekCount O m' s)
    else some (m, d)

/-- `SolarWeek::next(n)` / `LunarWeek::next(n)`; the final `from_ym` re-validates -/
def weekNext (O : MonthOps M) (w : Week M) (n : Int) : Option (Week M) :=
  let d := w.index + n
  let r := if n > 0 then fwd O w.start d.toNat w.month d
           else if n < 0 then bwd O w.start (-d).toNat w.month d
           else some (w.month, d)
  match r with
  | none => none
  | some (m, d') => weekNew O m d' w.start

/-! ### abstract month sequence (the shape of the lunar instance)

Months are numbered by consecutive integers `lo .. hi`; month k starts on day number `first k` and has `len k`
days.  `LunarWeek` is this instance with `first`/`len` read from the lunar-month table (first Julian day and day
count of `LunarMonth`), `next`/`prev` = `LunarMonth::next(±1)` refused outside the table. -/
def seqOps (first len : Int → Int) (lo hi : Int) : MonthOps Int where
  first := first
  len := len
  next := fun k => if k < hi then some (k + 1) else none
  prev := fun k => if lo < k then some (k - 1) else none

/-! ### civil instance -/

/-- `SolarMonth::new` acceptance (year through `SolarYear::from_year`, which panics outside 1..9999) -/
def solarMonthOk (y m : Int) : Bool := decide (1 ≤ y ∧ y ≤ 9999) && decide (1 ≤ m ∧ m ≤ 12)

/-- `SolarMonth::next(n)`: `i = month-1+n; from_ym((year*12+i)/12, index_of(i,12)+1)` -/
def solarMonthNext (ym : Int × Int) (n : Int) : Option (Int × Int) :=
  let i := ym.2 - 1 + n
  let y' := Int.tdiv (ym.1 * 12 + i) 12
  let m' := indexOf i 12 + 1
  if solarMonthOk y' m' then some (y', m') else none

def civilOps : MonthOps (Int × Int) where
  first := fun ym => jdn ym.1 ym.2 1
  len := fun ym => monthLen ym.1 ym.2
  next := fun ym => solarMonthNext ym 1
  prev := fun ym => solarMonthNext ym (-1)

abbrev SolarWeek := Week (Int × Int)

/-- `SolarMonth::get_week_count(start)` of an accepted month (`start: usize`, any value) -/
def solarWeekCount (y m s : Int) : Option Int :=
  if solarMonthOk y m && decide (0 ≤ s) then some (weekCount civilOps (y, m) s) else none

/-- `SolarWeek::new(year, month, index, start)` -/
def solarWeekNew (y m i s : Int) : Option SolarWeek :=
  if i < 0 ∨ s < 0 ∨ m < 0 then none
  else if i > 5 then none
  else if s > 6 then none
  else if !solarMonthOk y m then none
  else weekNew civilOps (y, m) i s

/-- `SolarMonth::get_weeks(start)`: `from_ym(y, month, i, start)` for i in 0..week_count -/
def solarWeeks (y m s : Int) : Option (List SolarWeek) :=
  match solarWeekCount y m s with
  | none => none
  | some wc => (List.range wc.toNat).mapM fun (i : Nat) => solarWeekNew y m (i : Int) s

/-- `SolarWeek::get_first_day` = `SolarDay(y, m, 1).next(index*7 - off)` -/
def solarWeekFirstDay (w : SolarWeek) : Option (Int × Int × Int) :=
  dayNext (w.month.1, w.month.2, 1) (firstShift civilOps w)

/-- `SolarWeek::get_days`: first day, then `first.next(1..6)` -/
def solarWeekDays (w : SolarWeek) : Option (List (Int × Int × Int)) :=
  match solarWeekFirstDay w with
  | none => none
  | some d => (List.range 7).mapM fun (k : Nat) => dayNext d (k : Int)

/-- `SolarWeek::next(n)` -/
def solarWeekNext (w : SolarWeek) (n : Int) : Option SolarWeek := weekNext civilOps w n

/-- loop of `get_index_in_year`: `while w.first_day != target { w = w.next(1); i += 1 }`, written over an
abstract "first day" and "next week" so that it can be reasoned about without unfolding the day arithmetic -/
def idxLoopG {W D : Type} [BEq D] (fd : W → Option D) (nx : W → Option W) (target : D) : Nat → W → Int → Option Int
  | 0, w, i =>
    match fd w with
    | none => none
    | some f => if f != target then none else some i
  | fuel + 1, w, i =>
    match fd w with
    | none => none
    | some f =>
      if f != target then
        match nx w with
        | none => none
        | some w' => idxLoopG fd nx target fuel w' (i + 1)
      else some i

/-- the loop on civil weeks (SolarDay equality is field-wise) -/
def idxLoop (target : Int × Int × Int) (fuel : Nat) (w : SolarWeek) (i : Int) : Option Int :=
  idxLoopG solarWeekFirstDay (fun v => solarWeekNext v 1) target fuel w i

/-- `SolarWeek::get_index_in_year` (at most 54 weeks meet a year) -/
def solarWeekIndexInYear (w : SolarWeek) : Option Int :=
  match solarWeekFirstDay w with
  | none => none
  | some t =>
    match solarWeekNew w.month.1 1 0 w.start with
    | none => none
    | some w0 => idxLoop t 60 w0 0

/-- `SolarDay::get_solar_week(start)` AFTER the repair fixes/C14-week-oct1582.diff: the position of the day
inside its month is `self.subtract(first_of_month) + 1` (the unrepaired code used the day-of-month number).
`Week::next(-start).get_index()` = `index_of(weekday - start, 7)`. -/
def solarWeekOf (y m d s : Int) : Option SolarWeek :=
  if s < 0 then none else
  let pos := daySub (y, m, d) (y, m, 1) + 1
  let o := indexOf (weekOfJdn (jdn y m 1) + (-s)) 7
  solarWeekNew y m (ceil7 (pos + o) - 1) s

/-- the unrepaired `get_solar_week` (day-of-month number as position) — kept to state the defect D11 -/
def solarWeekOfOld (y m d s : Int) : Option SolarWeek :=
  if s < 0 then none else
  let o := indexOf (weekOfJdn (jdn y m 1) + (-s)) 7
  solarWeekNew y m (ceil7 (d + o) - 1) s

/-- `SolarWeek == SolarWeek`: equality of first days -/
def solarWeekEq (a b : SolarWeek) : Option Bool :=
  match solarWeekFirstDay a, solarWeekFirstDay b with
  | some x, some y => some (x == y)
  | _, _ => none

end Tyme.Wk
