/-
Model of src/tyme/jd.rs and the civil-date part of src/tyme/solar.rs.
Integers are unbounded (`Int`); Rust `isize`/`usize` arithmetic that would go
negative/overflow is modelled as refusal at the API boundary (`Option`).
No imports: this file is linked into the correspondence driver.
-/
namespace Tyme

/-- `JulianDay::from_ymd_hms(y,m,d,0,0,0).day + 0.5` as an integer (noon-based day number).
f64 constants are scaled: `365.25*k = ⌊1461k/4⌋`, `30.6001*k = ⌊306001k/10000⌋`. -/
def jdn (y m d : Int) : Int :=
  let g : Bool := decide (y * 372 + m * 31 + d ≥ 588829)
  let y' := if m ≤ 2 then y - 1 else y
  let m' := if m ≤ 2 then m + 12 else m
  let a := y' / 100
  let n := if g then 2 - a + a / 4 else 0
  (1461 * (y' + 4716)) / 4 + (306001 * (m' + 1)) / 10000 + d + n - 1524

/-- date part of `JulianDay::get_solar_time` for `day = j - 0.5` (before range checks). -/
def ofJdn (j : Int) : Int × Int × Int :=
  let d0 := if j ≥ 2299161 then
      let c := (4 * j - 7468865) / 146097     -- ((j - 1867216.25) / 36524.25)
      j + 1 + c - c / 4
    else j
  let d1 := d0 + 1524
  let yr := (20 * d1 - 2442) / 7305            -- ((d1 - 122.1) / 365.25)
  let d2 := d1 - (1461 * yr) / 4               -- (365.25 * yr)
  let mo := (1000 * d2) / 30601                -- (d2 / 30.601)
  let d3 := d2 - (30601 * mo) / 1000           -- (30.601 * mo)
  if mo > 13 then (yr - 4715, mo - 13, d3) else (yr - 4716, mo - 1, d3)

/-- `SolarYear::is_leap` (the code's rule: Julian before 1600). -/
def isLeap (y : Int) : Bool :=
  if y < 1600 then y % 4 == 0 else (y % 4 == 0 && y % 100 != 0) || y % 400 == 0

/-- `SOLAR_MONTH_DAYS` -/
def monthDaysTable (m : Int) : Int :=
  if m == 2 then 28 else if m == 4 || m == 6 || m == 9 || m == 11 then 30 else 31

/-- `SolarMonth::get_day_count` -/
def monthLen (y m : Int) : Int :=
  if y == 1582 && m == 10 then 21
  else if m == 2 && isLeap y then 29 else monthDaysTable m

/-- `SolarYear::get_day_count` -/
def yearLen (y : Int) : Int :=
  if y == 1582 then 355 else if isLeap y then 366 else 365

/-- `SolarDay::new` acceptance (year via `SolarYear::new`, month via `SolarMonth::new`). -/
def solarDayOk (y m d : Int) : Bool :=
  decide (1 ≤ y ∧ y ≤ 9999) && decide (1 ≤ m ∧ m ≤ 12) && decide (1 ≤ d) &&
  (if y == 1582 && m == 10 then !((decide (d > 4) && decide (d < 15)) || decide (d > 31))
   else decide (d ≤ monthLen y m))

/-- `SolarDay::is_before` -/
def dayBefore (a b : Int × Int × Int) : Bool :=
  if a.1 != b.1 then decide (a.1 < b.1)
  else if a.2.1 != b.2.1 then decide (a.2.1 < b.2.1) else decide (a.2.2 < b.2.2)

/-- `SolarDay::is_after` -/
def dayAfter (a b : Int × Int × Int) : Bool :=
  if a.1 != b.1 then decide (a.1 > b.1)
  else if a.2.1 != b.2.1 then decide (a.2.1 > b.2.1) else decide (a.2.2 > b.2.2)

/-- `SolarDay::subtract` -/
def daySub (a b : Int × Int × Int) : Int := jdn a.1 a.2.1 a.2.2 - jdn b.1 b.2.1 b.2.2

/-- `SolarDay::next n` = `get_julian_day().next(n).get_solar_day()`; refused when the
resulting triple is not accepted by `SolarDay::new` (the code panics in `from_ymd`). -/
def dayNext (a : Int × Int × Int) (n : Int) : Option (Int × Int × Int) :=
  let r := ofJdn (jdn a.1 a.2.1 a.2.2 + n)
  if solarDayOk r.1 r.2.1 r.2.2 then some r else none

/-- `SolarDay::get_index_in_year` -/
def dayIndexInYear (a : Int × Int × Int) : Int := daySub a (a.1, 1, 1)

/-- `JulianDay::get_week` index for the noon-based day number. -/
def weekOfJdn (j : Int) : Int := (j + 7000001) % 7

end Tyme
