import Tyme.Model.Week
import Tyme.Model.Lunar
/-
Model of the LUNAR week code (src/tyme/lunar.rs): `LunarMonth::get_week_count` (369-371), `LunarMonth::get_weeks`
(384-393), `LunarWeek::{next, new, from_ym, get_first_day, get_days}` (519-619), over an abstract ephemeris `E`.

The text of the lunar functions is the civil text over a different month type, with three differences that are
mirrored literally here:
 * `get_week_count` takes the weekday from the month's first JULIAN day (`first_julian_day.get_week()`), whereas the
   border correction of `next` and the offset of `get_first_day` take it from
   `LunarDay::from_ymd(y, m, 1).get_week()`, which goes through the CIVIL day of the lunar day
   (`get_solar_day().get_week()`): refused when that day is not a date of 0001..9999 (`wdFirst`);
 * `LunarDay::next(n)` is `get_solar_day().next(n).get_lunar_day()` (clone for n = 0): the first day and the listed
   days of a week are the results of `SolarDay::get_lunar_day` (`Lunar.ofSolar`, the guess-and-walk of C02);
 * `LunarWeek::next(0)` is `clone()`.
`lunarOps E` is the lunar instance of `Wk.MonthOps` (first day number, day count, `LunarMonth::next(±1)`).
`while` loops are structural recursion on fuel (exhaustion = `none`).  Only core Lean; linked into the driver.
-/
namespace Tyme.LWk
open Tyme Tyme.Wk Tyme.Lunar

/-- the lunar instance of the generic month type -/
def lunarOps (E : Eph) : MonthOps Month where
  first := Lunar.first E
  len := Lunar.len E
  next := fun x => Lunar.next E x 1
  prev := fun x => Lunar.next E x (-1)

abbrev LunarWeek := Week Month

/-- `LunarMonth::get_week_count(start)` of a constructed month: weekday of `first_julian_day` -/
def monthWeekCount (E : Eph) (x : Month) (s : Int) : Int := weekCount (lunarOps E) x s

/-- `LunarMonth::from_ym(y, m).get_week_count(start)` (`start: usize`, any value) -/
def lunarWeekCount (E : Eph) (y m s : Int) : Option Int :=
  match fromYm E y m with
  | none => none
  | some x => if s < 0 then none else some (monthWeekCount E x s)

/-- `LunarWeek::new(year, month, index, start)` -/
def lunarWeekNew (E : Eph) (y m i s : Int) : Option LunarWeek :=
  if i < 0 ∨ s < 0 then none
  else if i > 5 then none
  else if s > 6 then none
  else
    match fromYm E y m with
    | none => none
    | some x => if i ≥ monthWeekCount E x s then none else some ⟨x, i, s⟩

/-- `LunarMonth::get_weeks(start)`: `LunarWeek::from_ym(y, m, i, start)` for i in 0..week_count -/
def lunarWeeks (E : Eph) (y m s : Int) : Option (List LunarWeek) :=
  match lunarWeekCount E y m s with
  | none => none
  | some wc => (List.range wc.toNat).mapM fun (i : Nat) => lunarWeekNew E y m (i : Int) s

/-- a lunar day: constructed month and day number -/
abbrev LDay := Month × Int

/-- `LunarDay::from_ymd(m.get_year(), m.get_month_with_leap(), 1)` for a month value `m` -/
def firstLunarDay (E : Eph) (x : Month) : Option LDay := dayNew E x.y (monthWithLeap E x) 1

/-- `LunarDay::get_week` = `get_solar_day().get_week()` -/
def dayWeek (E : Eph) (d : LDay) : Option Int :=
  match daySolar E d.1 d.2 with
  | none => none
  | some s => some (weekOfJdn (jdn s.1 s.2.1 s.2.2))

/-- `LunarDay::from_ymd(m.year, m.month_with_leap, 1).get_week()` -/
def wdFirst (E : Eph) (x : Month) : Option Int :=
  match firstLunarDay E x with
  | none => none
  | some d => dayWeek E d

/-- `LunarDay::next(n)`: clone for n = 0, else `get_solar_day().next(n).get_lunar_day()` -/
def lunarDayNext (E : Eph) (d : LDay) (n : Int) : Option LDay :=
  if n = 0 then some d
  else
    match daySolar E d.1 d.2 with
    | none => none
    | some s =>
      match dayNext s n with
      | none => none
      | some t => ofSolar E t.1 t.2.1 t.2.2

/-- `LunarWeek::get_first_day` = `first_day.next(index*7 - index_of(first_day.get_week() - start, 7))` -/
def lunarWeekFirstDay (E : Eph) (w : LunarWeek) : Option LDay :=
  match firstLunarDay E w.month with
  | none => none
  | some fd =>
    match dayWeek E fd with
    | none => none
    | some wd => lunarDayNext E fd (w.index * 7 - indexOf (wd - w.start) 7)

/-- `LunarWeek::get_days`: the first day, then `first.next(1..6)` -/
def lunarWeekDays (E : Eph) (w : LunarWeek) : Option (List LDay) :=
  match lunarWeekFirstDay E w with
  | none => none
  | some d => (List.range 7).mapM fun (k : Nat) => if k = 0 then some d else lunarDayNext E d (k : Int)

/-- the `n > 0` loop of `LunarWeek::next`: `while d >= week_count { d -= week_count; m = m.next(1);
if LunarDay::from_ymd(m.., 1).get_week() != start { d += 1 }; week_count = m.get_week_count(start) }` -/
def lfwd (E : Eph) (s : Int) : Nat → Month → Int → Option (Month × Int)
  | fuel, m, d =>
    if d ≥ monthWeekCount E m s then
      match fuel with
      | 0 => none
      | fuel + 1 =>
        match Lunar.next E m 1 with
        | none => none
        | some m' =>
          match wdFirst E m' with
          | none => none
          | some wd => lfwd E s fuel m' (d - monthWeekCount E m s + (if wd != s then 1 else 0))
    else some (m, d)

/-- the `n < 0` loop: `while d < 0 { if LunarDay::from_ymd(m.., 1).get_week() != start { d -= 1 }; m = m.next(-1);
d += m.get_week_count(start) }` -/
def lbwd (E : Eph) (s : Int) : Nat → Month → Int → Option (Month × Int)
  | fuel, m, d =>
    if d < 0 then
      match fuel with
      | 0 => none
      | fuel + 1 =>
        match wdFirst E m with
        | none => none
        | some wd =>
          match Lunar.next E m (-1) with
          | none => none
          | some m' => lbwd E s fuel m' (d - (if wd != s then 1 else 0) + monthWeekCount E m' s)
    else some (m, d)

/-- `LunarWeek::next(n)`; the final `from_ym(m.get_year(), m.get_month_with_leap(), d, start)` re-validates -/
def lunarWeekNext (E : Eph) (w : LunarWeek) (n : Int) : Option LunarWeek :=
  if n = 0 then some w
  else
    let d := w.index + n
    let r := if n > 0 then lfwd E w.start d.toNat w.month d else lbwd E w.start (-d).toNat w.month d
    match r with
    | none => none
    | some (m, d') => lunarWeekNew E m.y (monthWithLeap E m) d' w.start

end Tyme.LWk
