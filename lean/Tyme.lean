import Tyme.Model.Jd
import Tyme.Spec.Civil
