"""C10 configuration: history / schedule / refusal independence."""
import os
import sys
from props_common import *
import os, sys
sys.path.insert(0, os.path.join(os.path.dirname(os.path.abspath(__file__)), "tools"))
from gen_eph import gen_eph


def rand_ym(rng):
    pool = [(1, 12), (11, 2), (1, 11), (11, 1), (2, 11), (21, 1), (2, 12), (21, 2), (202, 3), (20, 23), (2023, 2), (2023, -2), (2023, 13), (2024, 0),
            (2020, -4), (2020, 4), (2020, -5), (100, 10), (1001, 0), (10, 1), (101, 1), (1, 1), (9999, 12), (0, 1), (-1, 1), (10000, 1), (123, 4), (12, 34),
            (1, 2), (1, 3), (12, 3), (1, 23), (33, 3), (3, 33), (333, 3), (33, 33), (8, 12), (9, 1), (24, 1), (239, -11), (-2, 1), (5, -13)]
    if rng.random() < 0.7:
        return rng.choice(pool)
    return rng.randint(-2, 10001), rng.randint(-14, 14)


def c10_histories(tier, seed, tmp, broken, k_fail, s_fail, ev_cov):
    import random
    import subprocess
    from checklib import TYMEH, TYMED
    rng = random.Random(seed + 10)

    def run(cmd, lines=None, path=None):
        if path:
            p = subprocess.run(cmd, stdout=subprocess.PIPE, stderr=subprocess.PIPE)
        else:
            p = subprocess.run(cmd, input=("\n".join(lines) + "\n").encode(), stdout=subprocess.PIPE, stderr=subprocess.PIPE)
        return p.stdout.decode().split("\n")

    # ---- 1. memo histories: model state machine vs implementation, op by op, plus the real key set
    nh = 300 if tier == "quick" else 5000
    lines = []
    for _ in range(nh):
        lines.append("cache.reset")
        ln = rng.choice([2, 3, 5, 10, 30, rng.randint(10, 200)])
        for _ in range(ln):
            lines.append("lunar.month %d %d" % rand_ym(rng))
        lines.append("cache.keys")
    # every position of a short history gets an injected refusal
    base = [(1, 12), (11, 2), (2020, -4), (2023, 2), (11, 2), (1, 12)]
    for pos in range(len(base) + 1):
        for bad in [(2024, 13), (2024, 0), (-2, 1), (2021, -4)]:
            h = base[:pos] + [bad] + base[pos:]
            lines.append("cache.reset")
            lines += ["lunar.month %d %d" % q for q in h]
            lines.append("cache.keys")
    path = os.path.join(tmp, "hist.txt")
    with open(path, "w") as f:
        f.write("\n".join(lines) + "\n")
    H = run([TYMEH, "exec"], lines)
    M = run([TYMED, "enum", "c10.hist", path], path=path)
    nk = 0
    for i, op in enumerate(lines):
        if H[i] != M[i]:
            nk += 1
            k_fail.append(("op", i + 1, "history line %d: %s => %s" % (i + 1, op, H[i]), "%s => %s" % (op, M[i])))
    # ---- 2. every answer equals the cold-cache answer (spec: a pure function of the arguments)
    cold_lines = []
    for op in lines:
        if op.startswith("lunar.month"):
            cold_lines += ["cache.reset", op]
    C = run([TYMEH, "exec"], cold_lines)
    cold = C[1::2]
    ns = 0
    j = 0
    hist_start = 0
    for i, op in enumerate(lines):
        if op == "cache.reset":
            hist_start = i
        if op.startswith("lunar.month"):
            if H[i] != cold[j]:
                ns += 1
                s_fail.append(("op", "after history %s: %s => %s" % (" ; ".join(lines[hist_start + 1:i]), op, H[i]), "%s => %s (cold cache)" % (op, cold[j])))
            j += 1
    # ---- 3. mixed API histories with refusals vs cold answers
    mixed = []
    bads = ["lunar.month 2024 13", "lunar.new 2024 13 1", "lunar.new 2024 1 31", "solar.new 2023 2 30", "ec.of 1 1 2 12 0 0", "term.of 1 1 3",
            "lunar.solar 0 1 1", "solar.lunar 10000 1 1", "lunar.year -2", "solar.next 9999 12 31 1", "scd 1 1 2", "sch 1 1 2 23 0 0", "lunar.next 9999 12 1 60",
            # births whose child limit cannot be built (end beyond 9999; end on a missing day of October 1582): refused inside the strategy call
            "limit 9999 12 20 12 0 0 1 0", "limit 9995 6 20 12 0 0 1 0", "limit 1572 10 28 12 0 0 0 0"]
    goods = []
    for _ in range(200 if tier == "quick" else 3000):
        y, m, d = rand_date(rng, 2, 9998)
        goods += ["solar.lunar %d %d %d" % (y, m, d), "scd %d %d %d" % (y, m, d), "ec.of %d %d %d %d 30 0" % (y, m, d, rng.randint(0, 23)),
                  "term.of %d %d %d" % (y, m, d), "lunar.month %d %d" % (y, rng.randint(1, 12))]
        if 1600 <= y <= 9900:
            goods.append("limit %d %d %d %d %d %d %d %d" % (y, m, d, rng.randint(0, 23), rng.randint(0, 59), rng.randint(0, 59), rng.randint(0, 1), rng.randint(0, 3)))
    for g in goods:
        if rng.random() < 0.5:
            mixed.append(rng.choice(bads))
        mixed.append(g)
    Hm = run([TYMEH, "exec"], mixed)
    # reference answers: every valid request after a memo reset in a process that never sees a refused request (a refusal
    # must not poison a lock, a memo or a provider for the requests after it); the refused requests are answered on their own
    badset = set(bads)
    cold_good = []
    for op in mixed:
        if op not in badset:
            cold_good += ["cache.reset", op]
    Cg = run([TYMEH, "exec"], cold_good)[1::2]
    Cb = {b: run([TYMEH, "exec"], [b])[0] for b in bads}
    it = iter(Cg)
    Cm = [Cb[op] if op in badset else next(it) for op in mixed]
    for i, op in enumerate(mixed):
        if Hm[i] != Cm[i]:
            ns += 1
            s_fail.append(("op", "mixed history position %d (previous: %s): %s => %s" % (i, mixed[max(0, i - 2):i], op, Hm[i]), "%s => %s (cold cache)" % (op, Cm[i])))
    # true fresh processes for a sample, and the whole mixed history twice (HashMap iteration order is per-process random)
    Hm2 = run([TYMEH, "exec"], mixed)
    if Hm2 != Hm:
        d = next(i for i in range(len(mixed)) if Hm[i] != Hm2[i])
        ns += 1
        s_fail.append(("op", "second process: %s => %s" % (mixed[d], Hm2[d]), "first process: %s => %s" % (mixed[d], Hm[d])))
    nfresh = 40 if tier == "quick" else 300
    for i in rng.sample(range(len(mixed)), min(nfresh, len(mixed))):
        r = run([TYMEH, "exec"], [mixed[i]])[0]
        if r != Hm[i]:
            ns += 1
            s_fail.append(("op", "in history: %s => %s" % (mixed[i], Hm[i]), "fresh process: %s => %s" % (mixed[i], r)))
    # ---- 4. schedules: 16 threads, overlapping / colliding / invalid queries, every answer vs the uncached constructor
    nops = 20000 if tier == "quick" else 300000
    T = run([TYMEH, "exec"], ["cache.threads %d 16 %d" % (seed, nops), "cache.threads %d 3 %d" % (seed + 1, nops)])
    for t in T[:2]:
        if not t.startswith("ok"):
            ns += 1
            s_fail.append(("op", "cache.threads => " + t, "cache.threads => ok (every answer equals the uncached constructor's)"))
    ev_cov["histories"] = {"memo_histories": nh + 28, "memo_ops": len(lines), "model_divergences": nk, "mixed_api_ops": len(mixed),
                           "fresh_process_ops": nfresh, "thread_answers": 19 * nops, "failing": ns, "sample": lines[:6]}
    print("[C10] histories: %d memo histories (%d ops) model-vs-code div %d; %d mixed-API ops vs cold cache; %d fresh-process ops; threads: %s | failing %d"
          % (nh + 28, len(lines), nk, len(mixed), nfresh, " / ".join(T[:2]), ns), flush=True)


def c10_ops(rng, tier):
    """per-object memo histories: one LunarHour / LunarDay value, pseudo-random queries, clones and steps (seeded in the op)"""
    n = 1500 if tier == "quick" else 20000
    L = []
    for _ in range(n):
        y = rng.choice([rng.randint(300, 9700), rng.randint(1900, 2100)])
        m = rng.randint(1, 12)
        d = rng.randint(1, 29)
        kind = 0 if rng.random() < 0.6 else 1
        ln = rng.choice([2, 3, 4, 6, 10, 25, 60])
        h = rng.choice([0, 1, 11, 12, 21, 22, 23, rng.randint(0, 23)])
        L.append("c10.objhist %d %d %d %d %d %d %d %d %d" % (kind, rng.randint(1, 10**9), ln, y, m, d, h, rng.randint(0, 59), rng.randint(0, 59)))
    for bad in ["c10.objhist 0 1 5 2024 13 1 0 0 0", "c10.objhist 0 1 5 2024 1 1 24 0 0", "c10.objhist 1 1 5 2024 1 31 0 0 0", "c10.objhist 2 1 5 2024 1 1 0 0 0"]:
        L.append(bad)
    return L


PROP = {
    "id": "C10",
    "thm_module": "Tyme.Thm.C10",
    "thm_file": "Tyme/Thm/C10.lean",
    "lean_targets": ["Tyme.Thm.C10"],
    "audit_files": ["Tyme/Lemmas/Cache.lean", "Tyme/Model/Cache.lean", "Tyme/Model/ObjMemo.lean", "Tyme/Model/ProviderLock.lean"],
    "gen": [gen_eph],
    "streams": [
        {"name": "c10.warm", "spec": False},   # all 123,684 lunations + 10,000 year records asked a second time in one process (warm memo)
    ],
    "ops": c10_ops,
    "extra_checks": [c10_histories],
    "exhaustive": False,
    "rule": "seeded memo histories (reset; 2..200 from_ym requests drawn from a pool of colliding digit pairs, leap months, invalid months and years; key set via "
            "the guarded hook) run through the implementation in one process and through the Lean state machine, compared op by op; every answer compared with "
            "the cold-cache answer; a refusal injected at every position of a short history; mixed-API histories with interleaved refused requests vs cold "
            "answers, vs a second process and vs fresh processes; 16- and 3-thread stress comparing every answer with the uncached constructor; "
            "per-object memo histories (c10.objhist): 2..60 pseudo-random memoised queries, clones and next(n) on ONE LunarHour / LunarDay value, every "
            "answer and every stepped value compared with the same operation on a value rebuilt from its numbers.",
}
