"""C09 configuration: hour pillar, 23:00 roll-over, eight characters and their inverse search."""
import os
import sys
from props_common import *

sys.path.insert(0, os.path.join(os.path.dirname(os.path.abspath(__file__)), "tools"))
from gen_eph import gen_eph


def rand_time(rng):
    y, m, d = rand_date(rng, 2, 9998)
    return y, m, d, rng.choice([0, 1, 11, 12, 22, 23, rng.randint(0, 23), rng.randint(0, 23)]), rng.randint(0, 59), rng.randint(0, 59)


def c09_ops(rng, tier):
    n = 3000 if tier == "quick" else 30000
    L = []
    for _ in range(n):
        L.append("ec.of %d %d %d %d %d %d" % rand_time(rng))
    # searches with arbitrary (also illegal) pillar combinations and ranges: model vs implementation
    for _ in range(n // 6):
        y0 = rng.randint(1, 9900)
        L.append("ec.search %d %d %d %d %d %d" % (rng.randint(0, 59), rng.randint(0, 59), rng.randint(0, 59), rng.randint(0, 59), y0, y0 + rng.choice([0, 1, 59, 60, 61, 130])))
    # the eight characters / pillars reported by a LunarHour that has a HISTORY (memoised views filled, stepped, cloned)
    # must be those of a freshly built value (per-object memo histories, see props_c10.py)
    from props_c10 import c10_ops
    L += [l for l in c10_ops(rng, tier) if l.startswith("c10.objhist 0 ")][:(500 if tier == "quick" else 5000)]
    return L


def c09_search(tier, seed, tmp, broken, k_fail, s_fail, ev_cov):
    """soundness + completeness of get_solar_times on random instants with an enclosing range, and on every double-hour of
    sampled days; spec side: pillars by the rules (driver specexec of `ec.of`) and Jie instants from the re-extracted term table"""
    import bisect
    import random
    import subprocess
    from checklib import TYMEH, TYMED, ROOT

    def run(exe, mode, lines):
        p = subprocess.run([exe, mode], input=("\n".join(lines) + "\n").encode(), stdout=subprocess.PIPE)
        return p.stdout.decode().split("\n")

    rng = random.Random(seed + 9)
    # Jie instants in seconds since day 0: 86400*termDay + sod (odd indices)
    jie = []
    for l in open(os.path.join(ROOT, "build", "dump", "terms.tsv")):
        y, i, qi, td, sod = l.split()
        if td != "0" and int(i) % 2 == 1:
            jie.append(86400 * int(td) + int(sod))
    jie.sort()
    n = 1500 if tier == "quick" else 20000
    # fixed probes first: instants in the first months of the D4 junction years, where the search is known to be incomplete
    # (known findings D4-c09-search-*: they must reproduce in every run), and one ordinary instant
    times = [(9, 1, 20, 1, 56, 30), (24, 1, 20, 1, 56, 30), (24, 3, 3, 1, 56, 30), (25, 1, 20, 1, 56, 30), (25, 3, 3, 1, 56, 30),
             (240, 1, 20, 1, 56, 30), (240, 3, 3, 1, 56, 30), (2024, 2, 10, 14, 30, 0)]
    times += [rand_time(rng) for _ in range(n)]
    # every double-hour of a few sampled days (13 probes: 0:30, 1:30, 3:30 … 23:30)
    for _ in range(40 if tier == "quick" else 400):
        y, m, d = rand_date(rng, 2, 9998)
        for h in [0] + list(range(1, 24, 2)):
            times.append((y, m, d, h, 30, 0))
    ops = ["ec.of %d %d %d %d %d %d" % t for t in times]
    H = run(TYMEH, "exec", ops)
    S = run(TYMED, "specexec", ops)
    jd = run(TYMEH, "exec", ["solar.jdn %d %d %d" % t[:3] for t in times])
    searches = []
    meta = []
    for t, h, s, j in zip(times, H, S, jd):
        if h == "refused" or j == "refused":
            continue
        if h != s:
            s_fail.append(("op", "ec.of %d %d %d %d %d %d => %s" % (t + (h,)), "ec.of %d %d %d %d %d %d => %s" % (t + (s,))))
            continue
        y0 = t[0] - rng.choice([0, 0, 1, 30, 59, 60])
        y1 = t[0] + rng.choice([0, 0, 1, 59, 60, 100])
        y0 = max(1, y0)
        y1 = min(9999, y1)
        searches.append("ec.search %s %d %d" % (h, y0, y1))
        meta.append((t, h, int(j)))
    R = run(TYMEH, "exec", searches)
    M = run(TYMED, "exec", searches)
    # soundness: every returned instant has the characters (by impl and by spec)
    back_ops = []
    back_meta = []
    n_incomplete = n_skipped_jie = 0
    for (t, ecs, j), sline, r, mline in zip(meta, searches, R, M):
        if r != mline:
            k_fail.append(("op", 0, sline + " => " + r, sline + " => " + mline))
        if r == "refused":
            s_fail.append(("op", sline + " => refused (instant %r has these characters)" % (t,), sline + " => a non-empty list"))
            continue
        parts = [p.strip() for p in r.split("|")][1:]
        found = [tuple(int(x) for x in p.split()) for p in parts]
        for f in found:
            back_ops.append("ec.of %d %d %d %d %d %d" % f)
            back_meta.append((sline, ecs))
        # completeness: the double-hour of t (start = 23:00 of the previous day for hours 23/0, else the odd hour)
        sec = 86400 * j + 3600 * t[3] + 60 * t[4] + t[5]
        start = (sec + 3600) // 7200 * 7200 - 3600
        k = bisect.bisect_left(jie, start)
        if k < len(jie) and jie[k] < start + 7200:
            n_skipped_jie += 1
            continue
        fj = run(TYMEH, "exec", ["solar.jdn %d %d %d" % f[:3] for f in found]) if found else []
        hit = False
        for f, fjd in zip(found, fj):
            fsec = 86400 * int(fjd) + 3600 * f[3] + 60 * f[4] + f[5]
            if start <= fsec < start + 7200:
                hit = True
        if not hit:
            n_incomplete += 1
            s_fail.append(("op", "ec.search.incomplete %d %d %d %d %d %d : " % t + sline + " => " + r + "   (no result inside the double-hour of this instant)",
                           sline + " => must contain an instant of that double-hour"))
    # searches for characters that are NOT those of the instant: one pillar replaced by a neighbour of the same branch
    # (hour pillar + 12k keeps the branch and breaks the Five-Rats stem; month pillar + 12k breaks the Five-Tigers stem), or
    # the day pillar moved with the hour pillar kept. Whatever comes back must still carry exactly the characters asked for
    # (soundness) and must be what the model returns (mostly nothing).
    psearch = []
    for (t, h, j), sline in list(zip(meta, searches))[:(400 if tier == "quick" else 4000)]:
        f = sline.split()
        ec = [int(x) for x in f[1:5]]
        k = rng.choice([1, 2, 3, 4])
        which = rng.choice([3, 3, 1, 2, 0])
        ec2 = list(ec)
        ec2[which] = (ec[which] + (12 * k if which in (1, 3) else rng.choice([1, 10, 12, 59]))) % 60
        psearch.append("ec.search %d %d %d %d %s %s" % (ec2[0], ec2[1], ec2[2], ec2[3], f[5], f[6]))
    PR = run(TYMEH, "exec", psearch)
    PM = run(TYMED, "exec", psearch)
    n_pfound = 0
    for sline, r, mline in zip(psearch, PR, PM):
        if r != mline:
            k_fail.append(("op", 0, sline + " => " + r, sline + " => " + mline))
        if r == "refused":
            continue
        ecs = " ".join(sline.split()[1:5])
        for pt in [q.strip() for q in r.split("|")][1:]:
            n_pfound += 1
            back_ops.append("ec.of " + pt)
            back_meta.append((sline, ecs))
    ev_cov["perturbed_searches"] = {"searches": len(psearch), "instants_returned": n_pfound, "sample": psearch[:3]}
    BH = run(TYMEH, "exec", back_ops)
    BS = run(TYMED, "specexec", back_ops)
    n_unsound = 0
    for (sline, ecs), op, bh, bs in zip(back_meta, back_ops, BH, BS):
        if bh != ecs or bs != ecs:
            n_unsound += 1
            s_fail.append(("op", sline + " returned " + op + " whose characters are " + bh, "characters " + ecs))
    ev_cov["search_sweep"] = {"instants": len(meta), "returned_instants_checked": len(back_ops), "incomplete": n_incomplete,
                              "unsound": n_unsound, "skipped_double_hours_containing_a_jie": n_skipped_jie, "sample": searches[:3]}
    print("[C09] search sweep: %d instants with enclosing ranges, %d returned instants re-checked, incomplete %d, unsound %d, skipped (Jie inside) %d"
          % (len(meta), len(back_ops), n_incomplete, n_unsound, n_skipped_jie), flush=True)


PROP = {
    "id": "C09",
    "thm_module": "Tyme.Thm.C09",
    "thm_file": "Tyme/Thm/C09.lean",
    "lean_targets": ["Tyme.Thm.C09", "Tyme.Thm.C09b"],
    "fact_files": [("Tyme/Thm/C09b.lean", "Tyme.Thm.C09b")],
    "audit_files": ["Tyme/Lemmas/Cycle.lean", "Tyme/Model/SixtyCycle.lean", "Tyme/Model/EightChar.lean"],
    "gen": [gen_eph],
    "streams": [
        {"name": "c09.hours"},   # all 60 day pillars x 24 hours through the instant view and the lunar-hour route
    ],
    "ops": with_extra(c09_ops, eq_kinds=(9, 11), dep=True, lhour=True, ec_names=True),
    "extra_checks": [c09_search],
    "exhaustive": False,
    "rule": "c09.hours: 60 consecutive days x 24 hours = every (day pillar, hour) combination, instant view and lunar-hour route, vs the rules; "
            "ops: random instants 0002..9998 -> eight characters (model, spec), random searches incl. illegal pillar combinations (model vs code, "
            "exact list equality); search sweep: random instants with an enclosing year range and every double-hour of sampled days: every "
            "returned instant has the characters (soundness), some returned instant lies in the instant's double-hour unless a Jie instant falls inside it (completeness).",
}
