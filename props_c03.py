"""C03 configuration: lunar months tile time."""
import os
import sys
from props_common import *

sys.path.insert(0, os.path.join(os.path.dirname(os.path.abspath(__file__)), "tools"))
from gen_eph import gen_eph
from extract_c03 import gen_c03


def c03_ops(rng, tier):
    n = 3000 if tier == "quick" else 40000
    L = []
    for _ in range(n):
        y = rng.choice([rng.randint(0, 9999), rng.randint(0, 9999), rng.randint(0, 300), rng.choice([0, 1, 8, 9, 23, 24, 25, 236, 239, 240, 9998, 9999])])
        m = rng.randint(1, 12)
        k = rng.random()
        if k < 0.6:
            nn = rng.choice([0, 1, -1, 12, 13, -12, -13, rng.randint(-40, 40), rng.randint(-400, 400), rng.randint(-3000, 3000)])
            if rng.random() < 0.01:
                nn = rng.choice([130000, -130000, 60000])
            L.append("lunar.month.next %d %d %d" % (y, m, nn))
        elif k < 0.75:
            L.append("lunar.month %d %d" % (rng.randint(-3, 10001), rng.randint(-14, 14)))
        elif k < 0.9:
            L.append("lunar.month.new %d %d" % (y, rng.choice([m, -m])))
        else:
            L.append("lunar.year %d" % rng.randint(-2, 10000))
    return L


PROP = {
    "id": "C03",
    "thm_module": "Tyme.Thm.C03",
    "thm_file": "Tyme/Thm/C03.lean",
    "lean_targets": ["Tyme.Thm.C03", "Tyme.Facts.C03Leap", "Tyme.Thm.C02b"],
    "fact_files": [("Tyme/Facts/C03Leap.lean", "Tyme.Facts.C03Leap"), ("Tyme/Thm/C02b.lean", "Tyme.Thm.C02b")],
    "audit_files": ["Tyme/Lemmas/Lunar.lean", "Tyme/Model/Lunar.lean", "Tyme/Model/Eph.lean", "Tyme/Model/RealEph.lean",
                    "Tyme/Facts/Months.lean", "Tyme/Facts/MonthsFact.lean", "Tyme/Basic/Packed.lean", "Tyme/Model/LeapTable.lean", "Tyme/Facts/C03Leap.lean"],
    "gen": [gen_eph, gen_c03],
    "streams": [
        {"name": "c03.grid", "spec": False},      # from_ym acceptance for every (year -2..10000, month -13..13)
        {"name": "c03.months", "spec": False},    # every listed month through the memoised constructor + year data
        {"name": "c03.tiles", "model": False},    # the property evaluated on the implementation vs "all hold"
        {"name": "c03.next", "args_thorough": ["all"]},  # next(n) from every month of the selected years
    ],
    "ops": with_extra(c03_ops, eq_kinds=(6, 7)),
    "exhaustive": True,
    "rule": "c03.grid: all 270,081 (year, month) candidates for from_ym; c03.months: all 123,684 lunations (first day, length, index) and "
            "10,000 year records; c03.tiles: the property itself per lunation (abuts next, 29/30 days, numbering) and per year (12/13, "
            "length range, = new-year distance); c03.next: 15 step counts from every month (quick: years 0..300 + every 10th). "
            "Translator T: the packed leap-month strings are lifted from the text of src/tyme/lunar.rs and C03_leap_table proves that their decoding answers the dumped leap month for every year 0..9999 with pairwise disjoint month lists. Table fact C03_tiles_fact is kernel-evaluated over all 10,000 year records of the re-extracted data.",
}
