"""C02 configuration: solar <-> lunar conversion."""
import os
import sys
from props_common import *

sys.path.insert(0, os.path.join(os.path.dirname(os.path.abspath(__file__)), "tools"))
from gen_eph import gen_eph


def rand_lunar(rng):
    y = rng.choice([rng.randint(0, 9999), rng.randint(0, 9999), rng.randint(0, 300), 2020, 2023, 2033, rng.choice([8, 9, 23, 24, 25, 236, 239, 240])])
    m = rng.randint(1, 12)
    if rng.random() < 0.25:
        m = -m
    d = rng.choice([1, 29, 30, rng.randint(1, 30), rng.randint(1, 30)])
    return y, m, d


def c02_ops(rng, tier):
    n = 6000 if tier == "quick" else 60000
    L = []
    leapyears = [(2020, 4), (2023, 2), (2025, 6), (2033, 11), (1984, 10), (2017, 6), (2012, 4), (1651, 1), (300, 0)]
    for _ in range(n):
        k = rng.random()
        if k < 0.35:
            y, m, d = rand_lunar(rng)
            y2, m2, d2 = rand_lunar(rng)
            if rng.random() < 0.7:
                y2 = y
                if rng.random() < 0.6:
                    m2 = rng.choice([m, -m, m + 1 if m > 0 and m < 12 else m, -abs(m)])
            if rng.random() < 0.3:
                ly, lm = rng.choice(leapyears)
                if lm:
                    y = y2 = ly
                    m, m2 = rng.choice([(lm, -lm), (-lm, lm), (-lm, lm + 1 if lm < 12 else lm), (lm - 1 if lm > 1 else lm, -lm), (-lm, -lm)])
            L.append("%s %d %d %d %d %d %d" % (rng.choice(["lunar.before", "lunar.after"]), y, m, d, y2, m2, d2))
        elif k < 0.55:
            y, m, d = rand_lunar(rng)
            L.append("lunar.solar %d %d %d" % (y, m, d))
        elif k < 0.8:
            y, m, d = rand_date(rng)
            L.append("solar.lunar %d %d %d" % (y, m, d))
        elif k < 0.9:
            y, m, d = rand_lunar(rng)
            L.append("lunar.new %d %d %d" % (y, rng.choice([m, -m, 0, 13, -13]), rng.choice([d, 0, 31, -1])))
        else:
            y, m, d = rand_lunar(rng)
            L.append("lunar.next %d %d %d %d" % (y, m, d, rng.choice([0, 1, -1, 29, 30, -30, 354, 384, rng.randint(-1000, 1000)])))
    return L


PROP = {
    "id": "C02",
    "thm_module": "Tyme.Thm.C02",
    "thm_file": "Tyme/Thm/C02.lean",
    "lean_targets": ["Tyme.Thm.C02", "Tyme.Thm.C02b"],
    "fact_files": [("Tyme/Thm/C02b.lean", "Tyme.Thm.C02b")],
    "audit_files": ["Tyme/Lemmas/Lunar.lean", "Tyme/Lemmas/LunarWalk.lean", "Tyme/Model/Lunar.lean", "Tyme/Model/Eph.lean",
                    "Tyme/Model/RealEph.lean", "Tyme/Facts/Months.lean", "Tyme/Facts/MonthsFact.lean", "Tyme/Basic/Packed.lean"],
    "gen": [gen_eph],
    "streams": [
        {"name": "c02.days", "args_thorough": ["all"]},    # civil day -> lunar day -> civil day
        {"name": "c02.lunar", "args_thorough": ["all"]},   # accepted lunar day -> civil day -> lunar day (+ refusals of day 0/31)
    ],
    "ops": with_extra(c02_ops, eq_kinds=(6, 7, 8), objhist=(1,)),
    "exhaustive": False,
    "rule": "c02.days: every civil date of the selected years (quick: years 1..300, every 10th year, 1575..1590, 9997..9999 = ~470k days; "
            "thorough: all 3,652,061) with its lunar date and the civil date that converts back to; c02.lunar: every lunar (year, month, day 0..31) "
            "of those years with its civil date and the lunar date converting back; ops: seeded is_before/is_after pairs (70% same year, leap twins "
            "of known leap years), conversions, acceptance, LunarDay::next. S compares with the executable spec "
            "'the last listed month starting on or before the day' / listing order.",
}
