"""C15 configuration: term-anchored day series (Nines, Dog days, Plum rains, pentads, commanding stem)."""
import os
import sys
from props_common import *

sys.path.insert(0, os.path.join(os.path.dirname(os.path.abspath(__file__)), "tools"))
from gen_eph import gen_eph


def c15_ops(rng, tier):
    n = 3000 if tier == "quick" else 30000
    L = []
    for _ in range(n):
        y, m, d = rand_date(rng)
        k = rng.random()
        if k < 0.5:
            L.append("series %d %d %d" % (y, m, d))
        else:
            # summer half of the year: dog days / plum rains are decided here
            L.append("%s %d %d %d" % (rng.choice(["nine", "dog", "plum", "pheno", "hide"]), y, rng.choice([m, 6, 7, 8, 12, 1]), min(d, 28)))
    return L


PROP = {
    "id": "C15",
    "thm_module": "Tyme.Thm.C15",
    "thm_file": "Tyme/Thm/C15.lean",
    "lean_targets": ["Tyme.Thm.C15", "Tyme.Thm.C15b"],
    "fact_files": [("Tyme/Thm/C15b.lean", "Tyme.Thm.C15b")],
    "audit_files": ["Tyme/Model/Series.lean", "Tyme/Spec/Series.lean", "Tyme/Lemmas/Series.lean", "Tyme/Facts/C15Dec.lean",
                    "Tyme/Model/Term.lean", "Tyme/Model/SixtyCycle.lean", "Tyme/Model/Lunar.lean"],
    "gen": [gen_eph],
    "streams": [
        {"name": "c15.days", "args_thorough": ["all"], "extra_years": True},   # every civil date: all five series
    ],
    "ops": c15_ops,
    "exhaustive": False,
    "rule": "c15.days: all five series (get_nine_day, get_dog_day, get_plum_rain_day, get_phenology_day, get_hide_heaven_stem_day) on every civil "
            "date of the selected years (quick ~470k dates, thorough all 3,652,061). K: model of the code over the re-extracted ephemeris. "
            "S: first-principles spec (Spec/Series.lean) — day number from the civil ordinal, anchors by binary search over the term table, "
            "stem/branch from (day number + 49) mod 60, classical allotment table — for years 2..9998 (outside, the spec side repeats the model). "
            "ops: seeded random single-series look-ups + corpus.",
}
