"""Per-property configuration for ./check."""
import os

TRUSTED_BASE = [
    "Lean 4.33.0 kernel (thorough tier: re-checked by leanchecker)",
    "axioms allowed in obligations: propext, Classical.choice, Quot.sound (audited by #print axioms per theorem); no native_decide, no sorry",
    "harness/ (Rust): maps each op line / stream to the named tyme4rs API call on /repo's working tree",
    "Lean compiler for the driver `tymed` (correspondence only, not proofs)",
    "hand-written model in lean/Tyme/Model (tied to the code by the correspondence run, not verified against the Rust text)",
]
ASSUMPTIONS = [
    "isize/usize modelled as unbounded Int/Nat; refusals (Err or panic) canonicalised to `refused`",
    "f64 day-number arithmetic of jd.rs modelled in exact integers (validated exhaustively over all 3,652,061 days)",
]


def rand_date(rng, lo=1, hi=9999):
    y = rng.choice([rng.randint(lo, hi), rng.randint(lo, hi), 1582, rng.choice([1, 2, 4, 100, 400, 1500, 1581, 1583, 1600, 1700, 1900, 2000, 2024, 9998, 9999])])
    y = min(max(y, lo), hi)
    m = rng.randint(1, 12)
    if y == 1582 and rng.random() < 0.5:
        m = 10
    ml = [31, 28, 31, 30, 31, 30, 31, 31, 30, 31, 30, 31][m - 1]
    d = rng.choice([1, ml, rng.randint(1, ml), rng.randint(1, ml), min(ml, 28), 29 if m == 2 else 15])
    if y == 1582 and m == 10 and 4 < d < 15:
        d = rng.choice([4, 15])
    return y, m, d




def extra_years_arg(window=45):
    """`extra=...` argument for the year-sampled day streams (quick tier): the years of this run's term dump in which a term
    instant falls within `window` seconds of civil midnight or of noon (where day-level look-ups are fragile)."""
    import os
    root = os.path.dirname(os.path.abspath(__file__))
    ys = set()
    try:
        for l in open(os.path.join(root, "build", "dump", "terms.tsv")):
            f = l.split()
            if len(f) >= 5 and f[3] != "0":
                sod = int(f[4])
                if sod < window or sod > 86400 - window or abs(sod - 43200) < window:
                    ys.add(int(f[0]))
                    if int(f[1]) >= 22:
                        ys.add(int(f[0]) + 1)
    except OSError:
        return []
    ys = sorted(y for y in ys if 1 <= y <= 9999)
    return ["extra=" + ",".join(str(y) for y in ys)] if ys else []


# step counts that are multiples of the cycle lengths in play (7 days, 10 stems, 12 branches / months, 13 lunar months, 24 terms,
# 60 pillars, 235 lunations of the 19-year cycle, 365/366 days) and their neighbours — for every stepping request generator
CYCLE_STEPS = sorted(set(s * k + o for s in (7, 10, 12, 13, 24, 60, 235, 365, 366) for k in (1, 2, 5, -1, -2, -5) for o in (0, 1, -1)))


# ---------------------------------------------------------------------------------------------------------------------
# equality glue: the library's own `==` / `!=` on two values built from numbers (harness peq.rs, driver PEq.lean).
# Only numbers of values that EXIST are sent (the model answers by comparing the numbers), and the second value differs
# from the first in exactly one field, in all fields, or in none.
EQ_KINDS = {1: "SolarDay", 2: "SolarMonth", 3: "SolarYear", 4: "SolarTime", 5: "SolarWeek", 6: "LunarYear", 7: "LunarMonth", 8: "LunarDay",
            9: "LunarHour", 10: "LunarWeek", 11: "EightChar", 12: "JulianDay", 13: "SixtyCycleYear", 14: "ChildLimit", 15: "Fortune",
            16: "DecadeFortune", 17: "SolarHalfYear", 18: "SolarSeason", 19: "SolarFestival", 20: "LunarFestival"}
N_CYC_TYPES = 42
_MONTHS = None


def _civil_ok(y, m, d):
    if not (1 <= y <= 9999 and 1 <= m <= 12 and d >= 1):
        return False
    leap = (y % 4 == 0) if y < 1582 or (y == 1582 and m < 10) else (y % 4 == 0 and (y % 100 != 0 or y % 400 == 0))
    ml = [31, 29 if leap else 28, 31, 30, 31, 30, 31, 31, 30, 31, 30, 31][m - 1]
    if d > ml:
        return False
    return not (y == 1582 and m == 10 and 4 < d < 15)


def _lunar_months():
    """(year, signed month) -> day count, from this run's month dump (None when the property has no ephemeris dump)"""
    global _MONTHS
    if _MONTHS is None:
        import os
        root = os.path.dirname(os.path.abspath(__file__))
        try:
            _MONTHS = {}
            for l in open(os.path.join(root, "build", "dump", "months.tsv")):
                f = l.split()
                if len(f) >= 4:
                    _MONTHS[(int(f[0]), int(f[1]))] = int(f[3])
        except OSError:
            _MONTHS = {}
    return _MONTHS


def _eq_valid(kind, v):
    t = lambda h, mi, s: 0 <= h <= 23 and 0 <= mi <= 59 and 0 <= s <= 59
    lm = _lunar_months()
    if kind == 1:
        return _civil_ok(*v)
    if kind == 2:
        return 1 <= v[0] <= 9999 and 1 <= v[1] <= 12
    if kind in (3, 13):
        return 1 <= v[0] <= 9999
    if kind in (4, 12):
        return _civil_ok(*v[:3]) and t(*v[3:])
    if kind == 5:
        return 1 <= v[0] <= 9999 and 1 <= v[1] <= 12 and 0 <= v[2] <= 3 and 0 <= v[3] <= 6 and not (v[0] == 1582 and v[1] == 10)
    if kind == 6:
        return 1 <= v[0] <= 9998
    if kind == 7:
        return 2 <= v[0] <= 9997 and (v[0], v[1]) in lm
    if kind == 8:
        return 2 <= v[0] <= 9997 and 1 <= v[2] <= lm.get((v[0], v[1]), 0)
    if kind == 9:
        return 2 <= v[0] <= 9997 and 1 <= v[2] <= lm.get((v[0], v[1]), 0) and t(*v[3:])
    if kind == 10:
        return 2 <= v[0] <= 9997 and (v[0], v[1]) in lm and 0 <= v[2] <= 3 and 0 <= v[3] <= 6
    if kind == 11:
        return all(0 <= x <= 59 for x in v)
    # births of 1571..1582 can be refused (known finding D22: the limit's calendar addition walks into October 1582)
    if kind == 14:
        return 300 <= v[0] <= 9900 and not 1570 <= v[0] <= 1583 and _civil_ok(*v[:3]) and t(*v[3:6]) and v[6] in (0, 1)
    if kind in (15, 16):
        return 300 <= v[0] <= 9900 and not 1570 <= v[0] <= 1583 and _civil_ok(*v[:3]) and t(*v[3:6]) and v[6] in (0, 1) and 0 <= v[7] <= 9
    if kind == 17:
        return 1 <= v[0] <= 9999 and 0 <= v[1] <= 1
    if kind == 18:
        return 1 <= v[0] <= 9999 and 0 <= v[1] <= 3
    if kind == 19:      # all ten civil festivals exist from 1985 on
        return 1990 <= v[0] <= 9999 and 0 <= v[1] <= 9
    if kind == 20:      # the 13 lunar festivals of a lunar year whose neighbours exist
        return 300 <= v[0] <= 9900 and 0 <= v[1] <= 12
    return False


def _eq_rand(rng, kind):
    tm = lambda: (rng.choice([0, 23, rng.randint(0, 23)]), rng.choice([0, 59, rng.randint(0, 59)]), rng.choice([0, 59, rng.randint(0, 59)]))
    lm = _lunar_months()
    if kind == 1:
        return rand_date(rng)
    if kind == 2:
        return (rng.randint(1, 9999), rng.randint(1, 12))
    if kind in (3, 13):
        return (rng.randint(1, 9999),)
    if kind in (4, 12):
        return rand_date(rng) + tm()
    if kind == 5:
        return (rng.randint(1, 9999), rng.randint(1, 12), rng.randint(0, 3), rng.randint(0, 6))
    if kind == 6:
        return (rng.randint(1, 9998),)
    if kind in (7, 8, 9, 10):
        if not lm:
            return None
        y = rng.randint(2, 9997)
        ms = [k[1] for k in lm if k[0] == y] if rng.random() < 0.05 else None
        leaps = [m for m in range(-12, 0) if (y, m) in lm]
        m = rng.choice(leaps + [-leaps[0]]) if leaps and rng.random() < 0.6 else rng.randint(1, 12)
        if ms:
            m = rng.choice(ms)
        if kind == 7:
            return (y, m)
        if kind == 10:
            return (y, m, rng.randint(0, 3), rng.randint(0, 6))
        d = rng.choice([1, lm[(y, m)], rng.randint(1, lm[(y, m)])])
        return (y, m, d) if kind == 8 else (y, m, d) + tm()
    if kind == 11:
        return tuple(rng.randint(0, 59) for _ in range(4))
    if kind == 14:
        return rand_date(rng, 300, 9900) + tm() + (rng.randint(0, 1),)
    if kind in (15, 16):
        return rand_date(rng, 300, 9900) + tm() + (rng.randint(0, 1), rng.randint(0, 9))
    if kind == 17:
        return (rng.randint(1, 9999), rng.randint(0, 1))
    if kind == 18:
        return (rng.randint(1, 9999), rng.randint(0, 3))
    if kind == 19:
        return (rng.randint(1990, 9999), rng.randint(0, 9))
    if kind == 20:
        return (rng.randint(300, 9900), rng.randint(0, 12))
    return None


def eq_ops(rng, tier, kinds=(), cyc_types=()):
    """`eq.v` requests for the value kinds and `eq.cyc` requests for the LoopTyme type numbers"""
    n = 40 if tier == "quick" else 120
    L = []
    for kind in kinds:
        for _ in range(n):
            a = _eq_rand(rng, kind)
            if a is None or not _eq_valid(kind, a):
                continue
            bs = [a]
            other = _eq_rand(rng, kind)
            for p in range(len(a)):
                for delta in (1, -1, None):
                    if delta is None:
                        if other is None or other[p] == a[p]:
                            continue
                        b = a[:p] + (other[p],) + a[p + 1:]
                    else:
                        b = a[:p] + (a[p] + delta,) + a[p + 1:]
                    # lunar twin: the same month number with the other leap sign
                    if _eq_valid(kind, b):
                        bs.append(b)
                if kind in (7, 8, 9, 10) and p == 1:
                    b = a[:1] + (-a[1],) + a[2:]
                    if _eq_valid(kind, b):
                        bs.append(b)
            if other is not None and _eq_valid(kind, other):
                bs.append(other)
            if kind in (5, 10):
                # weeks are compared through their first day: two numberings can name one week; keep year and month fixed
                bs = [b for b in bs if b[:2] == a[:2]]
            if kind in (15, 16):
                bs = [b for b in bs if b[:7] == a[:7]] + [b for b in bs if b[:7] != a[:7]][:2]
            for b in bs:
                L.append("eq.v %d %s %s" % (kind, " ".join(map(str, a)), " ".join(map(str, b))))
    for t in cyc_types:
        for _ in range(8 if tier == "quick" else 16):
            i = rng.randint(-200, 200)
            for j in (i, i + 1, i - 1, rng.randint(-200, 200), i + rng.choice([2, 5, 10, 12, 60]), -i):
                L.append("eq.cyc %d %d %d" % (t, i, j))
    return L


def objhist_ops(rng, tier, kinds=(0, 1), n_quick=300, n_thorough=900):
    """read-step-read histories on ONE LunarHour (kind 0) / LunarDay (kind 1) value (op c10.objhist): a step or clone that carries
    the source value's lazily filled memos over gives answers about the wrong day"""
    L = []
    for _ in range(n_quick if tier == "quick" else n_thorough):
        y = rng.choice([rng.randint(300, 9700), rng.randint(1900, 2100)])
        kind = rng.choice(list(kinds))
        L.append("c10.objhist %d %d %d %d %d %d %d %d %d" % (kind, rng.randint(1, 10**9), rng.choice([2, 3, 4, 6, 10, 25]), y, rng.randint(1, 12), rng.randint(1, 29),
                                                            rng.choice([0, 1, 11, 12, 21, 22, 23, rng.randint(0, 23)]), rng.randint(0, 59), rng.randint(0, 59)))
    return L


def dep_ops(rng, tier):
    """the older (deprecated, public) pillar getters of LunarDay / LunarHour at random dates and instants"""
    L = []
    for _ in range(300 if tier == "quick" else 900):
        y, m, d = rand_date(rng, 27, 9990)
        L.append("scd.dep %d %d %d" % (y, m, d))
        L.append("sch.dep %d %d %d %d %d %d" % (y, m, d, rng.choice([0, 1, 12, 22, 23, rng.randint(0, 23)]), rng.randint(0, 59), rng.randint(0, 59)))
    return L


def lhour_cmp_ops(rng, tier):
    """order and equality of the lunar hours of two civil instants (same instant, a second / an hour / a day / one or two
    lunations apart — the leap twin of a month is one lunation away — and unrelated)"""
    L = []
    for _ in range(250 if tier == "quick" else 700):
        y, m, d = rand_date(rng, 300, 9900)
        if not _civil_ok(y, m, d):
            continue
        a = (y, m, d, rng.choice([0, 22, 23, rng.randint(0, 23)]), rng.randint(0, 59), rng.randint(0, 59))
        cands = [a, a[:5] + ((a[5] + 1) % 60,), a[:3] + ((a[3] + 1) % 24,) + a[4:], rand_date(rng, 300, 9900) + a[3:]]
        for dd in (1, 29, 30, 59):
            y2, m2, d2 = y, m, d + dd
            while d2 > 28:
                d2 -= 28; m2 += 1
                if m2 > 12:
                    m2 = 1; y2 += 1
            if _civil_ok(y2, m2, d2):
                cands.append((y2, m2, d2) + a[3:])
        for b in cands:
            if _civil_ok(*b[:3]):
                p, q = (a, b) if rng.random() < 0.5 else (b, a)
                L.append("lhour.cmp %s %s" % (" ".join(map(str, p)), " ".join(map(str, q))))
    return L


def with_extra(base, eq_kinds=(), eq_cyc=(), objhist=(), dep=False, lhour=False, ec_names=False, fetus_wire=False):
    """the property's own request generator plus the glue requests shared between properties"""
    def ops(rng, tier):
        L = list(base(rng, tier))
        L += eq_ops(rng, tier, eq_kinds, eq_cyc)
        if objhist:
            L += objhist_ops(rng, tier, objhist)
        if dep:
            L += dep_ops(rng, tier)
        if lhour:
            L += lhour_cmp_ops(rng, tier)
        if ec_names:
            L += ["ec.names %d %d %d %d" % tuple(rng.randint(0, 59) for _ in range(4)) for _ in range(200 if tier == "quick" else 600)]
        if fetus_wire:
            L += ["fetus.wire %d %d %d" % t for t in (rand_date(rng, 27, 9990) for _ in range(400 if tier == "quick" else 1200)) if _civil_ok(*t)]
        return L
    ops.__name__ = getattr(base, "__name__", "ops")
    ops.__doc__ = base.__doc__
    return ops
