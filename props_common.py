"""Per-property configuration for ./check."""
import os

TRUSTED_BASE = [
    "Lean 4.33.0 kernel (thorough tier: re-checked by leanchecker)",
    "axioms allowed in obligations: propext, Classical.choice, Quot.sound (audited by #print axioms per theorem); no native_decide, no sorry",
    "harness/ (Rust): maps each op line / stream to the named tyme4rs API call on /repo's working tree",
    "Lean compiler for the driver `tymed` (correspondence only, not proofs)",
    "hand-written model in lean/Tyme/Model (tied to the code by the correspondence run, not verified against the Rust text)",
]
ASSUMPTIONS = [
    "isize/usize modelled as unbounded Int/Nat; refusals (Err or panic) canonicalised to `refused`",
    "f64 day-number arithmetic of jd.rs modelled in exact integers (validated exhaustively over all 3,652,061 days)",
]


def rand_date(rng, lo=1, hi=9999):
    y = rng.choice([rng.randint(lo, hi), rng.randint(lo, hi), 1582, rng.choice([1, 2, 4, 100, 400, 1500, 1581, 1583, 1600, 1700, 1900, 2000, 2024, 9998, 9999])])
    y = min(max(y, lo), hi)
    m = rng.randint(1, 12)
    if y == 1582 and rng.random() < 0.5:
        m = 10
    ml = [31, 28, 31, 30, 31, 30, 31, 31, 30, 31, 30, 31][m - 1]
    d = rng.choice([1, ml, rng.randint(1, ml), rng.randint(1, ml), min(ml, 28), 29 if m == 2 else 15])
    if y == 1582 and m == 10 and 4 < d < 15:
        d = rng.choice([4, 15])
    return y, m, d




def extra_years_arg(window=45):
    """`extra=...` argument for the year-sampled day streams (quick tier): the years of this run's term dump in which a term
    instant falls within `window` seconds of civil midnight or of noon (where day-level look-ups are fragile)."""
    import os
    root = os.path.dirname(os.path.abspath(__file__))
    ys = set()
    try:
        for l in open(os.path.join(root, "build", "dump", "terms.tsv")):
            f = l.split()
            if len(f) >= 5 and f[3] != "0":
                sod = int(f[4])
                if sod < window or sod > 86400 - window or abs(sod - 43200) < window:
                    ys.add(int(f[0]))
                    if int(f[1]) >= 22:
                        ys.add(int(f[0]) + 1)
    except OSError:
        return []
    ys = sorted(y for y in ys if 1 <= y <= 9999)
    return ["extra=" + ",".join(str(y) for y in ys)] if ys else []


# step counts that are multiples of the cycle lengths in play (7 days, 10 stems, 12 branches / months, 13 lunar months, 24 terms,
# 60 pillars, 235 lunations of the 19-year cycle, 365/366 days) and their neighbours — for every stepping request generator
CYCLE_STEPS = sorted(set(s * k + o for s in (7, 10, 12, 13, 24, 60, 235, 365, 366) for k in (1, 2, 5, -1, -2, -5) for o in (0, 1, -1)))
