"""C14 configuration: weeks of a month (civil half; lunar half modelled generically, correspondence pending)."""
from props_common import *


def c14_ops(rng, tier):
    n = 6000 if tier == "quick" else 60000
    L = []
    steps = [0, 1, -1, 2, -2, 4, -4, 5, -5, 6, -6, 52, -52, 53, -53, 60, -60]
    for _ in range(n):
        k = rng.random()
        y, m, d = rand_date(rng)
        s = rng.randint(0, 6)
        i = rng.choice([0, 0, 1, 2, 3, 4, 4, 5])
        if k < 0.40:
            # stepping: |n| <= 60 mostly, some long walks, some that leave the range
            nn = rng.choice([rng.choice(steps), rng.randint(-60, 60), rng.randint(-60, 60), rng.randint(-600, 600),
                             rng.choice([5000, -5000, 52178, -52178, 521775, -521775])])
            if rng.random() < 0.15:
                y = rng.choice([1, 1, 2, 9998, 9999, 9999, 1582])
            L.append("%s %d %d %d %d %d" % (rng.choice(["week.next", "week.nextfd", "week.nextfd"]), y, m, i, s, nn))
        elif k < 0.50:
            L.append("week.new %d %d %d %d" % (rng.choice([y, y, rng.randint(-2, 10002)]), rng.randint(-1, 14), rng.randint(-1, 8), rng.randint(-1, 8)))
        elif k < 0.58:
            L.append("week.count %d %d %d" % (rng.choice([y, y, rng.randint(-2, 10002)]), rng.choice([m, m, rng.randint(-1, 14)]), rng.choice([s, s, rng.randint(-1, 20)])))
        elif k < 0.66:
            L.append("%s %d %d %d %d" % (rng.choice(["week.first", "week.days"]), rng.choice([y, y, y, 1, 9999]), rng.choice([m, m, m, 1, 12]), i, s))
        elif k < 0.76:
            L.append("week.idx %d %d %d %d" % (y, m, i, s))
        elif k < 0.90:
            L.append("%s %d %d %d %d" % (rng.choice(["week.of", "week.offd"]), y, m, d, rng.choice([s, s, s, s, rng.randint(-1, 9)])))
        elif k < 0.95:
            L.append("week.weeks %d %d %d" % (y, m, rng.choice([s, s, s, rng.randint(-1, 8)])))
        else:
            # equality of the shared week of two adjacent months and of unrelated weeks
            y2, m2 = (y, m + 1) if m < 12 else (min(y + 1, 9999), 1)
            L.append("week.eq %d %d %d %d %d %d %d %d" % (y, m, rng.choice([3, 4, 5]), s, y2, m2, rng.choice([0, 0, 1]), s))
    return L


PROP = {
    "id": "C14",
    "thm_module": "Tyme.Thm.C14",
    "thm_file": "Tyme/Thm/C14.lean",
    "lean_targets": ["Tyme.Thm.C14"],
    "audit_files": ["Tyme/Lemmas/Week.lean", "Tyme/Model/Week.lean", "Tyme/Spec/Week.lean",
                    "Tyme/Lemmas/Jd.lean", "Tyme/Model/Jd.lean", "Tyme/Spec/Civil.lean"],
    "streams": [
        # per (year, month, start): week count, acceptance mask of SolarWeek::new for index 0..7, get_weeks, and for
        # every week the day number of its first day and the offsets of its 7 listed days
        {"name": "c14.weeks", "args_quick": ["quick"], "args_thorough": ["thorough"]},
        # per (year, month, start): index of get_solar_week(start) for every existing day of the month
        {"name": "c14.of", "args_quick": ["quick"], "args_thorough": ["thorough"]},
        # per (year, start): get_index_in_year of every week of every month
        {"name": "c14.idx", "args_quick": ["quick"], "args_thorough": ["thorough"]},
        # per (year, month, start): (month, index) returned by next(-1), next(1), next(-5), next(5) of every week;
        # the representation is not part of the property, so there is no spec stream (first days are in `week.nextfd` ops)
        {"name": "c14.step", "args_quick": ["quick"], "args_thorough": ["thorough"], "spec": False},
        # thorough only: every week of the years 1, 2, 1581-1583, 9998, 9999 stepped by EVERY n in -60..60: day number of the
        # first day of the result (x = next refused, X = its first day is before 0001-01-01)
        {"name": "c14.edges", "tier": "thorough"},
    ],
    "ops": c14_ops,
    "exhaustive": True,
    "rule": "streams over all 119,988 civil months x 7 week starts in the thorough tier (quick: years 1-5, 9995-9999, 1581-1583 and "
            "every 10th year): c14.weeks = week count, acceptance of every index 0..7, get_weeks, first-day number and the 7 listed "
            "days of every week; c14.of = week index reported for every existing date; c14.idx = index in year of every week; "
            "c14.step = next(+-1), next(+-5) of every week; c14.edges (thorough only) = next(n) for every n in -60..60 from every week of the years 1, 2, 1581-1583, 9998, 9999. Each compared byte-for-byte model-vs-implementation (K) and, except "
            "c14.step, spec-vs-implementation (S; spec = maximal start-aligned 7-day blocks meeting the month, on ordinals). "
            "ops: seeded random + corpus requests (week.next / week.nextfd with |n| <= 60, long walks and walks leaving the range; "
            "new/count/first/days/idx/of/weeks/eq with valid and invalid arguments). distinct_nontrivial = stream lines + distinct op lines.",
    "assumptions": ASSUMPTIONS + [
        "week count `(x as f64 / 7.0).ceil()` modelled as integer ceiling (x <= 37: exact in f64; compared exhaustively)",
        "Week equality (`!=` on Week compares names) modelled as index inequality: the seven weekday names are pairwise distinct",
        "the harness is built against the scratch worktree of /repo with fixes/C14-week-oct1582.diff applied (get_solar_week position by day count); model and theorems describe the repaired behaviour",
        "LunarWeek: same generic model (Tyme.Wk over MonthOps) and theorems (C14_gen_*) apply to any month sequence satisfying Wk.Laws; the lunar instance and its correspondence ops are not part of this check yet",
    ],
}
