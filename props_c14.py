"""C14 configuration: weeks of a month (civil half: SolarWeek; lunar half: LunarWeek over the extracted month table)."""
import os
import sys
from props_common import *

sys.path.insert(0, os.path.join(os.path.dirname(os.path.abspath(__file__)), "tools"))
from gen_eph import gen_eph
from gen_c13 import gen_c13


def rand_lmonth(rng):
    """a lunar (year, signed month): uniform years, early years, known leap months, the D4 junction years"""
    k = rng.random()
    if k < 0.12:
        y, m = rng.choice([(2020, -4), (2023, -2), (2025, -6), (2033, -11), (1984, -10), (2017, -6), (2012, -4), (1651, -1)])
        return y, m
    if k < 0.20:
        return rng.choice([0, 1, 8, 9, 23, 24, 25, 236, 239, 240, 9998, 9999]), rng.randint(1, 12)
    y = rng.choice([rng.randint(0, 9999), rng.randint(0, 9999), rng.randint(0, 300), rng.randint(1900, 2100)])
    m = rng.randint(1, 12)
    if rng.random() < 0.06:
        m = -m
    return y, m


def c14b_ops(rng, tier):
    n = 3000 if tier == "quick" else 30000
    L = []
    steps = [0, 1, -1, 2, -2, 4, -4, 5, -5, 6, -6, 52, -52, 53, -53, 60, -60]
    for _ in range(n):
        k = rng.random()
        y, m = rand_lmonth(rng)
        s = rng.randint(0, 6)
        i = rng.choice([0, 0, 1, 2, 3, 4, 4, 5])
        if k < 0.40:
            nn = rng.choice([rng.choice(steps), rng.randint(-60, 60), rng.randint(-60, 60), rng.randint(-300, 300)])
            L.append("%s %d %d %d %d %d" % (rng.choice(["lweek.next", "lweek.nextfd", "lweek.nextfd"]), y, m, i, s, nn))
        elif k < 0.52:
            L.append("lweek.new %d %d %d %d" % (rng.choice([y, y, rng.randint(-2, 10001)]), rng.choice([m, m, rng.randint(-13, 13)]), rng.randint(-1, 8), rng.randint(-1, 8)))
        elif k < 0.60:
            L.append("lweek.count %d %d %d" % (rng.choice([y, y, rng.randint(-2, 10001)]), rng.choice([m, m, rng.randint(-13, 13)]), rng.choice([s, s, rng.randint(-1, 20)])))
        elif k < 0.90:
            L.append("%s %d %d %d %d" % (rng.choice(["lweek.first", "lweek.firstc", "lweek.days"]), y, m, i, s))
        else:
            L.append("lweek.weeks %d %d %d" % (y, m, rng.choice([s, s, s, rng.randint(-1, 8)])))
    return L


def c14_ops(rng, tier):
    n = 6000 if tier == "quick" else 60000
    L = []
    steps = [0, 1, -1, 2, -2, 4, -4, 5, -5, 6, -6, 52, -52, 53, -53, 60, -60]
    for _ in range(n):
        k = rng.random()
        y, m, d = rand_date(rng)
        s = rng.randint(0, 6)
        i = rng.choice([0, 0, 1, 2, 3, 4, 4, 5])
        if k < 0.40:
            # stepping: |n| <= 60 mostly, some long walks, some that leave the range
            nn = rng.choice([rng.choice(steps), rng.randint(-60, 60), rng.randint(-60, 60), rng.randint(-600, 600),
                             rng.choice([5000, -5000, 52178, -52178, 521775, -521775])])
            if rng.random() < 0.15:
                y = rng.choice([1, 1, 2, 9998, 9999, 9999, 1582])
            L.append("%s %d %d %d %d %d" % (rng.choice(["week.next", "week.nextfd", "week.nextfd"]), y, m, i, s, nn))
        elif k < 0.50:
            L.append("week.new %d %d %d %d" % (rng.choice([y, y, rng.randint(-2, 10002)]), rng.randint(-1, 14), rng.randint(-1, 8), rng.randint(-1, 8)))
        elif k < 0.58:
            L.append("week.count %d %d %d" % (rng.choice([y, y, rng.randint(-2, 10002)]), rng.choice([m, m, rng.randint(-1, 14)]), rng.choice([s, s, rng.randint(-1, 20)])))
        elif k < 0.66:
            L.append("%s %d %d %d %d" % (rng.choice(["week.first", "week.days"]), rng.choice([y, y, y, 1, 9999]), rng.choice([m, m, m, 1, 12]), i, s))
        elif k < 0.76:
            L.append("week.idx %d %d %d %d" % (y, m, i, s))
        elif k < 0.90:
            L.append("%s %d %d %d %d" % (rng.choice(["week.of", "week.offd"]), y, m, d, rng.choice([s, s, s, s, rng.randint(-1, 9)])))
        elif k < 0.95:
            L.append("week.weeks %d %d %d" % (y, m, rng.choice([s, s, s, rng.randint(-1, 8)])))
        else:
            # equality of the shared week of two adjacent months and of unrelated weeks
            y2, m2 = (y, m + 1) if m < 12 else (min(y + 1, 9999), 1)
            L.append("week.eq %d %d %d %d %d %d %d %d" % (y, m, rng.choice([3, 4, 5]), s, y2, m2, rng.choice([0, 0, 1]), s))
    return L + c14b_ops(rng, tier)


PROP = {
    "id": "C14",
    "thm_module": "Tyme.Thm.C14",
    "thm_file": "Tyme/Thm/C14.lean",
    "lean_targets": ["Tyme.Thm.C14", "Tyme.Thm.C14b"],
    # C14b: totality of LunarWeek::get_first_day / get_days (uses the C13 new-year window facts, hence gen_c13)
    "fact_files": [("Tyme/Thm/C14b.lean", "Tyme.Thm.C14b")],
    "audit_files": ["Tyme/Lemmas/Week.lean", "Tyme/Model/Week.lean", "Tyme/Spec/Week.lean",
                    "Tyme/Lemmas/Jd.lean", "Tyme/Model/Jd.lean", "Tyme/Spec/Civil.lean",
                    "Tyme/Model/LunarWeek.lean", "Tyme/Lemmas/LunarWeek.lean", "Tyme/Model/Lunar.lean", "Tyme/Model/Eph.lean",
                    "Tyme/Model/RealEph.lean", "Tyme/Lemmas/Lunar.lean", "Tyme/Lemmas/LunarWalk.lean", "Tyme/Thm/C02.lean",
                    "Tyme/Facts/Months.lean", "Tyme/Facts/MonthsFact.lean", "Tyme/Basic/Packed.lean",
                    "Tyme/Thm/C14b.lean", "Tyme/Lemmas/LunarWeekTotal.lean", "Tyme/Lemmas/ScmTotal.lean", "Tyme/Lemmas/ScmDays.lean",
                    "Tyme/Thm/C02b.lean", "Tyme/Thm/C13.lean", "Tyme/Facts/C13Win.lean", "Tyme/Facts/C13Preds.lean"],
    "gen": [gen_eph, gen_c13],
    "streams": [
        # per (year, month, start): week count, acceptance mask of SolarWeek::new for index 0..7, get_weeks, and for
        # every week the day number of its first day and the offsets of its 7 listed days
        {"name": "c14.weeks", "args_quick": ["quick"], "args_thorough": ["thorough"]},
        # per (year, month, start): index of get_solar_week(start) for every existing day of the month
        {"name": "c14.of", "args_quick": ["quick"], "args_thorough": ["thorough"]},
        # per (year, start): get_index_in_year of every week of every month
        {"name": "c14.idx", "args_quick": ["quick"], "args_thorough": ["thorough"]},
        # per (year, month, start): (month, index) returned by next(-1), next(1), next(-5), next(5) of every week;
        # the representation is not part of the property, so there is no spec stream (first days are in `week.nextfd` ops)
        {"name": "c14.step", "args_quick": ["quick"], "args_thorough": ["thorough"], "spec": False},
        # thorough only: every week of the years 1, 2, 1581-1583, 9998, 9999 stepped by EVERY n in -60..60: day number of the
        # first day of the result (x = next refused, X = its first day is before 0001-01-01)
        {"name": "c14.edges", "tier": "thorough"},
        # ---- lunar half (harness p14b.rs, driver P14b.lean) ----
        # per (lunar year, month, start): week count, acceptance mask of LunarWeek::new for index 0..7, get_weeks; then per accepted
        # week (year, month, start, index): first day as lunar date and as civil date, the 7 listed days as lunar dates
        # (quick: lunar years 0..30, 230..245, every 50th, 1580..1584, 9997..9999; thorough: all 10,000 lunar years, the 7 listed
        # days only for the even years and the years of the quick selection)
        {"name": "c14b.weeks", "args_thorough": ["all"]},
        # (year offset, month, index) of next(-1), next(1), next(-5), next(5) of every week of the quick selection of years (K only)
        {"name": "c14b.step", "spec": False},
        # next(n) for every n in -60..60: civil day number of the first day of the result.  From EVERY week of the years around
        # the D4 junctions and the ends of the table, and from one sampled week (rotating start and index) of every 4th month of the selected
        # years (thorough: every 8th month of all years)
        {"name": "c14b.next", "args_thorough": ["all"]},
    ],
    "ops": with_extra(c14_ops, eq_kinds=(5, 10)),
    "exhaustive": True,
    "rule": "streams over all 119,988 civil months x 7 week starts in the thorough tier (quick: years 1-5, 9995-9999, 1581-1583 and "
            "every 10th year): c14.weeks = week count, acceptance of every index 0..7, get_weeks, first-day number and the 7 listed "
            "days of every week; c14.of = week index reported for every existing date; c14.idx = index in year of every week; "
            "c14.step = next(+-1), next(+-5) of every week; c14.edges (thorough only) = next(n) for every n in -60..60 from every week of the years 1, 2, 1581-1583, 9998, 9999. Each compared byte-for-byte model-vs-implementation (K) and, except "
            "c14.step, spec-vs-implementation (S; spec = maximal start-aligned 7-day blocks meeting the month, on ordinals). "
            "ops: seeded random + corpus requests (week.next / week.nextfd with |n| <= 60, long walks and walks leaving the range; "
            "new/count/first/days/idx/of/weeks/eq with valid and invalid arguments). "
            "Lunar half: c14b.weeks = every lunar month of the selected lunar years (thorough: all of 0..9999) x 7 starts: week count, acceptance "
            "of index 0..7, get_weeks, and per week the first day (lunar date and civil date) and the 7 listed days (thorough: day lists for the even years and the quick selection only); c14b.step = next(+-1), "
            "next(+-5) of every week (K only); c14b.next = next(n), n in -60..60, from every week of the lunar years around the D4 junctions "
            "and table ends and from sampled weeks elsewhere; S spec = maximal start-aligned 7-day blocks of day numbers meeting "
            "[first, first+len) of the month table, lunar dates read off the table; lweek.* ops (new/count/first/firstc/days/next/nextfd/weeks). "
            "distinct_nontrivial = stream lines + distinct op lines.",
    "assumptions": ASSUMPTIONS + [
        "week count `(x as f64 / 7.0).ceil()` modelled as integer ceiling (x <= 37: exact in f64; compared exhaustively)",
        "Week equality (`!=` on Week compares names) modelled as index inequality: the seven weekday names are pairwise distinct",
        "the harness is built against the scratch worktree of /repo with fixes/C14-week-oct1582.diff applied (get_solar_week position by day count); model and theorems describe the repaired behaviour",
        "LunarWeek: literal model Tyme.LWk (Model/LunarWeek.lean) over the extracted month table (realEph / fastEph, re-extracted from /repo on every run by tools/gen_eph.py); "
        "theorems C14_lunar_real_* hold on the five tiling intervals of lunar years 1..7, 9..22, 25..235, 237..238, 240..9998 (the excluded years are the D4 junctions, listed as known findings)",
        "get_first_day / get_days go through SolarDay::get_lunar_day (guess-and-walk): proved partially correct on the whole of each interval (C14_lunar_real_first_day / _days: what it returns is the right lunar day) "
        "and TOTALLY correct (Thm/C14b.lean, C14_lunar_first_day_total_real / C14_lunar_days_total_real: the calls return, the fuel is never exhausted) for every week of the lunar years "
        "2..6, 10..21, 26..234, 241..9997 (one lunar year inside each interval); for the rim years 1, 7, 9, 22, 25, 235, 237, 238, 240, 9998 termination is validated by the correspondence run only",
    ],
}
