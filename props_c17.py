"""C17 configuration: daily and hourly almanac cycles."""
import os
import sys
from props_common import *

sys.path.insert(0, os.path.join(os.path.dirname(os.path.abspath(__file__)), "tools"))
from gen_eph import gen_eph

# D4 calendar-reform windows (shifted lunar date; listed as known findings of the streams) and the year-1 edge
# are not drawn by the random ops
_D4 = [((9, 1, 1), (9, 1, 14)), ((24, 1, 1), (24, 2, 28)), ((25, 1, 1), (25, 2, 16)), ((240, 1, 1), (240, 2, 9))]


def _ok_date(y, m, d):
    if y < 2 or y > 9998:
        return False
    return not any(a <= (y, m, d) <= b for a, b in _D4)


def c17_ops(rng, tier):
    n = 3000 if tier == "quick" else 30000
    L = []
    while len(L) < n:
        k = rng.random()
        if k < 0.35:
            y, m, d = rand_date(rng, 2, 9998)
            if _ok_date(y, m, d):
                L.append("alm.day %d %d %d" % (y, m, d))
        elif k < 0.7:
            y, m, d = rand_date(rng, 2, 9998)
            if rng.random() < 0.3:   # days around the solstices, where the hour star turns
                m, d = rng.choice([(12, rng.randint(18, 31)), (6, rng.randint(18, 24)), (1, rng.randint(1, 3))])
            if _ok_date(y, m, d):
                L.append("alm.hour %d %d %d %d %d %d" % (y, m, d, rng.choice([0, 1, 12, 22, 23, rng.randint(0, 23)]), rng.randint(0, 59), rng.randint(0, 59)))
        elif k < 0.78:
            L.append("alm.year %d" % rng.choice([rng.randint(-3, 10001), rng.randint(1800, 2100), -1, 9999, 1864]))
        elif k < 0.86:
            L.append("alm.lmonth %d %d" % (rng.randint(0, 9999), rng.randint(-12, 12)))
        elif k < 0.92:
            L.append("alm.scmonth %d %d" % (rng.choice([rng.randint(0, 9999), -1, 9999, rng.randint(-2, 10000)]), rng.choice([rng.randint(0, 11), rng.randint(0, 11), rng.randint(-14, 25)])))
        else:
            y = rng.randint(0, 9999)
            L.append("alm.lday %d %d %d" % (y, rng.randint(-12, 12), rng.choice([1, 29, 30, 31, rng.randint(1, 30)])))
    return L


def c17_turning(tier, seed, tmp, broken, k_fail, s_fail, ev_cov):
    """days around every solstice and around the Jiazi turning points (±31 days of the solstice covers both):
    day nine star through both views + the first two double-hours, real API vs model and spec"""
    import random
    import subprocess
    from checklib import TYMEH, TYMED, ROOT
    rng = random.Random(seed + 17)
    rows = [l.split() for l in open(os.path.join(ROOT, "build", "dump", "terms.tsv"))]
    rows = [r for r in rows if r[3] != "0" and int(r[1]) % 12 == 0 and 3 <= int(r[0]) <= 9998]
    pick = rng.sample(rows, 700 if tier == "quick" else 4000)   # (the thorough day stream already lists every day)
    ops = ["term.day %s %s" % (r[0], r[1]) for r in pick]
    p = subprocess.run([TYMEH, "exec"], input=("\n".join(ops) + "\n").encode(), stdout=subprocess.PIPE)
    res = p.stdout.decode().split("\n")
    probes = []
    import datetime
    for r, line in zip(pick, res):
        f = line.split()
        if len(f) != 4:
            continue
        y, m, d = int(f[0]), int(f[1]), int(f[2])
        if y < 1600 or y > 9990:
            offs = [0]
            days = [(y, m, d + o) for o in (-1, 0, 1) if 1 <= d + o <= 28]
        else:
            base = datetime.date(y, m, d)
            offs = [-31, -30, -29, -1, 0, 1, 29, 30, 31, rng.randint(-28, 28)]
            days = []
            for o in offs:
                t = base + datetime.timedelta(days=o)
                days.append((t.year, t.month, t.day))
        for (yy, mm, dd) in days:
            probes.append("alm.day %d %d %d" % (yy, mm, dd))
        probes.append("alm.hour %d %d %d 1 30 0" % (y, m, d))
        probes.append("alm.hour %d %d %d 23 30 0" % (y, m, d))
    inp = ("\n".join(probes) + "\n").encode()
    H = subprocess.run([TYMEH, "exec"], input=inp, stdout=subprocess.PIPE).stdout.decode().split("\n")
    M = subprocess.run([TYMED, "exec"], input=inp, stdout=subprocess.PIPE).stdout.decode().split("\n")
    S = subprocess.run([TYMED, "specexec"], input=inp, stdout=subprocess.PIPE).stdout.decode().split("\n")
    nk = ns = 0
    for i, op in enumerate(probes):
        if H[i] != M[i]:
            k_fail.append(("op", i + 1, op + " => " + H[i], op + " => " + M[i])); nk += 1
        if H[i] != S[i]:
            s_fail.append(("op", op + " => " + H[i], op + " => " + S[i])); ns += 1
    ev_cov["turning_point_probes"] = {"cases": len(probes), "k_div": nk, "s_fail": ns, "exhaustive": False, "sample": probes[:4]}
    print("[C17] turning-point probes (days within 31 days of solstices + hours on solstice days): %d cases, K div %d, S failing %d" % (len(probes), nk, ns), flush=True)


PROP = {
    "id": "C17",
    "thm_module": "Tyme.Thm.C17",
    "thm_file": "Tyme/Thm/C17.lean",
    "lean_targets": ["Tyme.Thm.C17"],
    "audit_files": ["Tyme/Lemmas/AlmanacCycles.lean", "Tyme/Model/AlmanacCycles.lean", "Tyme/Spec/AlmanacCycles.lean",
                    "Tyme/Lemmas/Cycle.lean", "Tyme/Model/SixtyCycle.lean", "Tyme/Model/Lunar.lean", "Tyme/Model/Term.lean"],
    "gen": [gen_eph],
    "streams": [
        {"name": "c17.days", "args_thorough": ["all"], "extra_years": True},    # every civil date: 16 almanac outputs through both views
        {"name": "c17.leap"},                              # every day of every leap month of every lunar year, with its regular twin
        {"name": "c17.hours", "args_thorough": ["all"]},   # 13 instants (both Zi halves + 11 double-hours) of every day of the sampled years
        {"name": "c17.years"},                             # every year -2..10000
        {"name": "c17.months", "args_thorough": ["all"]},  # lunar months of the selected years, every sexagenary month of years 0..9999
    ],
    "ops": with_extra(c17_ops, objhist=(0, 1)),
    "extra_checks": [c17_turning],
    "exhaustive": False,
    "rule": "c17.days: every civil date of the selected years 1..9998 (quick ~470k, thorough all 3,651,696): officer, spirit, mansion, luminary, weekday, "
            "day nine star (sexagenary-day view); six-day star, mansion, nine star, phase, minor Ren, officer, spirit (lunar-day view); nine star of the "
            "sexagenary month and of the lunar month, minor Ren of the month. c17.leap: all 107,854 leap-month days of years 0..9999 with the same day of the "
            "regular twin (six-day star, phase, minor Ren). c17.hours: 13 instants per day of the sampled years (quick 8 years, thorough ~150). "
            "c17.years: every year -2..10000. c17.months: every lunar month of the selected years + all 120,000 sexagenary months. Spec (independent of the model): "
            "day number -> pillar (j+49) mod 60, weekday (j+1) mod 7, mansion (j+11) mod 28; month branch from the latest term on or before the day "
            "(binary search over the re-extracted table); classical dragon-start table; lunar date = last listed month starting on or before the day; "
            "day nine star from the latest Jiazi turning point (nearest Jiazi to each solstice day of the table); year star (1864-y) mod 9; month star "
            "by year-branch group; hour star by half-year (term index < 12) and day-branch group.",
}
