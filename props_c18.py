"""C18 configuration: almanac lookup tables are total and well-formed for every pillar pair."""
import json
import os
import subprocess
import sys

from props_common import *
from checklib import ROOT, LEAN, TYMEH, TYMED, ENV

sys.path.insert(0, os.path.join(ROOT, "tools"))
import extract_c18 as T

GEN = os.path.join(LEAN, "Tyme", "Gen")
KITCHEN_CHUNK = 200          # years per packed literal
REFUSED_MARK = 255


def _stream(name):
    p = subprocess.run([TYMEH, "enum", name], stdout=subprocess.PIPE, stderr=subprocess.PIPE, env=ENV)
    if p.returncode != 0:
        raise RuntimeError("harness stream %s failed rc=%d: %s" % (name, p.returncode, p.stderr.decode("utf-8", "replace")[-500:]))
    return p.stdout.decode("utf-8").split("\n")[:-1]


def _lst(txt):
    txt = txt.strip()
    if txt == "refused":
        return None
    return [int(x) for x in txt.split()]


def _pack_lists(lists):
    b = bytearray()
    for l in lists:
        if l is None:
            b.append(REFUSED_MARK)
        else:
            if len(l) >= REFUSED_MARK or any(v > 255 for v in l):
                raise RuntimeError("list does not fit the byte encoding: %r" % (l,))
            b.append(len(l))
            b.extend(l)
    return T.pack(bytes(b))


def _deflist(name, rows, doc):
    return "/-- %s -/\ndef %s : List (Nat × Nat) := [\n  %s]\n" % (doc, name, ",\n  ".join(rows))


EXT_STUB = """/- STUB written because the harness dump failed and no previous dump exists (keeps `lake build tymed` alive). -/
namespace Tyme.Gen.C18Ext
def godSize : Nat := 0
def tabooSize : Nat := 0
def gods : List (Nat × Nat) := []
def dayRec : List (Nat × Nat) := []
def dayAvoid : List (Nat × Nat) := []
def hourRec : List (Nat × Nat) := []
def hourAvoid : List (Nat × Nat) := []
def luck : Nat × Nat := (0, 0)
def godNames : List (Nat × Nat) := []
def tabooNames : List (Nat × Nat) := []
def kitchenChunk : Nat := 200
def kitchen : List (Nat × Nat) := []
end Tyme.Gen.C18Ext
"""


def _gen_ext(info):
    """E: behaviour of the API on the complete domain -> Gen/C18Ext.lean"""
    gods = {}
    for l in _stream("c18.gods"):
        k, v = l.split(" : ")
        mp, dp = [int(x) for x in k.split()]
        gods[(mp, dp)] = _lst(v)
    tab = {}
    for name in ("c18.daytaboo", "c18.hourtaboo"):
        for l in _stream(name):
            k, v = l.split(" : ")
            a, b = [int(x) for x in k.split()]
            r, av = v.split("|")
            tab[(name, a, b)] = (_lst(r), _lst(av))
    luck = []
    sizes = set()
    for l in _stream("c18.luck"):
        f = l.split()
        if f[1] == "refused":
            luck.append(REFUSED_MARK)
        else:
            luck.append(int(f[2]) if int(f[1]) == int(f[0]) else REFUSED_MARK)
            sizes.add(int(f[3]))
    names = {"god": [], "taboo": []}
    nsize = {}
    for l in _stream("c18.names"):
        f = l.split()
        if f[1] == "size":
            nsize[f[0]] = int(f[2])
        else:
            names[f[0]].append(bytes.fromhex(f[2]) if len(f) > 2 else b"")
    kitchen = []
    for l in _stream("c18.kitchen"):
        f = l.split()
        if f[1] == "refused":
            kitchen.append(bytes([REFUSED_MARK] * 17))
        else:
            v = [int(x) for x in f[1:]]
            assert len(v) == 17 and all(0 <= x < 255 for x in v), l
            kitchen.append(bytes(v))
    out = ["/- GENERATED on every run by props_c18.c18_gen from the harness streams c18.gods / c18.daytaboo / c18.hourtaboo / c18.luck /",
           "   c18.names / c18.kitchen (the real library on the complete domain) — do not edit, not committed.",
           "   Lists are stored as bytes `len, v₁ … v_len` (len 255 = the call panicked), strings and byte rows as (length, LE base-256 number). -/",
           "namespace Tyme.Gen.C18Ext", "",
           "/-- `God::from_index(0).get_size()` -/", "def godSize : Nat := %d" % nsize.get("god", 0),
           "/-- `Taboo::from_index(0).get_size()` -/", "def tabooSize : Nat := %d" % nsize.get("taboo", 0), ""]
    out.append(_deflist("gods", [_pack_lists([gods[(b, d)] for d in range(60)]) for b in range(12)],
                        "`God::get_day_gods(month, day)` indices: row = month branch (month pillar = branch index), 60 day pillars per row"))
    for (nm, i, doc) in (("dayRec", 0, "get_day_recommends"), ("dayAvoid", 1, "get_day_avoids")):
        out.append(_deflist(nm, [_pack_lists([tab[("c18.daytaboo", b, d)][i] for d in range(60)]) for b in range(12)],
                            "`Taboo::%s(month, day)`: row = month branch, 60 day pillars per row" % doc))
    for (nm, i, doc) in (("hourRec", 0, "get_hour_recommends"), ("hourAvoid", 1, "get_hour_avoids")):
        out.append(_deflist(nm, [_pack_lists([tab[("c18.hourtaboo", d, b)][i] for d in range(60)]) for b in range(12)],
                            "`Taboo::%s(day, hour)`: row = hour branch, 60 day pillars per row" % doc))
    out.append("/-- `God::from_index(i).get_luck().get_index()` for i = 0..150, one byte each -/\ndef luck : Nat × Nat := %s\n" % T.pack(bytes(luck)))
    out.append(_deflist("godNames", [T.pack(n) for n in names["god"]], "`God::from_index(i).get_name()` as UTF-8"))
    out.append(_deflist("tabooNames", [T.pack(n) for n in names["taboo"]], "`Taboo::from_index(i).get_name()` as UTF-8"))
    assert len(kitchen) == 10001
    padded = kitchen + [bytes(17)] * (-len(kitchen) % KITCHEN_CHUNK)   # the walker reads full chunks; entries beyond year 9999 are ignored
    chunks = [T.pack(b"".join(padded[i:i + KITCHEN_CHUNK])) for i in range(0, len(padded), KITCHEN_CHUNK)]
    out.append("/-- years per chunk of `kitchen` -/\ndef kitchenChunk : Nat := %d\n" % KITCHEN_CHUNK)
    out.append(_deflist("kitchen", chunks, "lunar years -1..9999 in order, 17 bytes per year: New Year day pillar, then the 16 numbers read off the 14 "
                                           "`KitchenGodSteed` getters (0 = unreadable); 255 × 17 = refused"))
    out.append("end Tyme.Gen.C18Ext")
    changed = T.write_if_changed(os.path.join(GEN, "C18Ext.lean"), "\n".join(out) + "\n")
    info["ext"] = {"pairs_gods": 720, "pairs_day": 720, "pairs_hour": 720, "spirits": len(luck), "years": len(kitchen), "rewritten": changed}


def _gen_raw(info):
    """T: raw tables from the source text -> Gen/C18Raw.lean (a stub with `lifted := false` if a pattern no longer matches)"""
    repo = T.repo_of_harness(ROOT)
    raw_path = os.path.join(GEN, "C18Raw.lean")
    try:
        tables, where = T.extract(repo)
    except T.BrokenTie as e:
        T.write_if_changed(raw_path, T.render(None, {}, repo))
        raise RuntimeError("BROKEN TIE (source translator tools/extract_c18.py on %s): %s" % (repo, e))
    T.write_if_changed(raw_path, T.render(tables, where, repo))
    info["raw"] = {k: {"strings": len(v), "bytes": sum(len(s.encode()) for s in v), "file": where[k]} for k, v in tables.items()}
    info["repo"] = repo




def c18_gen(tier):
    """T: lift the raw tables from the source text into Gen/C18Raw.lean; E: dump the API extension into Gen/C18Ext.lean;
    known findings into Gen/C18Known.lean. Files are rewritten only when their content changes (Lake then re-uses its cache)."""
    info = {}
    # ---- known findings -> exclusions of the partial theorem (JSON and theorem cannot drift)
    kf = json.load(open(os.path.join(ROOT, "known_findings.json")))
    years = sorted(e["key"]["year"] for e in kf.get("entries", []) if e.get("property") == "C18" and e.get("kind") == "known" and e.get("key", {}).get("op") == "kitchen")
    T.write_if_changed(os.path.join(GEN, "C18Known.lean"),
                       "/- GENERATED from known_findings.json (C18 entries) — do not edit. -/\nnamespace Tyme.Gen.C18Known\n"
                       "/-- lunar years whose kitchen-god attributes are a listed known finding -/\n"
                       "def kitchenYears : List Int := [%s]\nend Tyme.Gen.C18Known\n" % ", ".join(str(y) for y in years))
    info["known_kitchen_years"] = years
    errors = []
    # T first: it always leaves a C18Raw.lean behind (a stub if the pattern is gone), so the driver keeps building
    try:
        _gen_raw(info)
    except Exception as e:
        errors.append(str(e))
    try:
        _gen_ext(info)
    except Exception as e:
        if not os.path.exists(os.path.join(GEN, "C18Ext.lean")):
            T.write_if_changed(os.path.join(GEN, "C18Ext.lean"), EXT_STUB)
        errors.append("BROKEN TIE (harness dump of the API extension): %s" % e)
    if errors:
        raise RuntimeError("; ".join(errors))
    return info


def c18_ops(rng, tier):
    n = 300 if tier == "quick" else 4000
    L = []
    for _ in range(n):
        k = rng.random()
        y, m, d = rand_date(rng)
        if k < 0.4:
            L.append("c18.wire.day %d %d %d" % (y, m, d))
        elif k < 0.8:
            L.append("c18.wire.hour %d %d %d %d" % (y, m, d, rng.choice([0, 1, 22, 23, rng.randint(0, 23)])))
        elif k < 0.9:
            L.append("c18.god.from %d" % rng.choice([rng.randint(-400, 400), 150, 151, -1, -151, 59, 60, 61]))
        else:
            L.append("c18.taboo.from %d" % rng.choice([rng.randint(-400, 400), 140, 141, -1, -141]))
    return L


def c18_rawwf(tier, seed, tmp, broken, k_fail, s_fail, ev_cov):
    """S on the raw encoding (invisible through the API because from_index wraps): the driver evaluates the
    first-principles well-formedness of every record of the lifted tables; any line that is not `ok` is a failing pair."""
    p = subprocess.run([TYMED, "enum", "c18.rawwf"], stdout=subprocess.PIPE, stderr=subprocess.PIPE, env=ENV)
    if p.returncode != 0:
        broken.append({"sweep": "driver stream c18.rawwf failed rc=%d" % p.returncode, "stderr": p.stderr.decode("utf-8", "replace")[-1000:]})
        return
    lines = p.stdout.decode("utf-8").split("\n")[:-1]
    bad = 0
    for l in lines:
        f = l.split()
        if f[-1] != "ok":
            bad += 1
            s_fail.append(("c18.rawwf", l, " ".join(f[:3]) + " ok"))
    ev_cov["raw_wellformedness"] = {"records": len(lines), "failing": bad,
                                    "what": "every record of DAY_GODS / DAY_TABOO / HOUR_TABOO as lifted from the source text: found, even length, hex pairs, index < list size, non-empty (gods), disjoint (taboo)"}
    from checklib import log
    log("[C18] raw well-formedness sweep: %d records, %d failing" % (len(lines), bad))


FACTS = ["C18GodsA", "C18GodsB", "C18GodsC", "C18GodsD", "C18DayA", "C18DayB", "C18DayC", "C18DayD", "C18Hour", "C18Names", "C18Misc"]

def c18_leanchecker_facts(tier, seed, tmp, broken, k_fail, s_fail, ev_cov):
    """thorough tier: replay the fact modules (where the kernel enumerations live) through the independent checker too;
    ./check itself only replays the property module"""
    if tier != "thorough":
        return
    import time
    from concurrent.futures import ThreadPoolExecutor
    from checklib import log
    mods = ["Tyme.Facts.%s" % n for n in FACTS] + ["Tyme.Facts.C18Defs", "Tyme.Lemmas.Almanac"]
    t0 = time.time()

    def one(m):
        p = subprocess.run(["lake", "env", "leanchecker", m], cwd=LEAN, stdout=subprocess.PIPE, stderr=subprocess.STDOUT, env=ENV)
        return m, p.returncode, p.stdout.decode("utf-8", "replace")[-800:]
    with ThreadPoolExecutor(max_workers=8) as ex:
        res = list(ex.map(one, mods))
    bad = [(m, rc, out) for (m, rc, out) in res if rc != 0]
    for (m, rc, out) in bad:
        broken.append({"audit": "leanchecker failed on %s rc=%d" % (m, rc), "log": out})
    ev_cov["leanchecker_facts"] = {"modules": mods, "failed": [m for (m, _, _) in bad], "wall_s": round(time.time() - t0, 1)}
    log("[C18] leanchecker on %d fact/lemma modules: %d failed (%.1fs)" % (len(mods), len(bad), time.time() - t0))


PROP = {
    "id": "C18",
    "thm_module": "Tyme.Thm.C18",
    "thm_file": "Tyme/Thm/C18.lean",
    "lean_targets": ["Tyme.Thm.C18"],
    "fact_files": [("Tyme/Facts/%s.lean" % n, "Tyme.Facts.%s" % n) for n in FACTS],
    "audit_files": ["Tyme/Model/Almanac.lean", "Tyme/Model/AlmanacTables.lean", "Tyme/Spec/Almanac.lean", "Tyme/Lemmas/Almanac.lean",
                    "Tyme/Facts/C18Defs.lean"] + ["Tyme/Facts/%s.lean" % n for n in FACTS],
    "gen": [c18_gen],
    "streams": [
        {"name": "c18.gods", "spec": False},       # all 60 x 60 (month pillar, day pillar): indices of get_day_gods
        {"name": "c18.daytaboo", "spec": False},   # all 60 x 60: recommends | avoids
        {"name": "c18.hourtaboo", "spec": False},  # all 60 x 60 (day pillar, hour pillar)
        {"name": "c18.mixed", "spec": False},      # day and hour look-ups interleaved in one thread (a cache shared between the tables would show)
        {"name": "c18.luck", "spec": False},       # 151 spirits
        {"name": "c18.names", "spec": False},      # names lifted from the source text = names the API returns
        {"name": "c18.kitchen", "spec": False},    # 10,001 years
        {"name": "c18.wf"},                        # verdict per pair / spirit / year: K (model) and S (spec)
    ],
    "ops": with_extra(c18_ops, objhist=(0, 1)),
    "extra_checks": [c18_rawwf, c18_leanchecker_facts],
    "exhaustive": True,
    "rule": "streams enumerate the complete finite domains: c18.gods/c18.daytaboo/c18.hourtaboo = all 3,600 pillar pairs each (the 720 branch x pillar "
            "pairs of the property, each reached through all 5 pillars of the branch), c18.luck = 151 spirits, c18.names = both name lists, "
            "c18.kitchen = lunar years -1..9999, compared byte-for-byte with the Lean model decoding the tables lifted from the source text (K); "
            "c18.wf = one verdict line per pair/spirit/year compared with the executable spec (S); raw well-formedness of all 2,160 records is "
            "swept by the driver on the lifted tables. ops: seeded random wiring checks of the day/hour level getters and from_index wrapping. "
            "distinct_nontrivial counts stream lines + distinct op lines.",
    "assumptions": [
        "usize/isize modelled as unbounded Nat/Int; a panic (unwrap, slice or array index out of range) canonicalises to `refused`",
        "regex `;HH(.[^;]*)` modelled as a leftmost byte scan (faithful for any UTF-8 text: `;` and the hex digits are ASCII, `.` excludes only \\n)",
        "the raw tables and name lists are lifted from the source text by tools/extract_c18.py; Lean proves decode(raw) = API extension on all pairs and K compares the names",
        "kitchen-god numbers are read off the getter strings by the harness with its own numeral list (一..十二)",
    ],
}
