"""C16 configuration: child limit, decade fortunes, yearly fortunes (four limit strategies)."""
import os
import subprocess
import sys
from props_common import *

sys.path.insert(0, os.path.join(os.path.dirname(os.path.abspath(__file__)), "tools"))
from gen_eph import gen_eph

MINE = ("limit", "fortune", "decade", "fnext", "dnext")


def month_last(y, m):
    if m == 2:
        leap = (y % 4 == 0) if y <= 1582 else (y % 4 == 0 and (y % 100 != 0 or y % 400 == 0))
        return 29 if leap else 28
    return 30 if m in (4, 6, 9, 11) else 31


def rand_birth(rng):
    """birth instants: uniform 0002..9990, plus month/year ends, leap days, Jul-Nov 1582, the ten years before it"""
    k = rng.random()
    if k < 0.55:
        y = rng.randint(2, 9990)
        m = rng.randint(1, 12)
        d = rng.randint(1, month_last(y, m))
    elif k < 0.70:
        y = rng.choice([rng.randint(2, 9990), 4, 100, 1500, 1582, 1583, 1600, 1900, 2000, 2023, 2024, 2100, 9988, 9989, 9990])
        m = rng.choice([1, 2, 2, 12, rng.randint(1, 12)])
        d = rng.choice([1, month_last(y, m), month_last(y, m), max(1, month_last(y, m) - 1)])
    elif k < 0.82:
        y = 1582
        m = rng.randint(7, 11)
        d = rng.randint(1, month_last(y, m))
    elif k < 0.92:
        y = rng.randint(1571, 1582)
        m = rng.randint(1, 12)
        d = rng.randint(1, month_last(y, m))
    else:
        y = rng.choice([2, 3, 8, 9, 15, 18, 23, 24, 25, 239, 240, 9985, 9989, 9990, 9991, 9995, 9999, 1])
        m = rng.randint(1, 12)
        d = rng.randint(1, month_last(y, m))
    if y == 1582 and m == 10 and 4 < d < 15:
        d = rng.choice([4, 15])
    t = rng.random()
    if t < 0.2:
        h, mi, s = rng.choice([(23, 59, 59), (0, 0, 0), (23, 0, 0), (22, 59, 59), (12, 0, 0), (23, 30, 1)])
    else:
        h, mi, s = rng.randint(0, 23), rng.randint(0, 59), rng.randint(0, 59)
    return y, m, d, h, mi, s


def lines_for(rng, b, g, p):
    """the op lines issued for one (birth, gender, strategy)"""
    base = "%d %d %d %d %d %d %d %d" % (b + (g, p))
    L = ["limit " + base]
    r = rng.random()
    k = rng.choice([0, 1, 2, 3, 7, 11, -1, rng.randint(-5, 130), rng.randint(-2000, 2000)])
    if r < 0.25:
        L.append("fortune %s %d" % (base, k))
    elif r < 0.5:
        L.append("decade %s %d" % (base, rng.choice([0, 1, 2, 5, 9, -1, rng.randint(-3, 14), rng.randint(-300, 300)])))
    elif r < 0.6:
        L.append("fnext %s %d %d" % (base, k, rng.choice([0, 1, -1, 10, rng.randint(-100, 100)])))
    elif r < 0.7:
        L.append("dnext %s %d %d" % (base, rng.randint(-3, 12), rng.choice([0, 1, -1, rng.randint(-20, 20)])))
    elif r < 0.85:
        # every remaining getter of the limit and of its k-th decade / yearly fortune
        L.append("limit.more %s %d" % (base, rng.choice([0, 1, 2, 9, -1, rng.randint(-30, 60)])))
    return L


def c16_ops(rng, tier):
    n = 6000 if tier == "quick" else 40000
    L = []
    for _ in range(n):
        b = rand_birth(rng)
        g = rng.randint(0, 1)
        p = rng.randint(0, 3)
        L += lines_for(rng, b, g, p)
        if rng.random() < 0.3:        # same birth: other gender / all strategies
            L.append("limit %d %d %d %d %d %d %d %d" % (b + (1 - g, p)))
            for q in range(4):
                if q != p:
                    L.append("limit %d %d %d %d %d %d %d %d" % (b + (g, q)))
    # malformed arguments
    L += ["limit 2000 1 1 12 0 0 2 0", "limit 2000 1 1 12 0 0 1 4", "limit 2000 1 1 12 0 0 -1 0", "limit 2000 2 30 12 0 0 1 0",
          "limit 2000 1 1 24 0 0 1 0", "limit 1582 10 10 12 0 0 1 0"]
    return L


def run3(probes):
    from checklib import TYMEH, TYMED
    inp = ("\n".join(probes) + "\n").encode()
    H = subprocess.run([TYMEH, "exec"], input=inp, stdout=subprocess.PIPE).stdout.decode().split("\n")
    M = subprocess.run([TYMED, "exec"], input=inp, stdout=subprocess.PIPE).stdout.decode().split("\n")
    S = subprocess.run([TYMED, "specexec"], input=inp, stdout=subprocess.PIPE).stdout.decode().split("\n")
    return H, M, S


def c16_jie(tier, seed, tmp, broken, k_fail, s_fail, ev_cov):
    """births within seconds of a Jie instant (the direction decides between this Jie and its neighbours; the span is ~0 or
    a whole Jie-to-Jie gap), both genders; instants from the re-extracted term table"""
    import random
    from checklib import TYMEH, ROOT
    rng = random.Random(seed + 16)
    rows = [l.split() for l in open(os.path.join(ROOT, "build", "dump", "terms.tsv"))]
    rows = [r for r in rows if r[3] != "0" and int(r[1]) % 2 == 1 and 2 <= int(r[0]) <= 9990]
    pick = rows if tier == "thorough" else rng.sample(rows, 1200) + rows[:20] + rows[-20:] + [r for r in rows if 1571 <= int(r[0]) <= 1583]
    ops = ["term.day %s %s" % (r[0], r[1]) for r in pick]
    p = subprocess.run([TYMEH, "exec"], input=("\n".join(ops) + "\n").encode(), stdout=subprocess.PIPE)
    res = p.stdout.decode().split("\n")
    probes = []
    for r, line in zip(pick, res):
        f = line.split()
        if len(f) != 4:
            continue
        y, m, d, sod = map(int, f)
        for ds in ((-1, 0, 1) if tier == "quick" else (rng.choice([-1, -2, -30, -31]), 0, rng.choice([1, 2, 29, 30]))):
            t = sod + ds
            if 0 <= t < 86400:
                g = rng.randint(0, 1)
                pr = rng.choice([0, 0, 1, 2, 3])
                probes.append("limit %d %d %d %d %d %d %d %d" % (y, m, d, t // 3600, t % 3600 // 60, t % 60, g, pr))
                if tier == "quick":
                    probes.append("limit %d %d %d %d %d %d %d %d" % (y, m, d, t // 3600, t % 3600 // 60, t % 60, 1 - g, pr))
    H, M, S = run3(probes)
    nk = ns = 0
    for i, op in enumerate(probes):
        if H[i] != M[i]:
            k_fail.append(("op", i + 1, op + " => " + H[i], op + " => " + M[i])); nk += 1
        if H[i] != S[i]:
            s_fail.append(("op", op + " => " + H[i], op + " => " + S[i])); ns += 1
    ev_cov["jie_instant_births"] = {"cases": len(probes), "k_div": nk, "s_fail": ns, "all_jie": tier == "thorough", "sample": probes[:4]}
    print("[C16] births within seconds of a Jie instant: %d cases, K div %d, S failing %d" % (len(probes), nk, ns), flush=True)


def c16_grid(tier, seed, tmp, broken, k_fail, s_fail, ev_cov):
    """every day of 1582-07-01..1582-11-30 and of the ten years before at 4 hours x 2 genders (default strategy; the other three
    on a thinner grid): the calendar sum around October 1582 (D22 window), all limits that end there"""
    probes = []
    for y in range(1571, 1583):
        for m in range(1, 13):
            for d in range(1, month_last(y, m) + 1):
                if y == 1582 and m == 10 and 4 < d < 15:
                    continue
                dense = (y == 1582 and m >= 7) or tier == "thorough"
                for h in ((0, 6, 12, 18) if dense else ((d * 7) % 24,)):
                    for g in (0, 1):
                        probes.append("limit %d %d %d %d %d 0 %d 0" % (y, m, d, h, (d * 13) % 60, g))
                        if dense and h == 12:
                            for q in (1, 2, 3):
                                probes.append("limit %d %d %d %d %d 0 %d %d" % (y, m, d, h, (d * 13) % 60, g, q))
    H, M, S = run3(probes)
    nk = ns = 0
    for i, op in enumerate(probes):
        if H[i] != M[i]:
            k_fail.append(("op", i + 1, op + " => " + H[i], op + " => " + M[i])); nk += 1
        if H[i] != S[i]:
            s_fail.append(("op", op + " => " + H[i], op + " => " + S[i])); ns += 1
    ev_cov["oct1582_grid"] = {"cases": len(probes), "k_div": nk, "s_fail": ns, "sample": probes[:2]}
    print("[C16] 1571..1582 grid (limits ending around October 1582): %d cases, K div %d, S failing %d" % (len(probes), nk, ns), flush=True)


def d22_condition(y, m, d0, h, mi, s, Y, M, D, H, MI):
    """the exact exclusion of theorems C16_end_sum / C16_end_sum_oct_label, recomputed here from the counts: the day-overflow
    walk stops in October 1582 on a day number >= 5 (unless it also started there from a birth-day label >= 15, where label
    arithmetic is right), or starts in October 1582 from a birth-day label >= 15 and leaves the month"""
    tod = 3600 * (h + H) + 60 * (mi + MI) + s
    d = d0 + D + tod // 86400
    n = 12 * (y + Y) + (m - 1) + M
    ty, tm = n // 12, n % 12 + 1
    start_oct = (ty, tm) == (1582, 10)
    dd = d
    cy, cm = ty, tm
    while True:
        ln = 21 if (cy, cm) == (1582, 10) else month_last(cy, cm)
        if dd <= ln:
            break
        dd -= ln
        cm += 1
        if cm == 13:
            cy, cm = cy + 1, 1
    lands = (cy, cm) == (1582, 10) and dd >= 5 and not (start_oct and d0 >= 15)
    return lands or (start_oct and d0 >= 15 and d >= 22)


def c16_d22_retag(tier, seed, tmp, broken, k_fail, s_fail, ev_cov):
    """a failing line inside the D22 birth window counts as the known finding only if the exact D22 condition holds for it
    (recomputed from the spec's counts); such lines are re-tagged `c16.d22`, everything else stays an unlisted failure"""
    from checklib import TYMED
    idx = []
    for i, (where, a, b) in enumerate(s_fail):
        f = a.split()
        if where == "op" and f and f[0] in MINE and len(f) > 9:
            try:
                y, m, d = int(f[1]), int(f[2]), int(f[3])
            except ValueError:
                continue
            if (1571, 10, 1) <= (y, m, d) <= (1582, 10, 31):
                idx.append(i)
    if not idx:
        ev_cov["d22_retag"] = {"in_window": 0, "explained": 0}
        return
    probes = ["limit " + " ".join(s_fail[i][1].split()[1:9]) for i in idx]
    S = subprocess.run([TYMED, "specexec"], input=("\n".join(probes) + "\n").encode(), stdout=subprocess.PIPE).stdout.decode().split("\n")
    n = 0
    for i, line in zip(idx, S):
        f = line.split()
        if len(f) < 6:
            continue
        a = [int(x) for x in s_fail[i][1].split()[1:7]]
        if d22_condition(a[0], a[1], a[2], a[3], a[4], a[5], *[int(x) for x in f[1:6]]):
            s_fail[i] = ("c16.d22", s_fail[i][1], s_fail[i][2])
            n += 1
    ev_cov["d22_retag"] = {"in_window": len(idx), "explained": n}
    print("[C16] D22: %d failing lines with births 1571-10..1582-10, %d of them meet the exact October-1582 walk condition" % (len(idx), n), flush=True)


PROP = {
    "id": "C16",
    "thm_module": "Tyme.Thm.C16",
    "thm_file": "Tyme/Thm/C16.lean",
    "lean_targets": ["Tyme.Thm.C16", "Tyme.Findings.C16"],
    "audit_files": ["Tyme/Model/ChildLimit.lean", "Tyme/Lemmas/ChildLimit.lean", "Tyme/Spec/ChildLimit.lean", "Tyme/Findings/C16.lean"],
    "gen": [gen_eph],
    "streams": [],
    "ops": with_extra(c16_ops, eq_kinds=(14, 15, 16)),
    "extra_checks": [c16_jie, c16_grid, c16_d22_retag],
    "exhaustive": False,
    "rule": "ops: seeded random births 0002..9990 (+ month/year ends, leap days, Jul-Nov 1582, 1571..1582, range edges, reform years) x gender x the four "
            "strategies (hook verif_set_child_limit_provider, reset after every call): limit / fortune / decade / fnext / dnext lines, model vs "
            "implementation byte for byte and implementation vs the independent spec (term table by binary search, seconds on the Civil.ord line, "
            "mixed-radix digits, calendar sum through Civil.ord/ofOrd); extra: births 1 s before / at / after Jie instants (quick 1.2k Jie + all of "
            "1571..1583, thorough all ~119.8k Jie), the 1571..1582 grid of limits ending around October 1582. Failing lines inside the D22 birth "
            "window are accepted as the known finding only when the exact walk condition of C16_end_partial holds for them.",
}
