"""Shared machinery for ./check (Python 3 stdlib only).

Steps per property (DESIGN.md §6): build harness against /repo's working tree, regenerate Gen
data the property needs, build Lean obligations + driver, audit axioms, run correspondence (K:
model vs implementation) and sweep (S: spec vs implementation), write evidence, print verdict.
"""
import fcntl
import json
import os
import re
import subprocess
import sys
import time

ROOT = os.path.dirname(os.path.abspath(__file__))
LEAN = os.path.join(ROOT, "lean")
HARNESS = os.path.join(ROOT, "harness")
BUILD = os.path.join(ROOT, "build")
TMP = os.path.join(BUILD, "tmp")
REPLAYS = os.path.join(ROOT, "replays")
EVID = os.path.join(ROOT, "evidence")
TYMEH = os.path.join(HARNESS, "target", "release", "tymeh")
TYMED = os.path.join(LEAN, ".lake", "build", "bin", "tymed")
ALLOWED_AXIOMS = {"propext", "Classical.choice", "Quot.sound"}
ENV = dict(os.environ, CARGO_NET_OFFLINE="true")


def log(msg):
    print(msg, flush=True)


class BuildLock:
    """serialise cargo / lake / Gen regeneration between concurrently started checks"""

    def __enter__(self):
        os.makedirs(BUILD, exist_ok=True)
        self.f = open(os.path.join(BUILD, "lock"), "w")
        fcntl.flock(self.f, fcntl.LOCK_EX)
        return self

    def __exit__(self, *a):
        fcntl.flock(self.f, fcntl.LOCK_UN)
        self.f.close()


def run(cmd, cwd=None, timeout=None, stdin=None, stdout=None):
    t0 = time.time()
    p = subprocess.run(cmd, cwd=cwd, env=ENV, stdin=stdin, stdout=stdout if stdout else subprocess.PIPE,
                       stderr=subprocess.STDOUT if stdout is None else subprocess.PIPE, timeout=timeout)
    out = p.stdout.decode("utf-8", "replace") if p.stdout else ""
    if stdout is not None and p.stderr:
        out = p.stderr.decode("utf-8", "replace")
    return p.returncode, out, time.time() - t0


def build_harness():
    rc, out, dt = run(["cargo", "build", "--release", "--offline"], cwd=HARNESS)
    return rc == 0, out, dt


def build_lean(targets):
    rc, out, dt = run(["lake", "build"] + targets, cwd=LEAN)
    return rc == 0, out, dt


def obligations_of(module_file, prefix):
    """theorem names `<prefix>_*` declared in the property module (these are the obligations)"""
    src = open(module_file, encoding="utf-8").read()
    # strip block comments and line comments so a commented-out theorem is not counted
    src = re.sub(r"/-.*?-/", "", src, flags=re.S)
    src = re.sub(r"--.*", "", src)
    return re.findall(r"^\s*theorem\s+(" + re.escape(prefix) + r"_\w+)", src, flags=re.M)


def audit_axioms(module, names, namespace="Tyme"):
    """#print axioms for every obligation; returns {name: [axioms]} or None per name if unknown"""
    os.makedirs(os.path.join(BUILD, "audit"), exist_ok=True)
    path = os.path.join(BUILD, "audit", "Audit_" + module.replace(".", "_") + ".lean")
    with open(path, "w") as f:
        f.write("import %s\n" % module)
        for n in names:
            f.write("#print axioms %s.%s\n" % (namespace, n))
    rc, out, dt = run(["lake", "env", "lean", path], cwd=LEAN)
    res = {}
    # messages look like: 'Tyme.C01_x' depends on axioms: [propext, Quot.sound]   (may wrap lines)
    flat = re.sub(r"\s+", " ", out)
    for n in names:
        q = "%s.%s" % (namespace, n)
        m = re.search(r"'" + re.escape(q) + r"' depends on axioms: \[([^\]]*)\]", flat)
        if m:
            res[n] = [a.strip() for a in m.group(1).split(",") if a.strip()]
        elif re.search(r"'" + re.escape(q) + r"' does not depend on any axioms", flat):
            res[n] = []
        else:
            res[n] = None
    return res, out, dt


FORBIDDEN = re.compile(r"\b(sorry|admit|native_decide|bv_decide|implemented_by|unsafe)\b|^\s*axiom\s|maxHeartbeats\s+0\b", re.M)


def grep_forbidden(files):
    hits = []
    for p in files:
        try:
            src = open(p, encoding="utf-8").read()
        except OSError:
            continue
        src2 = re.sub(r"/-.*?-/", lambda m: "\n" * m.group(0).count("\n"), src, flags=re.S)
        for i, line in enumerate(src2.split("\n"), 1):
            code = line.split("--")[0]
            if FORBIDDEN.search(code):
                hits.append("%s:%d: %s" % (os.path.relpath(p, ROOT), i, line.strip()))
    return hits


def lean_files_of(module_files):
    return module_files


TIMED_OUT = -999


def stream_to_file(exe, args, path, timeout=None):
    """run a stream into a file; on timeout the process is killed, the partial file is kept (complete lines only) and
    TIMED_OUT is returned so that the caller can compare the prefix and name the line that was never answered"""
    with open(path, "wb") as f:
        try:
            p = subprocess.run([exe] + args, stdout=f, stderr=subprocess.PIPE, env=ENV, timeout=timeout)
        except subprocess.TimeoutExpired:
            f.flush()
            _keep_complete_lines(path)
            return TIMED_OUT, "timeout after %s s" % timeout
    return p.returncode, p.stderr.decode("utf-8", "replace")


def _keep_complete_lines(path):
    data = open(path, "rb").read()
    cut = data.rfind(b"\n") + 1
    with open(path, "wb") as f:
        f.write(data[:cut])


def head_lines(src, dst, n):
    with open(src, "rb") as fi, open(dst, "wb") as fo:
        for i, line in enumerate(fi):
            if i >= n:
                break
            fo.write(line)


def first_diff(pa, pb, limit=5):
    """compare two text files; return (n_lines_a, n_lines_b, [ (lineno, a, b) ... up to limit ])"""
    diffs = []
    na = nb = 0
    with open(pa, "rb") as fa, open(pb, "rb") as fb:
        # fast path
        while True:
            ca = fa.read(1 << 20)
            cb = fb.read(1 << 20)
            if ca != cb:
                break
            if not ca:
                return None
    with open(pa, "r", errors="replace") as fa, open(pb, "r", errors="replace") as fb:
        i = 0
        while True:
            la = fa.readline()
            lb = fb.readline()
            if not la and not lb:
                break
            i += 1
            if la:
                na += 1
            if lb:
                nb += 1
            if la != lb and len(diffs) < limit:
                diffs.append((i, la.rstrip("\n"), lb.rstrip("\n")))
    return diffs


def all_diffs(pa, pb, cap=100000):
    """all differing lines (lineno, a, b), capped"""
    diffs = []
    with open(pa, "r", errors="replace") as fa, open(pb, "r", errors="replace") as fb:
        i = 0
        while True:
            la = fa.readline()
            lb = fb.readline()
            if not la and not lb:
                break
            i += 1
            if la != lb:
                diffs.append((i, la.rstrip("\n"), lb.rstrip("\n")))
                if len(diffs) >= cap:
                    break
    return diffs


def count_lines(p):
    n = 0
    with open(p, "rb") as f:
        while True:
            c = f.read(1 << 20)
            if not c:
                break
            n += c.count(b"\n")
    return n


def exec_ops(exe, mode, ops_path, out_path, timeout=None, env=None):
    with open(ops_path, "rb") as fi, open(out_path, "wb") as fo:
        try:
            p = subprocess.run([exe, mode], stdin=fi, stdout=fo, stderr=subprocess.PIPE, env=env or ENV, timeout=timeout)
        except subprocess.TimeoutExpired:
            fo.flush()
            _keep_complete_lines(out_path)
            return TIMED_OUT, "timeout after %s s" % timeout
    return p.returncode, p.stderr.decode("utf-8", "replace")


def load_known(prop):
    p = os.path.join(ROOT, "known_findings.json")
    if not os.path.exists(p):
        return []
    data = json.load(open(p))
    return [e for e in data.get("entries", []) if e.get("property") == prop]


def write_replay(prop, obj):
    os.makedirs(REPLAYS, exist_ok=True)
    n = 0
    while True:
        path = os.path.join(REPLAYS, "%s-%d.json" % (prop, n))
        if not os.path.exists(path):
            break
        n += 1
    with open(path, "w") as f:
        json.dump(obj, f, indent=1, ensure_ascii=False)
    return os.path.relpath(path, ROOT)


def write_evidence(prop, ev):
    os.makedirs(EVID, exist_ok=True)
    with open(os.path.join(EVID, prop + ".json"), "w") as f:
        json.dump(ev, f, indent=1, ensure_ascii=False)
