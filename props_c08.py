"""C08 configuration: year pillar at Lichun, month pillar at each Jie."""
import os
import sys
from props_common import *

sys.path.insert(0, os.path.join(os.path.dirname(os.path.abspath(__file__)), "tools"))
from gen_eph import gen_eph


def c08_ops(rng, tier):
    n = 4000 if tier == "quick" else 40000
    L = []
    for _ in range(n):
        y, m, d = rand_date(rng)
        if rng.random() < 0.4:
            L.append("scd %d %d %d" % (y, m, d))
        else:
            L.append("sch %d %d %d %d %d %d" % (y, m, d, rng.choice([0, 1, 12, 22, 23, rng.randint(0, 23)]), rng.randint(0, 59), rng.randint(0, 59)))
    # sexagenary months as values: pillar, index in year and stepping, all 12 months of sampled years (every year stem occurs)
    for _ in range(40 if tier == "quick" else 600):
        y = rng.randint(1, 9990)
        for k in range(12):
            L.append("c08.scm %d %d 0" % (y, k))
            L.append("c08.scm %d %d %d" % (y, k, rng.choice([1, -1, 12, -12, 11, 13, 60, -60, 120, 600, rng.choice(CYCLE_STEPS), rng.randint(-200, 200)])))
    return L


def c08_jie(tier, seed, tmp, broken, k_fail, s_fail, ev_cov):
    """the second before / at / after Jie instants (odd term indices): instant view through the real API vs model and spec"""
    import random
    import subprocess
    from checklib import TYMEH, TYMED, ROOT
    rng = random.Random(seed + 8)
    rows = [l.split() for l in open(os.path.join(ROOT, "build", "dump", "terms.tsv"))]
    rows = [r for r in rows if r[3] != "0" and int(r[1]) % 2 == 1]
    lichun = [r for r in rows if r[1] == "3"]
    pick = rows if tier == "thorough" else rng.sample(rows, 4000) + rng.sample(lichun, 1500) + rows[:40] + rows[-40:]
    ops = ["term.day %s %s" % (r[0], r[1]) for r in pick]
    p = subprocess.run([TYMEH, "exec"], input=("\n".join(ops) + "\n").encode(), stdout=subprocess.PIPE)
    res = p.stdout.decode().split("\n")
    probes = []
    for r, line in zip(pick, res):
        f = line.split()
        if len(f) != 4:
            continue
        y, m, d, sod = map(int, f)
        for ds in (-1, 0, 1):
            t = sod + ds
            if 0 <= t < 86400:
                probes.append("sch %d %d %d %d %d %d" % (y, m, d, t // 3600, t % 3600 // 60, t % 60))
        probes.append("scd %d %d %d" % (y, m, d))
    inp = ("\n".join(probes) + "\n").encode()
    H = subprocess.run([TYMEH, "exec"], input=inp, stdout=subprocess.PIPE).stdout.decode().split("\n")
    M = subprocess.run([TYMED, "exec"], input=inp, stdout=subprocess.PIPE).stdout.decode().split("\n")
    S = subprocess.run([TYMED, "specexec"], input=inp, stdout=subprocess.PIPE).stdout.decode().split("\n")
    cut = lambda x: " ".join(x.split(" ")[:2])   # C08 is about the year and month pillar
    H = [cut(x) for x in H]; M = [cut(x) for x in M]; S = [cut(x) for x in S]
    nk = ns = 0
    for i, op in enumerate(probes):
        if H[i] != M[i]:
            k_fail.append(("op", i + 1, op + " => " + H[i], op + " => " + M[i])); nk += 1
        if H[i] != S[i]:
            s_fail.append(("op", op + " => " + H[i], op + " => " + S[i])); ns += 1
    ev_cov["jie_instant_probes"] = {"cases": len(probes), "k_div": nk, "s_fail": ns, "exhaustive": tier == "thorough", "sample": probes[:4]}
    print("[C08] Jie probes (second before/at/after each Jie instant + its day): %d cases, K div %d, S failing %d" % (len(probes), nk, ns), flush=True)


PROP = {
    "id": "C08",
    "thm_module": "Tyme.Thm.C08",
    "thm_file": "Tyme/Thm/C08.lean",
    "lean_targets": ["Tyme.Thm.C08", "Tyme.Thm.C08b", "Tyme.Thm.Total", "Tyme.Thm.C08c"],
    "fact_files": [("Tyme/Thm/C08b.lean", "Tyme.Thm.C08b"), ("Tyme/Thm/Total.lean", "Tyme.Thm.Total"), ("Tyme/Thm/C08c.lean", "Tyme.Thm.C08c")],
    "audit_files": ["Tyme/Lemmas/Pillar.lean", "Tyme/Facts/Windows.lean", "Tyme/Lemmas/Cycle.lean", "Tyme/Model/SixtyCycle.lean", "Tyme/Model/Lunar.lean", "Tyme/Model/Term.lean"],
    "gen": [gen_eph],
    "streams": [
        {"name": "c08.days", "args_thorough": ["all"], "extra_years": True},   # year and month pillar of every civil date (day view)
        {"name": "c09.hours"},                            # all 60 day pillars x 24 hours (instant view)
    ],
    "ops": with_extra(c08_ops, eq_kinds=(13,), dep=True),
    "extra_checks": [c08_jie],
    "op_fields": 2,
    "exhaustive": False,
    "rule": "c08.days: year and month pillar of every civil date of the selected years (quick ~470k, thorough all) vs the spec 'year = Y from the "
            "Lichun day on else Y-1; month ordinal = Jie days passed since that Lichun; stem by Five Tigers'; Jie probes: the second before/at/after "
            "Jie instants (quick 5,500, thorough all 119,989) through the instant view, plus the day view of the Jie day; random instants.",
}
