"""C13 configuration: containers list exactly their parts."""
import os
import sys
from props_common import *

sys.path.insert(0, os.path.join(os.path.dirname(os.path.abspath(__file__)), "tools"))
from gen_eph import gen_eph
from gen_c13 import gen_c13


def c13_ops(rng, tier):
    n = 3000 if tier == "quick" else 30000
    L = []
    # boundary requests
    for y in (-2, -1, 0, 1, 2, 1582, 9998, 9999, 10000, 10001):
        L += ["sy.months %d" % y, "sy.seasons %d" % y, "sy.halves %d" % y, "ly.months %d" % y, "scy.months %d" % y]
        for i in (-1, 0, 1, 2, 3, 4):
            L += ["sh.months %d %d" % (y, i), "sh.seasons %d %d" % (y, i), "ss.months %d %d" % (y, i)]
        for m in (-1, 0, 1, 2, 9, 10, 11, 12, 13):
            L += ["sm.season %d %d" % (y, m), "sm.days %d %d" % (y, m), "lm.days %d %d" % (y, m)]
        for i in (-13, -12, -1, 0, 1, 10, 11, 12, 13, 24):
            L.append("scm.days %d %d" % (y, i))
    for d in list(range(1, 6)) + list(range(14, 32)):
        L.append("scd.hours 1582 10 %d" % d)
    for d in range(1, 9):
        L.append("scd.hours 1 1 %d" % d)
    L += ["scd.hours 9999 12 31", "scd.hours 9999 12 30", "ld.hours 0 1 1", "ld.hours 9999 12 30", "ld.hours 9999 12 1", "ld.hours 2023 -2 29", "ld.hours 2023 -2 30"]
    for _ in range(n):
        k = rng.random()
        y, m, d = rand_date(rng)
        if k < 0.2:
            L.append("sm.days %d %d" % (y, m))
        elif k < 0.3:
            L.append(rng.choice(["sy.months %d", "sy.seasons %d", "sy.halves %d"]) % y)
        elif k < 0.4:
            L.append(rng.choice(["sh.months %d %d", "sh.seasons %d %d", "ss.months %d %d", "sm.season %d %d"]) % (y, rng.randint(0, 13)))
        elif k < 0.5:
            L.append("ly.months %d" % rng.randint(-2, 10001))
        elif k < 0.6:
            L.append("lm.days %d %d" % (rng.randint(0, 9999), rng.randint(-12, 12)))
        elif k < 0.7:
            L.append("ld.hours %d %d %d" % (rng.randint(0, 9999), rng.randint(-12, 12), rng.choice([1, 29, 30, 31, rng.randint(1, 30)])))
        elif k < 0.8:
            L.append("scd.hours %d %d %d" % (y, m, d))
        elif k < 0.85:
            L.append("scd.hourp %d %d %d" % (y, m, d))
        elif k < 0.95:
            L.append("scm.days %d %d" % (rng.randint(0, 9999), rng.choice([rng.randint(0, 11), rng.randint(-30, 30)])))
        else:
            L.append("scy.months %d" % rng.randint(-2, 10001))
    return L


PROP = {
    "id": "C13",
    "thm_module": "Tyme.Thm.C13",
    "thm_file": "Tyme/Thm/C13.lean",
    "lean_targets": ["Tyme.Thm.C13", "Tyme.Thm.C13b"],
    "fact_files": [("Tyme/Thm/C13b.lean", "Tyme.Thm.C13b")],
    "audit_files": ["Tyme/Model/Containers.lean", "Tyme/Spec/Containers.lean", "Tyme/Lemmas/Containers.lean", "Tyme/Model/Jd.lean",
                    "Tyme/Model/Lunar.lean", "Tyme/Model/Term.lean", "Tyme/Model/SixtyCycle.lean", "Tyme/Model/Clock.lean",
                    "Tyme/Lemmas/ScmDays.lean", "Tyme/Lemmas/ScdHours.lean", "Tyme/Lemmas/ScmTotal.lean", "Tyme/Facts/C13Win.lean", "Tyme/Facts/C13Preds.lean"],
    "gen": [gen_eph, gen_c13],
    "streams": [
        {"name": "c13.civil"},                             # every civil year 0..10000: year/half/season/month lists, every month's days + day-of-year
        {"name": "c13.lunar"},                             # every lunar year -1..10000: month list; every month: day list
        {"name": "c13.hours", "args_thorough": ["all"]},   # hour lists (lunar day: 13, sexagenary day: 12) of sampled days
        {"name": "c13.hourp", "args_thorough": ["all"], "spec": False},   # day/hour pillar of the same slots: model vs implementation only
        {"name": "c13.scm", "args_thorough": ["all"]},     # sexagenary year -> 12 months; every month -> its days
    ],
    "ops": c13_ops,
    "exhaustive": False,
    "rule": "c13.civil: all civil years 0..10000 (year -> 12 months / 4 seasons / 2 halves, half -> months, seasons, season -> months, "
            "month -> season and the full day list with each day's day-of-year; 190,019 lines, 3,652,061 listed days) vs the spec "
            "'parts selected by membership, dates that exist, day-of-year = running count'; c13.lunar: all lunar years -1..10000 and all "
            "123,684 months (month list, day list); c13.hours: the 13 lunar and 12 sexagenary double hours of the first/last days of every "
            "month, first/last two days of the year and all of October 1582 (quick: selected years, thorough: all years); c13.scm: the 12 "
            "months of every sexagenary year and the day list of each month vs '[Jie day, next Jie day)' found by binary search in the "
            "re-extracted term table (quick: selected years, thorough: all 10,001 years); c13.hourp: day/hour pillar of the same slots, "
            "model vs implementation only (C07/C09 matter); ops: seeded + boundary requests + corpus. Table facts C13_window_facts "
            "(term windows over 240,000 terms, new-year windows over 10,000 lunar years) kernel-checked on the re-extracted tables.",
}
