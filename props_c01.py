"""C01 configuration."""
from props_common import *


def c01_ops(rng, tier):
    n = 4000 if tier == "quick" else 60000
    L = []
    big = [0, 1, -1, 7, -7, 28, 29, 30, 31, 59, 60, 365, 366, -365, -366, 355, 1461, 36524, 36525, 146097, -146097, 1000000, -1000000, 3652060, -3652060, 3652061]
    for _ in range(n):
        k = rng.random()
        y, m, d = rand_date(rng)
        if k < 0.35:
            nn = rng.choice([rng.choice(big), rng.randint(-400, 400), rng.randint(-4000000, 4000000)])
            L.append("solar.next %d %d %d %d" % (y, m, d, nn))
        elif k < 0.55:
            y2, m2, d2 = rand_date(rng)
            if rng.random() < 0.4:
                y2 = y
                if rng.random() < 0.5:
                    m2 = m
            op = rng.choice(["solar.sub", "solar.before", "solar.after"])
            L.append("%s %d %d %d %d %d %d" % (op, y, m, d, y2, m2, d2))
            if rng.random() < 0.3:   # month ends against the first of the next month, both ways
                mm = rng.randint(1, 12)
                ld = [31, 28, 31, 30, 31, 30, 31, 31, 30, 31, 30, 31][mm - 1]
                y3, m3 = (y, mm + 1) if mm < 12 else (min(y + 1, 9999), 1)
                for o in ("solar.before", "solar.after"):
                    L.append("%s %d %d %d %d %d %d" % (o, y, mm, ld, y3, m3, 1))
                    L.append("%s %d %d %d %d %d %d" % (o, y3, m3, 1, y, mm, ld))
        elif k < 0.65:
            L.append("solar.new %d %d %d" % (rng.randint(-3, 10002), rng.randint(-1, 14), rng.randint(-1, 33)))
        elif k < 0.75:
            L.append("jd.day %d" % rng.choice([rng.randint(1721424 - 5, 1721424 + 5), rng.randint(5373484 - 5, 5373484 + 5),
                                               rng.randint(2299155, 2299166), rng.randint(1721424, 5373484), rng.randint(-10, 6000000)]))
        elif k < 0.85:
            L.append("solar.idx %d %d %d" % (y, m, d))
        elif k < 0.92:
            L.append("solar.week %d %d %d" % (y, m, d))
        else:
            L.append(rng.choice(["month.len %d %d" % (rng.randint(0, 10000), rng.randint(0, 13)), "year.len %d" % rng.randint(-1, 10001)]))
    return L


PROP = {
    "id": "C01",
        "thm_module": "Tyme.Thm.C01",
        "thm_file": "Tyme/Thm/C01.lean",
        "lean_targets": ["Tyme.Thm.C01"],
        "audit_files": ["Tyme/Lemmas/Jd.lean", "Tyme/Model/Jd.lean", "Tyme/Spec/Civil.lean"],
        "streams": [
            {"name": "c01.grid"},   # acceptance of every (y in -1..10000, m in 0..13, d in 0..32)
            {"name": "c01.days"},   # every accepted day: jdn, weekday, day-of-year, back conversion
            {"name": "c01.lens"},   # year length, leap flag, 12 month lengths for every year
        ],
        "ops": with_extra(c01_ops, eq_kinds=(1, 2, 3, 5, 17, 18)),
        "exhaustive": True,
        "rule": "streams: c01.grid = all 4,620,924 (year -1..10000, month 0..13, day 0..32) triples (acceptance bitmask per month), "
                "c01.days = every accepted date with day number, weekday, day-of-year and the date its day number maps back to, "
                "c01.lens = all year/month lengths; each compared byte-for-byte model-vs-implementation (K) and spec-vs-implementation (S). "
                "ops: seeded random + boundary next/subtract/before/after/jd.day/new requests. distinct_nontrivial counts distinct streams + distinct op lines.",
    }
