#!/usr/bin/env python3
"""C18 source translator (mechanism T of DESIGN.md §5).

Lifts, by pattern on the Rust SOURCE TEXT of the tyme4rs tree the harness is linked against, the private packed
almanac tables whose *raw encoding* is the subject of C18, plus the two name lists they index:

    DAY_GODS, DAY_TABOO, HOUR_TABOO : [&str; 12]      GOD_NAMES : [&str; 151]      TABOO_NAMES : [&str; 141]

and writes them to lean/Tyme/Gen/C18Raw.lean as byte tables: every string becomes `(length, N)` where `N` is the
little-endian base-256 number of its UTF-8 bytes (`Tyme.Almanac.bytesOf` turns that into the `List Nat` of bytes;
string literals do not reduce in the Lean kernel).

Tolerant of: whitespace / line breaks / trailing commas / comments between the elements, `pub`/`pub(crate)`, `const`
instead of `static`, `&'static str`, `_` or a number as array length, a slice type `&[&str]`, string continuation
lines (`\\` + newline), `concat!(..)` of string literals, the usual escapes, and the item living in any `.rs` file below `src/`.
NOT tolerated (reported as a broken tie, never silently): the item renamed, re-encoded (not an array of string
literals), or defined more than once.

The lifted text is not trusted: Lean proves `decode(raw) = API extension` for every pair (Facts/C18*.lean) and the
name lists are compared with the API names, so a translator mistake cannot hide.
"""
import os
import re
import sys

ITEMS = ["DAY_GODS", "DAY_TABOO", "HOUR_TABOO", "GOD_NAMES", "TABOO_NAMES"]
LEAN_NAMES = {"DAY_GODS": "dayGods", "DAY_TABOO": "dayTaboo", "HOUR_TABOO": "hourTaboo", "GOD_NAMES": "godNames", "TABOO_NAMES": "tabooNames"}


class BrokenTie(Exception):
    pass


def repo_of_harness(root):
    """the tree the harness is built against: the tyme4rs path dependency of harness/Cargo.toml"""
    txt = open(os.path.join(root, "harness", "Cargo.toml"), encoding="utf-8").read()
    m = re.search(r'^\s*tyme4rs\s*=\s*\{[^}]*path\s*=\s*"([^"]+)"', txt, re.M)
    if not m:
        raise BrokenTie("harness/Cargo.toml has no tyme4rs path dependency")
    return m.group(1)


def _skip_ws_comments(s, i):
    n = len(s)
    while i < n:
        if s[i].isspace():
            i += 1
        elif s.startswith("//", i):
            j = s.find("\n", i)
            i = n if j < 0 else j + 1
        elif s.startswith("/*", i):
            j = s.find("*/", i + 2)
            if j < 0:
                raise BrokenTie("unterminated block comment")
            i = j + 2
        else:
            break
    return i


_SIMPLE = {"n": "\n", "r": "\r", "t": "\t", "\\": "\\", "0": "\0", '"': '"', "'": "'"}


def _string_literal(s, i):
    """s[i] == '"' (ordinary literal) or s[i:] starts a raw literal r"..", r#".."#; returns (value, next index)"""
    n = len(s)
    if s[i] == "r":
        j = i + 1
        h = 0
        while j < n and s[j] == "#":
            h += 1
            j += 1
        if j >= n or s[j] != '"':
            raise BrokenTie("not a string literal")
        end = s.find('"' + "#" * h, j + 1)
        if end < 0:
            raise BrokenTie("unterminated raw string")
        return s[j + 1:end], end + 1 + h
    out = []
    i += 1
    while True:
        if i >= n:
            raise BrokenTie("unterminated string literal")
        c = s[i]
        if c == '"':
            return "".join(out), i + 1
        if c != "\\":
            out.append(c)
            i += 1
            continue
        e = s[i + 1]
        if e in _SIMPLE:
            out.append(_SIMPLE[e])
            i += 2
        elif e == "\n" or (e == "\r" and s[i + 2] == "\n"):      # continuation: skip the newline and leading whitespace
            i += 2
            while i < n and s[i] in " \t\r\n":
                i += 1
        elif e == "x":
            out.append(chr(int(s[i + 2:i + 4], 16)))
            i += 4
        elif e == "u":
            j = s.index("}", i)
            out.append(chr(int(s[i + 3:j].replace("_", ""), 16)))
            i = j + 1
        else:
            raise BrokenTie("unknown escape \\%s" % e)


def _head_re(name):
    ty = r"(?:\[\s*&\s*(?:'static\s+)?str\s*;\s*(?P<n>\d+|_)\s*\]|&\s*(?:'static\s+)?\[\s*&\s*(?:'static\s+)?str\s*\])"
    return re.compile(r"(?:^|[\s;{}])(?:pub(?:\s*\([^)]*\))?\s+)?(?:static|const)\s+" + name + r"\s*:\s*" + ty + r"\s*=\s*&?\s*\[")


def find_item(files, name):
    """returns (relative file, [strings]); BrokenTie if absent / ambiguous / not a list of string literals"""
    hits = []
    rx = _head_re(name)
    for (path, src) in files:
        for m in rx.finditer(src):
            hits.append((path, src, m))
    if not hits:
        raise BrokenTie("source pattern `static %s: [&str; N] = [\"..\", ..];` not found in any .rs file" % name)
    if len(hits) > 1:
        raise BrokenTie("`static %s` defined %d times (%s)" % (name, len(hits), ", ".join(h[0] for h in hits)))
    path, src, m = hits[0]
    i = m.end()
    items = []
    while True:
        i = _skip_ws_comments(src, i)
        if i >= len(src):
            raise BrokenTie("%s: unterminated array" % name)
        c = src[i]
        if c == "]":
            break
        if c == ",":
            i += 1
            continue
        if c == '"' or (c == "r" and src[i + 1] in '"#'):
            v, i = _string_literal(src, i)
            items.append(v)
            continue
        mc = re.match(r"concat\s*!\s*[\(\[\{]", src[i:])
        if mc:                                   # concat!("..", "..", ..): the concatenation of its string literals
            i += len(mc.group(0))
            parts = []
            while True:
                i = _skip_ws_comments(src, i)
                if i >= len(src):
                    raise BrokenTie("%s: unterminated concat!" % name)
                if src[i] in ")]}":
                    i += 1
                    break
                if src[i] == ",":
                    i += 1
                    continue
                if src[i] == '"' or (src[i] == "r" and src[i + 1] in '"#'):
                    v, i = _string_literal(src, i)
                    parts.append(v)
                    continue
                raise BrokenTie("%s: element %d: concat! of something that is not a string literal (found %r)" % (name, len(items), src[i:i + 20]))
            items.append("".join(parts))
            continue
        raise BrokenTie("%s: element %d is not a string literal (found %r) — the table was re-encoded" % (name, len(items), src[i:i + 20]))
    n = m.group("n")
    if n not in (None, "_") and int(n) != len(items):
        raise BrokenTie("%s: declared length %s but %d literals lifted" % (name, n, len(items)))
    return path, items


def read_sources(repo):
    files = []
    base = os.path.join(repo, "src")
    for d, _, fs in os.walk(base):
        for f in sorted(fs):
            if f.endswith(".rs"):
                p = os.path.join(d, f)
                files.append((os.path.relpath(p, repo), open(p, encoding="utf-8").read()))
    if not files:
        raise BrokenTie("no .rs files below %s" % base)
    return files


def extract(repo):
    """{item: [str]}, {item: file}; raises BrokenTie naming the first item whose pattern no longer matches"""
    files = read_sources(repo)
    out, where = {}, {}
    for name in ITEMS:
        where[name], out[name] = find_item(files, name)
    for name in ("DAY_GODS", "DAY_TABOO", "HOUR_TABOO"):
        if len(out[name]) != 12:
            raise BrokenTie("%s has %d strings, the look-up indexes 12 (one per branch)" % (name, len(out[name])))
    return out, where


def pack(b):
    return "(%d, 0x%X)" % (len(b), int.from_bytes(b, "little"))


def lean_list(name, strings, doc):
    rows = ",\n  ".join(pack(s.encode("utf-8")) for s in strings)
    return "/-- %s -/\ndef %s : List (Nat × Nat) := [\n  %s]\n" % (doc, name, rows)


def render(tables, where, repo):
    L = ["/- GENERATED on every run by tools/extract_c18.py from the Rust source text of %s — do not edit, not committed." % repo,
         "   Each string is (byte length, little-endian base-256 number of its UTF-8 bytes). -/",
         "namespace Tyme.Gen.C18Raw", "",
         "/-- false when a source pattern no longer matched (stub tables; every C18 table fact then fails) -/",
         "def lifted : Bool := %s" % ("true" if tables else "false"), ""]
    for name in ITEMS:
        strings = tables.get(name, []) if tables else []
        L.append(lean_list(LEAN_NAMES[name], strings, "`%s` (%d strings) lifted from %s" % (name, len(strings), where.get(name, "<pattern not found>") if tables else "<pattern not found>")))
    L.append("end Tyme.Gen.C18Raw")
    return "\n".join(L) + "\n"


def write_if_changed(path, text):
    try:
        if open(path, encoding="utf-8").read() == text:
            return False
    except OSError:
        pass
    os.makedirs(os.path.dirname(path), exist_ok=True)
    with open(path, "w", encoding="utf-8") as f:
        f.write(text)
    return True


def main():
    root = os.path.dirname(os.path.dirname(os.path.abspath(__file__)))
    repo = sys.argv[1] if len(sys.argv) > 1 else repo_of_harness(root)
    out = os.path.join(root, "lean", "Tyme", "Gen", "C18Raw.lean")
    try:
        tables, where = extract(repo)
    except BrokenTie as e:
        write_if_changed(out, render(None, {}, repo))
        print("BROKEN TIE: %s" % e)
        return 1
    write_if_changed(out, render(tables, where, repo))
    print("lifted from %s: %s" % (repo, ", ".join("%s=%d strings/%d bytes" % (k, len(v), sum(len(s.encode()) for s in v)) for k, v in tables.items())))
    return 0


if __name__ == "__main__":
    sys.exit(main())
