#!/usr/bin/env python3
"""Regenerate every Gen file from /repo's current working tree (used by setup.sh)."""
import os, sys
sys.path.insert(0, os.path.join(os.path.dirname(os.path.abspath(__file__)), ".."))
import props
seen = set()
for pid, P in props.PROPS.items():
    for g in P.get("gen", []):
        if g.__name__ in seen:
            continue
        seen.add(g.__name__)
        print("gen", g.__name__, g("thorough"))
