#!/usr/bin/env python3
"""Print a markdown table of /verif/seeded/*/meta.json: which independently written breaking change was caught by which check, with the replay."""
import glob, json, os
ROOT = os.path.dirname(os.path.dirname(os.path.abspath(__file__)))
rows = []
for d in sorted(glob.glob(os.path.join(ROOT, "seeded", "*", "meta.json"))):
    m = json.load(open(d))
    sid = os.path.basename(os.path.dirname(d))
    oc = m.get("our_checks", {})
    cells = []
    for pid in sorted(oc):
        r = oc[pid]
        ex = r.get("replay_excerpt") or {}
        how = ex.get("kind", "")
        nf = "no-failing-input-found" in (r.get("violation_line") or "")
        if m.get("kind") == "behaviour-preserving":
            tag = "quiet" if r.get("exit") == 0 and not r.get("violation_line") else "ALARM"
        else:
            tag = "caught" if r.get("exit") == 1 and r.get("violation_line") else "missed"
        if nf:
            tag += " (no concrete input)"
        where = ex.get("where", "")
        cells.append("%s: %s%s" % (pid, tag, (" — " + how + " @ " + where) if how else ""))
    what = (m.get("what_breaks") or ("[behaviour-preserving] " + (m.get("what_changed") or ""))).replace("|", "/").replace("\n", " ")
    if len(what) > 230:
        what = what[:227] + "…"
    rows.append("| `%s` | %s | %s | %s |" % (sid, m.get("property"), what, "<br>".join(cells)))
print("| seeded change | written for | what it breaks (author's words) | our checks |")
print("|---|---|---|---|")
print("\n".join(rows))
