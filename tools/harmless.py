#!/usr/bin/env python3
"""harmless.py <id> <outdir> <Cxx> [<Cyy> ...]
Evaluate an independently written BEHAVIOUR-PRESERVING change: our checks must stay quiet on it.
 1. scratch worktree of /repo HEAD: the equivalence test passes without the patch; with the patch the 272 unit tests,
    the doc tests and the equivalence test pass.
 2. apply the patch to /repo itself, run `./check Cxx quick` for the listed properties, ALWAYS undo (git checkout -- .).
 3. write /verif/seeded/<id>/{patch.diff, equiv test, meta.json} with "quiet" / "ALARM" per check.
"""
import json, os, shutil, subprocess, sys, time

ROOT = os.path.dirname(os.path.dirname(os.path.abspath(__file__)))


def sh(cmd, cwd=None, timeout=7200):
    p = subprocess.run(cmd, shell=True, cwd=cwd, stdout=subprocess.PIPE, stderr=subprocess.STDOUT, timeout=timeout)
    return p.returncode, p.stdout.decode("utf-8", "replace")


def main():
    sid, out = sys.argv[1], sys.argv[2]
    props = sys.argv[3:]
    patch = os.path.join(out, "patch.diff")
    tests = [f for f in os.listdir(out) if f.startswith("equiv_") and f.endswith(".rs")]
    test = tests[0] if tests else None
    name = test[:-3] if test else None
    wt = "/var/tmp/harmless_wt_%s" % sid
    sh("git -C /repo worktree remove --force %s" % wt)
    sh("git -C /repo worktree add --detach %s HEAD" % wt)
    res = {"id": sid}
    ran = []
    try:
        os.makedirs(os.path.join(wt, "tests"), exist_ok=True)
        if test:
            shutil.copy(os.path.join(out, test), os.path.join(wt, "tests", test))
            rc, o = sh("cargo test --offline --test %s 2>&1 | grep 'test result'" % name, cwd=wt)
            res["equiv_without_patch"] = "pass" if "test result: ok" in o and "FAILED" not in o else "not-usable"
        else:
            res["equiv_without_patch"] = "none-delivered"
        rc, o = sh("git apply %s" % patch, cwd=wt)
        if rc != 0:
            res["apply"] = "FAILED: " + o[-300:]
        rc, o = sh("cargo test --offline --lib 2>&1 | grep 'test result'", cwd=wt)
        res["unit_tests_with_patch"] = o.strip()
        rc, o = sh("cargo test --offline --doc 2>&1 | grep 'test result'", cwd=wt)
        res["doc_tests_with_patch"] = o.strip()
        if test and res["equiv_without_patch"] == "pass":
            rc, o = sh("cargo test --offline --test %s 2>&1 | grep 'test result'" % name, cwd=wt)
            res["equiv_with_patch"] = "pass" if "test result: ok" in o and "FAILED" not in o else "FAIL"
        else:
            res["equiv_with_patch"] = "not-run (the author's comparison needs its own recording step; see the author's evidence in meta)"
    finally:
        sh("git -C /repo worktree remove --force %s" % wt)
    ok = (res.get("equiv_with_patch") != "FAIL" and "apply" not in res
          and "272 passed; 0 failed" in res.get("unit_tests_with_patch", "") and "0 failed" in res.get("doc_tests_with_patch", ""))
    res["confirmed_behaviour_preserving_on_its_own_test"] = ok
    checks = {}
    if ok and props:
        rc, st = sh("git -C /repo status --short")
        assert st.strip() == "", "/repo not clean: " + st
        rc, o = sh("cargo build --release --offline 2>&1 | tail -3", cwd=os.path.join(ROOT, "harness"))
        assert "error" not in o, "harness does not build on the clean tree: " + o
        rc, o = sh("lake build tymed 2>&1 | tail -3", cwd=os.path.join(ROOT, "lean"))
        assert "error" not in o, "driver does not build on the clean tree: " + o
        rc, o = sh("git -C /repo apply %s" % patch)
        assert rc == 0, o
        try:
            for p in props:
                t0 = time.time()
                rc, o = sh("./check %s quick" % p, cwd=ROOT)
                vio = [l for l in o.split("\n") if l.startswith("VIOLATION")]
                checks[p] = {"exit": rc, "violation_line": vio[0] if vio else None, "wall_s": round(time.time() - t0, 1),
                             "verdict": "quiet" if rc == 0 and not vio else "ALARM", "tail": o.strip().split("\n")[-3:]}
                ran.append("/repo with patch: ./check %s quick -> exit %d %s" % (p, rc, vio[0] if vio else ""))
                if vio and "replay=" in vio[0]:
                    rp = vio[0].split("replay=")[1].split()[0]
                    try:
                        r = json.load(open(os.path.join(ROOT, rp)))
                        checks[p]["replay_excerpt"] = {k: r[k] for k in list(r)[:6] if k != "more"}
                    except Exception:
                        pass
        finally:
            sh("git -C /repo checkout -- .")
            rc, st = sh("git -C /repo status --short")
            assert st.strip() == "", "/repo not restored: " + st
    dst = os.path.join(ROOT, "seeded", sid)
    os.makedirs(dst, exist_ok=True)
    shutil.copy(patch, os.path.join(dst, "patch.diff"))
    if test:
        shutil.copy(os.path.join(out, test), os.path.join(dst, test))
    meta = {}
    try:
        meta = json.load(open(os.path.join(out, "meta.json")))
    except Exception:
        pass
    meta.update({"seeded_id": sid, "kind": "behaviour-preserving" if meta.get("kind") in (None, "strict-refactor") else "property-preserving (behaviour outside the property changed)",
                 "kind_by_author": meta.get("kind"),
                 "author": "independent sub-agent given only the property text and a scratch worktree",
                 "confirmation": res, "our_checks": checks, "ran_by_us": ran,
                 "quiet": [p for p, c in checks.items() if c["verdict"] == "quiet"],
                 "alarms": [p for p, c in checks.items() if c["verdict"] == "ALARM"]})
    json.dump(meta, open(os.path.join(dst, "meta.json"), "w"), indent=1, ensure_ascii=False)
    print(json.dumps({"id": sid, "confirmed": ok, "quiet": meta["quiet"], "alarms": meta["alarms"], "confirmation": res}, indent=1))


if __name__ == "__main__":
    main()
