#!/bin/sh
# run every claimed check (quick by default) on the current tree; print one summary line per property
cd "$(dirname "$0")/.."
tier=${1:-quick}
for p in $(python3 -c "import json;print(' '.join(c['property_id'] for c in json.load(open('MANIFEST.json'))['checks']))"); do
  t0=$(date +%s)
  ./check $p $tier > build/tmp/run_$p.log 2>&1
  rc=$?
  t1=$(date +%s)
  echo "$p rc=$rc $((t1-t0))s $(grep -c '^KNOWN-FINDING' build/tmp/run_$p.log) known $(grep '^VIOLATION' build/tmp/run_$p.log | head -1)"
done
