#!/usr/bin/env python3
"""mutation self-test for C15: apply one mutant at a time to the scratch worktree (which already carries the D21 repair),
require `cargo test --offline` green there, run ./check C15 quick, expect VIOLATION + exit 1. Restores the file afterwards."""
import json, os, subprocess, sys
WT = '/var/tmp/agents/c15/wt'
V = os.path.dirname(os.path.dirname(os.path.abspath(__file__)))
F = os.path.join(WT, 'src/tyme/solar.rs')


def sub1(s, old, new):
    assert s.count(old) == 1, ("pattern must occur exactly once", old[:50], s.count(old))
    return s.replace(old, new)


MUT = [
 ('M1_dog_20_to_10', "get_dog_day: first period starts at the second Geng day (`+ 20` -> `+ 10`)",
  lambda s: sub1(s, 'start = start.next(parent.steps_to(6) as isize + 20);', 'start = start.next(parent.steps_to(6) as isize + 10);')),
 ('M2_nine_81_to_80', "get_nine_day: `start.next(81)` -> `start.next(80)`",
  lambda s: sub1(s, 'let end: SolarDay = start.next(81);', 'let end: SolarDay = start.next(80);')),
 ('M3_hide_le_back', "get_hide_heaven_stem_day: `day_index < days` -> `<=` (D21 re-introduced)",
  lambda s: sub1(s, 'if day_index < days {', 'if day_index <= days {')),
 ('M4_dog_steps_to_5', "get_dog_day: counts from Ji days (`steps_to(6)` -> `steps_to(5)`)",
  lambda s: sub1(s, 'parent.steps_to(6) as isize + 20', 'parent.steps_to(5) as isize + 20')),
 ('M5_pentad_cap_3', "get_phenology_day: cap 2 -> 3 (`if index > 2 { index = 2 }` -> `> 3`, `= 3`)",
  lambda s: sub1(s, '    if index > 2 {\n      index = 2;\n    }', '    if index > 3 {\n      index = 3;\n    }')),
 ('M6_hide_digit', "get_hide_heaven_stem_day: one digit of the packed string (Yin month: Wu 7 -> Wu 5 days: '422205' -> '412205')",
  lambda s: sub1(s, '"93705542220504xx', '"93705541220504xx')),
 ('M7_plum_end_exclusive', "get_plum_rain_day: the leaving day excluded (`self.is_after(end)` -> `!self.is_before(end)`)",
  lambda s: sub1(s, 'if self.is_before(start) || self.is_after(end) {', 'if self.is_before(start) || !self.is_before(end) {')),
 ('M8_dog_liqiu_next2', "get_dog_day: 10/20 decided against White Dew's predecessor (`xia_zhi.next(3)` -> `next(4)`: Chushu instead of Liqiu)",
  lambda s: sub1(s, 'if xia_zhi.next(3).get_julian_day().get_solar_day().is_after(start) {', 'if xia_zhi.next(4).get_julian_day().get_solar_day().is_after(start) {')),
 ('M9_plum_wei_to_wu', "get_plum_rain_day: leaves on the first Wu(6) day instead of Wei(7) (`steps_to(7)` -> `steps_to(6)`)",
  lambda s: sub1(s, 'end = end.next(parent.steps_to(7) as isize);', 'end = end.next(parent.steps_to(6) as isize);')),
 ('M10_hide_last_20', "get_hide_heaven_stem_day: the last allotment is 20 days instead of 'the rest' (`day_counts` 30 -> 20): days 30+ of a two-stem month fall out of the loop",
  lambda s: sub1(s, 'let day_counts: [usize;6] = [3, 5, 7, 9, 10, 30];', 'let day_counts: [usize;6] = [3, 5, 7, 9, 10, 20];')),
 ('M11_dog_liqiu_inclusive', "get_dog_day: middle period is 20 days also when the fifth Geng day IS the Start-of-Autumn day (`is_after(start)` -> `!is_before(start)`)",
  lambda s: sub1(s, 'if xia_zhi.next(3).get_julian_day().get_solar_day().is_after(start) {', 'if !xia_zhi.next(3).get_julian_day().get_solar_day().is_before(start) {')),
 ('M12_nine_82_days', "get_nine_day: the 82nd day still counted (`!self.is_before(end)` -> `self.is_after(end)`)",
  lambda s: sub1(s, 'if self.is_before(start) || !self.is_before(end) {', 'if self.is_before(start) || self.is_after(end) {')),
]


def sh(cmd, cwd=None, timeout=3600):
    p = subprocess.run(cmd, cwd=cwd, shell=True, stdout=subprocess.PIPE, stderr=subprocess.STDOUT, timeout=timeout)
    return p.returncode, p.stdout.decode('utf-8', 'replace')


def main():
    only = sys.argv[1:]
    orig = open(F).read()
    res = []
    try:
        for name, desc, fn in MUT:
            if only and name not in only:
                continue
            open(F, 'w').write(fn(orig))
            rc, out = sh('cargo test --offline 2>&1 | grep -E "^test result" | head -1', cwd=WT)
            tests_green = ('ok.' in out and ' 0 failed' in out)
            rc2, out2 = sh('./check C15 quick', cwd=V)
            viol = [l for l in out2.split('\n') if l.startswith('VIOLATION')]
            last = [l for l in out2.split('\n') if 'tier done' in l]
            r = {'mutant': name, 'what': desc, 'unit_tests_green': tests_green, 'unit_tests': out.strip(), 'check_rc': rc2,
                 'violation_line': viol[0] if viol else None, 'summary': last[0] if last else out2[-300:]}
            if viol:
                try:
                    rp = viol[0].split('replay=')[1].split()[0]
                    obj = json.load(open(os.path.join(V, rp) if not os.path.isabs(rp) else rp))
                    r['first_failing'] = {'impl': obj.get('impl'), 'spec': obj.get('spec'), 'count': obj.get('count')}
                except Exception as e:
                    r['first_failing'] = str(e)
            print(json.dumps(r, ensure_ascii=False), flush=True)
            res.append(r)
    finally:
        open(F, 'w').write(orig)
    json.dump(res, open(os.path.join(V, 'build', 'mutants_c15.json'), 'w'), indent=1, ensure_ascii=False)


if __name__ == '__main__':
    main()
