#!/usr/bin/env python3
"""seeded.py <id> <outdir> <Cxx> [<Cyy> ...]
Confirm an independently written breaking change and run our checks against it.
 1. scratch worktree of /repo HEAD: apply patch.diff, `cargo test --offline` must stay green, the demo must fail;
    revert: the demo must pass.
 2. apply the patch to /repo itself, run `./check Cxx quick` for the listed properties, ALWAYS undo (git checkout -- .).
 3. write /verif/seeded/<id>/{patch.diff, demo, meta.json}.
"""
import json, os, shutil, subprocess, sys, time

ROOT = os.path.dirname(os.path.dirname(os.path.abspath(__file__)))


def sh(cmd, cwd=None, timeout=3600):
    p = subprocess.run(cmd, shell=True, cwd=cwd, stdout=subprocess.PIPE, stderr=subprocess.STDOUT, timeout=timeout)
    return p.returncode, p.stdout.decode("utf-8", "replace")


def main():
    sid, out = sys.argv[1], sys.argv[2]
    props = sys.argv[3:]
    patch = os.path.join(out, "patch.diff")
    demos = [f for f in os.listdir(out) if f.startswith("demo_") and f.endswith(".rs")]
    demo = demos[0]
    name = demo[:-3]
    wt = "/var/tmp/seeded_wt_%s" % sid
    sh("git -C /repo worktree remove --force %s" % wt)
    rc, o = sh("git -C /repo worktree add --detach %s HEAD" % wt)
    ran = []
    res = {"id": sid}
    try:
        os.makedirs(os.path.join(wt, "tests"), exist_ok=True)
        shutil.copy(os.path.join(out, demo), os.path.join(wt, "tests", demo))
        rc, o = sh("cargo test --offline --test %s 2>&1 | tail -5" % name, cwd=wt)
        res["demo_without_patch"] = "pass" if "test result: ok" in o else "FAIL"
        ran.append("scratch worktree, no patch: cargo test --offline --test %s -> %s" % (name, res["demo_without_patch"]))
        rc, o = sh("git apply %s" % patch, cwd=wt)
        if rc != 0:
            res["apply"] = "FAILED: " + o[-300:]
        rc, o = sh("cargo test --offline --lib 2>&1 | grep 'test result'", cwd=wt)
        res["unit_tests_with_patch"] = o.strip()
        ran.append("scratch worktree, patch applied: cargo test --offline --lib -> %s" % o.strip())
        rc, o = sh("cargo test --offline --doc 2>&1 | grep 'test result'", cwd=wt)
        res["doc_tests_with_patch"] = o.strip()
        rc, o = sh("cargo test --offline --test %s 2>&1 | tail -5" % name, cwd=wt)
        res["demo_with_patch"] = "fail" if ("FAILED" in o or "failed" in o) and "test result: ok" not in o else "PASSES(!)"
        ran.append("scratch worktree, patch applied: cargo test --offline --test %s -> %s" % (name, res["demo_with_patch"]))
    finally:
        sh("git -C /repo worktree remove --force %s" % wt)
    ok = res.get("demo_without_patch") == "pass" and res.get("demo_with_patch") == "fail" and "272 passed; 0 failed" in res.get("unit_tests_with_patch", "")
    res["confirmed"] = ok
    checks = {}
    if ok and props:
        rc, st = sh("git -C /repo status --short")
        assert st.strip() == "", "/repo not clean: " + st
        # the harness and the driver must build on the CLEAN tree, else every "catch" below would be our own breakage
        rc, o = sh("cargo build --release --offline 2>&1 | tail -3", cwd=os.path.join(ROOT, "harness"))
        assert "error" not in o, "harness does not build on the clean tree: " + o
        rc, o = sh("lake build tymed 2>&1 | tail -3", cwd=os.path.join(ROOT, "lean"))
        assert "error" not in o, "driver does not build on the clean tree: " + o
        rc, o = sh("git -C /repo apply %s" % patch)
        try:
            for p in props:
                t0 = time.time()
                rc, o = sh("./check %s quick" % p, cwd=ROOT)
                vio = [l for l in o.split("\n") if l.startswith("VIOLATION")]
                checks[p] = {"exit": rc, "violation_line": vio[0] if vio else None, "wall_s": round(time.time() - t0, 1),
                             "tail": o.strip().split("\n")[-3:]}
                ran.append("/repo with patch: ./check %s quick -> exit %d %s" % (p, rc, vio[0] if vio else ""))
                if vio and "replay=" in vio[0]:
                    rp = vio[0].split("replay=")[1].split()[0]
                    try:
                        r = json.load(open(os.path.join(ROOT, rp)))
                        checks[p]["replay_excerpt"] = {k: r[k] for k in list(r)[:6] if k != "more"}
                    except Exception:
                        pass
        finally:
            sh("git -C /repo checkout -- .")
            rc, st = sh("git -C /repo status --short")
            assert st.strip() == "", "/repo not restored: " + st
    dst = os.path.join(ROOT, "seeded", sid)
    os.makedirs(dst, exist_ok=True)
    shutil.copy(patch, os.path.join(dst, "patch.diff"))
    shutil.copy(os.path.join(out, demo), os.path.join(dst, demo))
    meta = {}
    try:
        meta = json.load(open(os.path.join(out, "meta.json")))
    except Exception:
        pass
    meta.update({"seeded_id": sid, "author": "independent sub-agent given only the property text and a scratch worktree",
                 "confirmation": res, "our_checks": checks, "ran_by_us": ran,
                 "caught_by": [p for p, c in checks.items() if c["exit"] == 1 and c["violation_line"]],
                 "missed_by": [p for p, c in checks.items() if not (c["exit"] == 1 and c["violation_line"])]})
    json.dump(meta, open(os.path.join(dst, "meta.json"), "w"), indent=1, ensure_ascii=False)
    print(json.dumps({"id": sid, "confirmed": ok, "caught_by": meta["caught_by"], "missed_by": meta["missed_by"], "confirmation": res}, indent=1))


if __name__ == "__main__":
    main()
