#!/usr/bin/env python3
"""register.py NN  — add harness module pNN and driver module PNN to the dispatch tables (idempotent)."""
import sys, re, os
ROOT = os.path.dirname(os.path.dirname(os.path.abspath(__file__)))
nn = sys.argv[1]
p = os.path.join(ROOT, "harness/src/main.rs")
s = open(p).read()
if "mod p%s;" % nn not in s:
    s = s.replace("// MODULES", "mod p%s;\n// MODULES" % nn)
    s = s.replace("  // DISPATCH-EXEC", "  if let Some(r) = p%s::exec(op, a) { return r; }\n  // DISPATCH-EXEC" % nn)
    s = s.replace("  // DISPATCH-ENUM", "  if p%s::run_enum(name, args, w) { return true; }\n  // DISPATCH-ENUM" % nn)
    open(p, "w").write(s)
p = os.path.join(ROOT, "lean/Main.lean")
s = open(p).read()
if "import Tyme.Driver.P%s\n" % nn not in s:
    s = s.replace("-- IMPORTS", "import Tyme.Driver.P%s\n-- IMPORTS" % nn) if False else s.replace("import Tyme.Driver.P01\n", "import Tyme.Driver.P01\nimport Tyme.Driver.P%s\n" % nn)
    s = s.replace("    -- DISPATCH-EXEC", "    <|> (P%s.execOp op a)\n    -- DISPATCH-EXEC" % nn)
    s = s.replace("    -- DISPATCH-SPEC", "    <|> (P%s.specOp op a)\n    -- DISPATCH-SPEC" % nn)
    s = s.replace("  -- DISPATCH-ENUM", "  <|> (P%s.runEnum name args out)\n  -- DISPATCH-ENUM" % nn)
    open(p, "w").write(s)
print("registered", nn)
