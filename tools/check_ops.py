#!/usr/bin/env python3
"""op names must be owned by exactly one harness module (first owner wins in dispatch; a collision silently changes semantics)"""
import glob, re, os, sys
ROOT = os.path.dirname(os.path.dirname(os.path.abspath(__file__)))
owner = {}
bad = 0
for f in sorted(glob.glob(os.path.join(ROOT, "harness/src/p*.rs"))):
    s = open(f).read()
    m = re.search(r"const OPS: &\[&str\] = &\[(.*?)\];", s, re.S)
    if not m:
        continue
    for op in re.findall(r'"([^"]+)"', m.group(1)):
        if op in owner:
            print("COLLISION", op, owner[op], os.path.basename(f)); bad += 1
        owner[op] = os.path.basename(f)
print(len(owner), "ops,", bad, "collisions")
sys.exit(1 if bad else 0)
