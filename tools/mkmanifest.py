#!/usr/bin/env python3
"""Rebuild MANIFEST.json from notes/Cnn.manifest.json entries (one per claimed property)."""
import glob, json, os
ROOT = os.path.dirname(os.path.dirname(os.path.abspath(__file__)))
props = [json.loads(l)["id"] for l in open(os.path.join(ROOT, "properties.jsonl"))]
m = json.load(open(os.path.join(ROOT, "MANIFEST.json")))
checks = []
for p in props:
    f = os.path.join(ROOT, "notes", p + ".manifest.json")
    if os.path.exists(f):
        e = json.load(open(f))
        if isinstance(e, dict) and "checks" in e:
            e = e["checks"][0]
        e["property_id"] = p
        e.setdefault("quick_cmd", "./check %s quick" % p)
        e.setdefault("thorough_cmd", "./check %s thorough" % p)
        e.setdefault("evidence_file", "evidence/%s.json" % p)
        e.setdefault("replay_cmd_template", "./check %s --replay {path}" % p)
        e.setdefault("engine", "lean-model")
        checks.append(e)
m["checks"] = checks
claimed = {c["property_id"] for c in checks}
na_reasons = {}
try:
    na_reasons = json.load(open(os.path.join(ROOT, "notes", "not_applicable.json")))
except OSError:
    pass
m["not_applicable"] = [{"property_id": p, "reason": na_reasons.get(p, "check under construction in this session (not yet claimed); see DESIGN.md §7")} for p in props if p not in claimed]
for e in m.get("engines", []):
    e["serves_properties"] = sorted(claimed)
json.dump(m, open(os.path.join(ROOT, "MANIFEST.json"), "w"), indent=1, ensure_ascii=False)
print("claimed:", sorted(claimed))
