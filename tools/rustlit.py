"""Minimal reader for Rust literals as they appear in `static` / `const` / `let` initialisers: string literals with
escapes and line continuations, raw strings, `concat!(...)` of string literals, numeric literals with `_` separators,
exponents and type suffixes; comments are skipped. Used by the source translators (tools/extract_*.py) so that a
re-formatted table is still read as the same table."""
import re
from fractions import Fraction


def strip_comments(s):
    out = []
    i = 0
    n = len(s)
    while i < n:
        c = s[i]
        if c == '"':                      # ordinary string: copy verbatim
            j = i + 1
            while j < n and s[j] != '"':
                j += 2 if s[j] == "\\" else 1
            out.append(s[i:j + 1]); i = j + 1
        elif c == "r" and re.match(r'r#*"', s[i:]):
            m = re.match(r'r(#*)"', s[i:])
            end = s.find('"' + m.group(1), i + len(m.group(0)))
            out.append(s[i:end + 1 + len(m.group(1))]); i = end + 1 + len(m.group(1))
        elif s.startswith("//", i):
            j = s.find("\n", i)
            i = n if j < 0 else j
        elif s.startswith("/*", i):
            depth = 1; j = i + 2
            while j < n and depth:
                if s.startswith("/*", j): depth += 1; j += 2
                elif s.startswith("*/", j): depth -= 1; j += 2
                else: j += 1
            i = j
        else:
            out.append(c); i += 1
    return "".join(out)


_ESC = {"n": "\n", "r": "\r", "t": "\t", "\\": "\\", "0": "\0", '"': '"', "'": "'"}


def read_string(s, i):
    """read one string literal starting at s[i] (after optional whitespace); return (value, next index)"""
    while s[i].isspace():
        i += 1
    m = re.match(r'r(#*)"', s[i:])
    if m:
        start = i + len(m.group(0))
        end = s.index('"' + m.group(1), start)
        return s[start:end], end + 1 + len(m.group(1))
    if s[i] != '"':
        raise ValueError("string literal expected at %r" % s[i:i + 30])
    i += 1
    out = []
    while s[i] != '"':
        c = s[i]
        if c == "\\":
            d = s[i + 1]
            if d == "\n" or (d == "\r" and s[i + 2] == "\n"):       # line continuation: skip the newline and leading whitespace
                i += 2
                while s[i] in " \t\r\n":
                    i += 1
                continue
            if d == "x":
                out.append(chr(int(s[i + 2:i + 4], 16))); i += 4; continue
            if d == "u":
                j = s.index("}", i)
                out.append(chr(int(s[i + 3:j].replace("_", ""), 16))); i = j + 1; continue
            out.append(_ESC[d]); i += 2; continue
        out.append(c); i += 1
    return "".join(out), i + 1


def read_string_expr(s, i):
    """a string literal or concat!( literal, literal, ... ) ; returns (value, next index)"""
    while s[i].isspace():
        i += 1
    m = re.match(r"concat\s*!\s*[\(\[\{]", s[i:])
    if not m:
        return read_string(s, i)
    i += len(m.group(0))
    parts = []
    while True:
        while s[i].isspace() or s[i] == ",":
            i += 1
        if s[i] in ")]}":
            return "".join(parts), i + 1
        v, i = read_string_expr(s, i)
        parts.append(v)


def parse_number(tok):
    """numeric literal -> Fraction (handles 1_000.5, 1e3, 2.5E-1, suffixes f64/f32/i64/isize/usize/..., leading sign)"""
    t = tok.strip().replace("_", "")
    t = re.sub(r"(f64|f32|isize|usize|i8|i16|i32|i64|i128|u8|u16|u32|u64|u128)$", "", t)
    if t.endswith("."):
        t += "0"
    return Fraction(t)


def split_top(body):
    """split an array body at top-level commas (strings and brackets respected); empty trailing element dropped"""
    out = []; cur = []; depth = 0; i = 0; n = len(body)
    while i < n:
        c = body[i]
        if c == '"':
            j = i + 1
            while body[j] != '"':
                j += 2 if body[j] == "\\" else 1
            cur.append(body[i:j + 1]); i = j + 1; continue
        if c in "([{": depth += 1
        if c in ")]}": depth -= 1
        if c == "," and depth == 0:
            out.append("".join(cur)); cur = []
        else:
            cur.append(c)
        i += 1
    if "".join(cur).strip():
        out.append("".join(cur))
    return [x.strip() for x in out if x.strip()]
