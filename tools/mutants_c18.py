#!/usr/bin/env python3
"""mutation self-test for C18: apply one mutant at a time to the scratch worktree, require cargo test green, run ./check C18 quick"""
import json, os, re, subprocess, sys, glob
WT='/var/tmp/agents/c18/wt'; V='/var/tmp/agents/c18/verif'
F=os.path.join(WT,'src/tyme/culture/mod.rs')

def sub1(s, old, new, count=1):
    assert s.count(old) >= 1, ("pattern not found", old[:40])
    return s.replace(old, new, count)

def table_edit(s, name, k, fn):
    """apply fn to the k-th string literal of static `name`"""
    m = re.search(r'static\s+'+name+r'\s*:[^=]*=\s*\[', s)
    i = m.end(); j = s.index('];', i)
    body = s[i:j]
    lits = list(re.finditer(r'"([^"]*)"', body))
    t = lits[k]
    new = fn(t.group(1))
    assert new != t.group(1)
    body2 = body[:t.start(1)] + new + body[t.end(1):]
    return s[:i] + body2 + s[j:]

def nth_record_edit(sep, n, fn):
    def f(x):
        parts = x.split(sep)
        parts[n] = fn(parts[n])
        return sep.join(parts)
    return f

MUT = {
 # name: (description, function on source, expected: 'violation'|'quiet'|'tie')
 'M1_gods_index_0x97': ("DAY_GODS[4] record of day 0x21: second spirit pair -> 97 (151, wraps to 0 through from_index)",
    lambda s: table_edit(s,'DAY_GODS',4, nth_record_edit(';', 0x21+1, lambda r: r[:4]+'97'+r[6:])), 'violation'),
 'M2_gods_drop_semicolon': ("DAY_GODS[7]: the ';' before record 0x2A dropped",
    lambda s: table_edit(s,'DAY_GODS',7, lambda x: x.replace(';2A','2A',1)), 'violation'),
 'M3_daytaboo_drop_semicolon': ("DAY_TABOO[9]: the ';' after record 40 dropped (later records shift by one)",
    lambda s: table_edit(s,'DAY_TABOO',9, lambda x: ';'.join(x.split(';')[:40]) + x.split(';')[40] + ';' + ';'.join(x.split(';')[41:]) if False else (lambda p: ';'.join(p[:40]+[p[40]+p[41]]+p[42:]))(x.split(';'))), 'violation'),
 'M4_hour_both': ("HOUR_TABOO[5] record of day 33: first recommended activity also appended to the avoids",
    lambda s: table_edit(s,'HOUR_TABOO',5, nth_record_edit(';', 33, lambda r: r + (r[:2] if r[:2] != ',' and ',' not in r[:2] else '0F'))), 'violation'),
 'M5_luck_61': ("get_luck: `< 60` -> `< 61`",
    lambda s: sub1(s,'if self.get_index() < 60 { 0 } else { 1 }','if self.get_index() < 61 { 0 } else { 1 }'), 'violation'),
 'M5b_luck_59': ("get_luck: `< 60` -> `< 59` (the test suite happens to pin 五虚 = index 60, so `< 61` is killed by test39; this one survives the tests)",
    lambda s: sub1(s,'if self.get_index() < 60 { 0 } else { 1 }','if self.get_index() < 59 { 0 } else { 1 }'), 'violation'),
 'M6_numbers_permuted': ("NUMBERS: entries 七 and 八 swapped",
    lambda s: sub1(s,'"六", "七", "八", "九"','"六", "八", "七", "九"'), 'violation'),
 'M7_taboo_index_0x8D': ("DAY_TABOO[2] record of day 50: first recommended pair -> 8D (141, wraps to 0)",
    lambda s: table_edit(s,'DAY_TABOO',2, nth_record_edit(';', 50, lambda r: '8D'+r[2:])), 'violation'),
 'M8_odd_length': ("HOUR_TABOO[10] record of day 7: one hex digit deleted (odd length -> slice panic)",
    lambda s: table_edit(s,'HOUR_TABOO',10, nth_record_edit(';', 7, lambda r: r[1:])), 'violation'),
 'M9_gods_empty_record': ("DAY_GODS[1] record of day 0x10 emptied to a single non-hex char ('.' needs one char): `;10G`",
    lambda s: table_edit(s,'DAY_GODS',1, nth_record_edit(';', 0x10+1, lambda r: '10G')), 'violation'),
 'M10_names_swapped_over_split': ("GOD_NAMES: 解除 (59) and 五虚 (60) swapped",
    lambda s: sub1(s,'"解除", "五虚"','"五虚", "解除"'), 'violation'),
 'Q1_reformat': ("harmless: literals re-wrapped (line continuation inside a string, comments and blank lines between elements, `pub(crate) static`)",
    lambda s: (lambda t: sub1(t,'static DAY_TABOO: [&str; 12] = [','pub(crate) static DAY_TABOO :\n   [ &str ; 12 ]\n = [ // re-wrapped\n\n'))(
              table_edit(s,'DAY_GODS',3, lambda x: x[:100]+'\\\n      '+x[100:])), 'quiet'),
 'Q2_regex_by_hand': ("harmless: the regex replaced by find()/split on the same text",
    lambda s: sub1(s,'''    if let Some(caps) = reg.captures(DAY_GODS[month.get_earth_branch().next(-2).get_index()]) {
      let data: &str = caps.get(1).unwrap().as_str();''','''    let _ = &reg;
    let text: &str = DAY_GODS[month.get_earth_branch().next(-2).get_index()];
    let key: String = format!(";{:02X}", day.get_index());
    if let Some(pos) = text.find(key.as_str()) {
      let rest: &str = &text[pos + 3..];
      let data: &str = rest.split(';').next().unwrap();'''), 'quiet'),
 'Q3_lowercase_pair': ("harmless: one data pair of DAY_TABOO[6] record 12 written in lower case (from_str_radix accepts it)",
    lambda s: table_edit(s,'DAY_TABOO',6, nth_record_edit(';', 12, lambda r: r.lower())), 'quiet'),
 'M11_wrong_row': ("get_day_gods: `next(-2)` -> `next(-1)` (every month reads its neighbour's row; tables stay well-formed)",
    lambda s: sub1(s,'DAY_GODS[month.get_earth_branch().next(-2).get_index()]','DAY_GODS[month.get_earth_branch().next(-1).get_index()]'), 'violation'),
 'M12_hour_swapped_fields': ("get_hour_avoids reads field 0 (same as recommends)",
    lambda s: sub1(s,'Self::get_taboos(HOUR_TABOO, hour.get_earth_branch().get_index(), day.get_index(), 1)','Self::get_taboos(HOUR_TABOO, hour.get_earth_branch().get_index(), day.get_index(), 0)'), 'violation'),
 'T1_renamed': ("broken tie: DAY_GODS renamed to DAY_SPIRITS",
    lambda s: s.replace('DAY_GODS','DAY_SPIRITS'), 'tie'),
 'T2_reencoded': ("broken tie: HOUR_TABOO built with concat! instead of plain literals",
    lambda s: table_edit(s,'HOUR_TABOO',0, lambda x: x[:50]+'", "'+x[50:]).replace('static HOUR_TABOO: [&str; 12]','static HOUR_TABOO: [&str; 13]') if False else
              (lambda t: t)(re.sub(r'(static HOUR_TABOO: \[&str; 12\] = \[\s*)"([^"]{40})', r'\1concat!("\2", "") , "', s, count=1).replace('static HOUR_TABOO: [&str; 12]','static HOUR_TABOO: [&str; 13]')), 'skip'),
}

def sh(cmd, cwd=None, timeout=1800):
    p = subprocess.run(cmd, cwd=cwd, shell=True, stdout=subprocess.PIPE, stderr=subprocess.STDOUT, timeout=timeout)
    return p.returncode, p.stdout.decode('utf-8','replace')

def main():
    names = sys.argv[1:] or [k for k in MUT if MUT[k][2] != 'skip']
    results = {}
    for n in names:
        desc, fn, expect = MUT[n]
        sh('git checkout -- .', cwd=WT)
        src = open(F, encoding='utf-8').read()
        mutated = fn(src)
        assert mutated != src, n
        open(F, 'w', encoding='utf-8').write(mutated)
        rc, out = sh('cargo test --offline 2>&1 | grep "^test result\\|error\\[" ', cwd=WT)
        green = out.count('test result: ok') >= 2 and 'FAILED' not in out and 'error[' not in out
        for f in glob.glob(os.path.join(V,'replays','C18-*.json')): os.remove(f)
        rc, out = sh('./check C18 quick', cwd=V)
        vio = [l for l in out.split('\n') if l.startswith('VIOLATION')]
        rep = None
        if vio:
            m = re.search(r'replay=(\S+)', vio[0])
            rep = json.load(open(os.path.join(V, m.group(1))))
        summary = {'desc': desc, 'expect': expect, 'tests_green': green, 'rc': rc, 'violation': vio[:1]}
        if rep:
            if rep.get('kind') == 'spec-vs-implementation':
                summary['replay'] = {'where': rep['where'], 'impl': rep['impl'], 'spec': rep['spec'], 'count': rep['count']}
            else:
                summary['replay'] = {'kind': rep['kind'], 'broken': [ (b.get('tie') or b.get('theorem') or b.get('audit') or str(b))[:160] + (' :: ' + '; '.join(e[-200:] for e in b.get('errors', [])[:3]) if b.get('errors') else '') + (' :: ' + b.get('error','')[-300:] if b.get('error') else '') for b in rep.get('broken', [])][:4],
                                     'k_div': rep.get('correspondence_divergences', [])[:2]}
        tail = [l for l in out.split('\n') if 'tier done' in l or 'obligations' in l or 'DIFF' in l or 'FAILED' in l or 'raw well' in l]
        summary['log'] = tail
        results[n] = summary
        print(n, json.dumps(summary, ensure_ascii=False, indent=1), flush=True)
    sh('git checkout -- .', cwd=WT)
    json.dump(results, open('/var/tmp/agents/c18/mut/results.json', 'a'), ensure_ascii=False, indent=1)

main()
