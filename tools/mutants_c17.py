#!/usr/bin/env python3
"""mutation self-test for C17: apply one mutant at a time to the scratch worktree (which carries fixes/C17-almanac-cycles.diff),
require `cargo test --offline` green there, run ./check C17 quick, expect a VIOLATION line and exit 1; restore the worktree.
usage: tools/mutants_c17.py [name ...]   (harness/Cargo.toml must point at the worktree)"""
import json, os, subprocess, sys
WT = '/var/tmp/agents/c17/wt'
V = os.path.dirname(os.path.dirname(os.path.abspath(__file__)))
SC = 'src/tyme/sixtycycle.rs'
LU = 'src/tyme/lunar.rs'


def rep(path, old, new, count=None):
    def f():
        p = os.path.join(WT, path)
        s = open(p).read()
        n = s.count(old)
        assert n >= 1, ("pattern not found", path, old[:50])
        if count is not None:
            assert n == count, ("pattern count", n, old[:50])
        open(p, 'w').write(s.replace(old, new))
    return f


def seq(*fs):
    def f():
        for g in fs:
            g()
    return f


D12_FIXED = "SixStar::from_index((self.month.get_month() as isize + self.day as isize - 2) % 6)"
ASC_FIXED = "let asc: bool = (!solar.is_before(dong_zhi.get_julian_day().get_solar_day()) && solar.is_before(xia_zhi.get_julian_day().get_solar_day())) || !solar.is_before(dong_zhi.next(24).get_julian_day().get_solar_day());"
ASC_OLD = "let asc: bool = !solar.is_before(dong_zhi.get_julian_day().get_solar_day()) && solar.is_before(xia_zhi.get_julian_day().get_solar_day());"

MUT = {
    'M1_six_mod5': ("six-day star `% 6` -> `% 5`", rep(LU, D12_FIXED, D12_FIXED.replace("% 6)", "% 5)"), 1)),
    'M2_mansion_table_permuted': ("SixtyCycleDay mansion table [10, 18, 26, ...] -> [10, 26, 18, ...]",
        rep(SC, "TwentyEightStar::from_index([10, 18, 26, 6, 14, 22, 2][self.solar_day.get_week().get_index()])",
            "TwentyEightStar::from_index([10, 26, 18, 6, 14, 22, 2][self.solar_day.get_week().get_index()])", 1)),
    'M2b_lunar_mansion_table_permuted': ("LunarDay mansion table: 14 and 22 swapped",
        rep(LU, "TwentyEightStar::from_index([10, 18, 26, 6, 14, 22, 2][self.get_solar_day().get_week().get_index()])",
            "TwentyEightStar::from_index([10, 18, 26, 6, 22, 14, 2][self.get_solar_day().get_week().get_index()])", 1)),
    'M3_twelve_7': ("day spirits `(8 - month branch % 6) * 2` -> `(7 - …) * 2`",
        rep(SC, "TwelveStar::from_index(self.day.get_earth_branch().get_index() as isize + (8 - self.get_month().get_earth_branch().get_index() as isize % 6) * 2)",
            "TwelveStar::from_index(self.day.get_earth_branch().get_index() as isize + (7 - self.get_month().get_earth_branch().get_index() as isize % 6) * 2)", 1)),
    'M3b_hour_twelve_7': ("hour spirits (SixtyCycleHour) `8 -` -> `7 -`",
        rep(SC, "TwelveStar::from_index(self.hour.get_earth_branch().get_index() as isize + (8 - self.get_day().get_earth_branch().get_index() as isize % 6) * 2)",
            "TwelveStar::from_index(self.hour.get_earth_branch().get_index() as isize + (7 - self.get_day().get_earth_branch().get_index() as isize % 6) * 2)", 1)),
    'M4_nine_gt30': ("SixtyCycleDay nine star: nearest-Jiazi test `> 29` -> `> 30` (all three solstices)",
        rep(SC, "_index > 29 {", "_index > 30 {")),
    'M4b_nine_gt30_summer_lunar': ("LunarDay nine star: `xia_zhi_index > 29` -> `> 30` (summer turning point only)",
        rep(LU, "xia_zhi_solar.next(if xia_zhi_index > 29 {", "xia_zhi_solar.next(if xia_zhi_index > 30 {", 1)),
    'M5_hour_start_permuted': ("SixtyCycleHour nine star `[8, 5, 2]` -> `[8, 2, 5]`",
        rep(SC, "let mut start: isize = [8, 5, 2][self.get_day()", "let mut start: isize = [8, 2, 5][self.get_day()", 1)),
    'M6_phase_day': ("moon phase `day - 1` -> `day`", rep(LU, "Phase::from_index(self.day as isize - 1)", "Phase::from_index(self.day as isize)", 1)),
    'M7_duty_swapped': ("day officer: month branch − day branch",
        rep(SC, "Duty::from_index(self.day.get_earth_branch().get_index() as isize - self.get_month().get_earth_branch().get_index() as isize)",
            "Duty::from_index(self.get_month().get_earth_branch().get_index() as isize - self.day.get_earth_branch().get_index() as isize)", 1)),
    'M8_revert_D12': ("the original defect D12: signed month in the six-day star",
        rep(LU, D12_FIXED, "SixStar::from_index((self.get_month() + self.day as isize - 2) % 6)", 1)),
    'M9_revert_D24_lunar': ("the original defect D24 in LunarHour only: no ascent after the December solstice", rep(LU, ASC_FIXED, ASC_OLD, 1)),
    'M10_year_nine_64': ("LunarYear nine star `63 +` -> `64 +`",
        rep(LU, "NineStar::from_index(63 + self.get_twenty()", "NineStar::from_index(64 + self.get_twenty()", 1)),
    'M11_month_nine_group': ("SixtyCycleMonth nine star: year group `% 3 * 3` -> `% 3 * 2`",
        rep(SC, "NineStar::from_index(27 - self.get_year().get_earth_branch().get_index() as isize % 3 * 3 - index)",
            "NineStar::from_index(27 - self.get_year().get_earth_branch().get_index() as isize % 3 * 2 - index)", 1)),
    'M12_ren_hour': ("LunarHour minor Ren: `.next(index_in_day)` -> `.next(index_in_day + 1)`",
        rep(LU, "self.get_lunar_day().get_minor_ren().next(self.get_index_in_day() as isize)", "self.get_lunar_day().get_minor_ren().next(self.get_index_in_day() as isize + 1)", 1)),
    'M13_revert_D26_sixty': ("the original defect D26 in SixtyCycleDay only: January days counted back from the winter turning point",
        rep(SC, "offset = 8 - d.subtract(xia_zhi_solar0.next(if xia_zhi_index0 > 29 { 60 - xia_zhi_index0 } else { -xia_zhi_index0 }));",
            "offset = 8 + solar_shun_bai.subtract(d);", 1)),
}


def sh(cmd, cwd=None, timeout=3600):
    p = subprocess.run(cmd, cwd=cwd, shell=True, stdout=subprocess.PIPE, stderr=subprocess.STDOUT, timeout=timeout)
    return p.returncode, p.stdout.decode('utf-8', 'replace')


def restore():
    sh("git checkout -- src && git apply %s/fixes/C17-almanac-cycles.diff" % V, cwd=WT)


def main():
    names = sys.argv[1:] or list(MUT)
    results = {}
    for n in names:
        desc, fn = MUT[n]
        restore()
        fn()
        rc, out = sh("cargo test --offline 2>&1 | grep -E '^test result' | head -1", cwd=WT)
        tests = out.strip()
        green = " 0 failed" in tests
        rc, out = sh("./check C17 quick 2>&1 | grep -E 'VIOLATION|quick tier done|stream|ops:|probes'", cwd=V)
        viol = [l for l in out.split("\n") if l.startswith("VIOLATION")]
        caught_by = [l.strip() for l in out.split("\n") if "DIFF" in l or "failing" in l and "S failing 0" not in l]
        replay = None
        if viol:
            path = viol[0].split("replay=")[1].split()[0]
            try:
                obj = json.load(open(os.path.join(V, path)))
                replay = {"where": obj.get("where"), "impl": obj.get("impl"), "spec": obj.get("spec"), "count": obj.get("count")}
                os.remove(os.path.join(V, path))
            except Exception as e:
                replay = str(e)
        results[n] = {"desc": desc, "unit_tests": tests, "tests_green": green, "violation": bool(viol), "line": viol[:1], "streams": caught_by, "first": replay}
        print(n, "| tests:", tests, "|", "CAUGHT" if viol else "MISSED", "|", replay, flush=True)
    restore()
    sh("cargo build --release --offline", cwd=os.path.join(V, "harness"))
    json.dump(results, open(os.path.join(V, "build", "mutants_c17.json"), "w"), indent=1, ensure_ascii=False)


if __name__ == "__main__":
    main()
