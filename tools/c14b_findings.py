#!/usr/bin/env python3
"""c14b_findings.py — (run by hand, never by ./check) recompute the known-finding entries of the lunar half of C14 from
the unchanged tree: runs the harness streams c14b.weeks / c14b.next and the spec streams of the driver, groups the lines on
which implementation != spec by D4 junction, and rewrites the C14 lunar entries (ids `D4-c14-*`, `C14-lweek-year0-*`) of
known_findings.json.  Prints the (year, month, start, index) keys."""
import json, os, subprocess, sys
ROOT = os.path.dirname(os.path.dirname(os.path.abspath(__file__)))
H = os.path.join(ROOT, "harness/target/release/tymeh")
D = os.path.join(ROOT, "lean/.lake/build/bin/tymed")


def lines(cmd):
    return subprocess.run(cmd, stdout=subprocess.PIPE, check=True).stdout.decode().split("\n")


def group_of_year(y):
    if y <= 2: return "year0"
    if y <= 12: return "ad9"
    if y == 22 or y == 23 or (y == 24 and False): return "ad24"
    return None


def main():
    hw = lines([H, "enum", "c14b.weeks"]); sw = lines([D, "enum", "c14b.weeks.spec"])
    assert len(hw) == len(sw)
    groups = {"year0": [], "ad9": [], "ad24": [], "ad25": [], "ad240": []}
    for a, b in zip(hw, sw):
        if a == b: continue
        t = a.split()
        y, m = int(t[0]), int(t[1])
        if t[4] != "|": raise SystemExit("count/mask line differs: %s / %s" % (a, b))
        if y == 0: g = "year0"
        elif y in (8, 9): g = "ad9"
        elif y == 23 or (y == 24 and m == 1): g = "ad24"
        elif y in (24, 25): g = "ad25"
        elif y in (239, 240): g = "ad240"
        else: raise SystemExit("unexpected failing line %s" % a)
        groups[g].append(a)
    hn = lines([H, "enum", "c14b.next", "all"]); sn = lines([D, "enum", "c14b.next.spec", "all"])
    assert len(hn) == len(sn)
    bad = sorted(set(int(a.split()[0]) for a, b in zip(hn, sn) if a != b))
    good = sorted(set(int(a.split()[0]) for a, b in zip(hn, sn) if a == b and a))
    cl = []
    for j in bad:
        if cl and j - cl[-1][1] < 2000: cl[-1][1] = j
        else: cl.append([j, j])
    for lo, hi in cl:
        assert not [x for x in good if lo <= x <= hi], "failing first-day numbers are not an interval"
    assert len(cl) == 4, cl
    what_w = {
        "year0": "range edge: every week of lunar month 0-11 (1 BC-12-15 .. 0001-01-13) is refused by get_first_day/get_days although the weeks beginning on or after 0001-01-01 are representable: LunarWeek::get_first_day needs the civil date of day 1 of the month, which lies in 1 BC",
        "ad9": "D4 (duplicated lunation at the AD 9 reform: lunar months 8-12 and 9-1 are the same lunation): first day / listed days of the weeks of 8-11, 8-12, 9-1 that meet it are shifted by a lunation",
        "ad24": "D4 (skipped lunation at AD 24 between 23-12 and 24-1): first day / listed days of the weeks of 23-leap11, 23-12, 24-1 that meet the gap are refused or shifted",
        "ad25": "D4 (duplicated lunation at AD 25, lunar months 24-10 .. 25-1): first day / listed days of the weeks meeting it are shifted",
        "ad240": "D4 (duplicated lunation at AD 240, lunar months 239-11 .. 240-1): first day / listed days of the weeks meeting it are shifted",
    }
    ids_n = ["C14-lweek-year0-next", "D4-c14-ad9-next", "D4-c14-ad24-25-next", "D4-c14-ad240-next"]
    what_n = [
        "range edge: LunarWeek::next(n), n in -60..60, is refused (or its first day is) whenever the walk has to pass lunar month 0-11 or an earlier one, whose day 1 is not a civil date of 0001..9999, although the target week begins on or after 0001-01-01",
        "D4 AD 9 junction: LunarWeek::next(n) is off by the duplicated lunation for every week whose walk of n in -60..60 weeks crosses it",
        "D4 AD 24 / AD 25 junctions: LunarWeek::next(n) is off / refused for every week whose walk of n in -60..60 weeks crosses them",
        "D4 AD 240 junction: LunarWeek::next(n) is off by the duplicated lunation for every week whose walk of n in -60..60 weeks crosses it",
    ]
    ents = []
    for g in ["year0", "ad9", "ad24", "ad25", "ad240"]:
        ls = groups[g]
        keys = [[int(x) for x in l.split()[:4]] for l in ls]
        ents.append({"property": "C14", "kind": "known", "id": ("C14-lweek-year0-weeks" if g == "year0" else "D4-c14-%s-weeks" % g),
                     "what": what_w[g] + " [stream c14b.weeks, %d (year, month, start, index) keys]" % len(ls),
                     "key": {"op": "LunarWeek::get_first_day / get_days", "year_month_start_index": keys},
                     "match": {"where": "c14b.weeks", "lines": ls}})
        print(g, len(ls), "keys:", " ".join("(%d,%d,%d,%d)" % tuple(k) for k in keys))
    for k, (lo, hi) in enumerate(cl):
        ents.append({"property": "C14", "kind": "known", "id": ids_n[k],
                     "what": what_n[k] + " [stream c14b.next: exactly the weeks whose first day number lies in %d..%d]" % (lo, hi),
                     "key": {"op": "LunarWeek::next", "first_day_number_of_week": [lo, hi], "n": "-60..60"},
                     "match": {"where": "c14b.next", "range": [[lo], [hi]], "nfields": 1}})
        print("next", lo, hi)
    p = os.path.join(ROOT, "known_findings.json")
    data = json.load(open(p))
    mine = set(e["id"] for e in ents)
    data["entries"] = [e for e in data["entries"] if not (e.get("property") == "C14" and (e["id"] in mine or e["id"].startswith("D4-c14-") or e["id"].startswith("C14-lweek-")))] + ents
    json.dump(data, open(p, "w"), indent=1, ensure_ascii=False)
    open(p, "a").write("\n")


main()
