"""C05 configuration: astronomy (partial: proof for clauses (i) and (iv), executable oracle for (ii) and (iii))."""
import os
import sys
from props_common import *

sys.path.insert(0, os.path.join(os.path.dirname(os.path.abspath(__file__)), "tools"))
from gen_eph import gen_eph
from extract_c05 import gen_c05

ARCSEC_NRAD = 4848


def c05_oracle(tier, seed, tmp, broken, k_fail, s_fail, ev_cov):
    import subprocess
    from checklib import TYMEH, TYMED, ROOT

    def stream(exe, args, inp=None):
        p = subprocess.run([exe] + args, input=inp, stdout=subprocess.PIPE, stderr=subprocess.PIPE)
        return [l for l in p.stdout.decode().split("\n") if l]

    ev = {}
    # (i) lunations: first day vs civil day of the precise conjunction (also a kernel fact; here: name the failing lunation)
    rows = [l.split() for l in stream(TYMEH, ["enum", "c05.shuo", "1961", "9999"])]
    bad_claim = [r for r in rows if int(r[0]) <= 8000 and r[2] != r[3]]
    beyond = [r for r in rows if int(r[0]) > 8000 and r[2] != r[3]]
    for r in bad_claim[:50]:
        s_fail.append(("c05.shuo", "%s %s first=%s" % (r[0], r[1], r[2]), "%s %s first=%s (civil day of the precise conjunction)" % (r[0], r[1], r[3])))
    ev["lunations_1961_8000"] = len([r for r in rows if int(r[0]) <= 8000])
    ev["lunations_differing_beyond_8000_outside_claim"] = len(beyond)
    # (i) terms
    terms = [l.split() for l in open(os.path.join(ROOT, "build", "dump", "terms.tsv"))]
    nt = 0
    for y, i, qi, td, sod in terms:
        if int(y) >= 1961 and td != "0":
            nt += 1
            if not (qi == td or (int(td) == int(qi) + 1 and sod == "0")):
                s_fail.append(("c05.terms", "%s %s calendar day %s" % (y, i, qi), "%s %s day of the precise instant %s (second %s)" % (y, i, td, sod)))
    ev["terms_1961_on"] = nt
    # (ii) independent low-precision theory, 1900..2150 (supporting, non-proof)
    lines = ["term %s %s %s %s" % (y, i, td, sod) for y, i, qi, td, sod in terms if 1900 <= int(y) <= 2150 and td != "0"]
    lines += ["moon %s %s %s %s" % (r[0], r[1], r[3], r[4]) for r in [l.split() for l in stream(TYMEH, ["enum", "c05.shuo", "1900", "2150"])]]
    out = stream(TYMED, ["enum", "c05.oracle"], ("\n".join(lines) + "\n").encode())
    smax = mmax = 0
    for l in out:
        f = l.split()
        v = int(f[3])
        if f[0] == "term":
            smax = max(smax, v)
            if v > 12500:
                s_fail.append(("c05.oracle", "term %s %s: independent solar longitude differs by %d micro-degrees" % (f[1], f[2], v), "at most 12500 (accuracy of the low-precision theory: 0.01 deg)"))
        else:
            mmax = max(mmax, v)
            if v > 120:
                s_fail.append(("c05.oracle", "lunation %s %s: independent new-moon time differs by %d s" % (f[1], f[2], v), "at most 120 s"))
    ev["oracle_1900_2150"] = {"terms": len([l for l in out if l.startswith("term")]), "max_sun_dlon_microdeg": smax,
                              "lunations": len([l for l in out if l.startswith("moon")]), "max_moon_dt_s": mmax}
    # (iii) inverse-solver residuals (nano-radians) over +-10,000 years
    step = "97" if tier == "quick" else "7"
    res = [l.split() for l in stream(TYMEH, ["enum", "c05.resid", step])]
    sun_max = max(int(r[2]) for r in res if r[0] == "sun")
    moon_in = [int(r[2]) for r in res if r[0] == "moon" and -56000 <= int(r[1]) <= 51700]
    moon_out = [(int(r[1]), int(r[2])) for r in res if r[0] == "moon" and not (-56000 <= int(r[1]) <= 51700)]
    if sun_max > ARCSEC_NRAD:
        s_fail.append(("c05.resid", "sun residual %d nrad" % sun_max, "sub-arcsecond (<= %d nrad)" % ARCSEC_NRAD))
    if max(moon_in) > ARCSEC_NRAD:
        s_fail.append(("c05.resid", "moon residual %d nrad inside lunations -56000..51700" % max(moon_in), "sub-arcsecond (<= %d nrad)" % ARCSEC_NRAD))
    far = [(k, v) for k, v in moon_out if v > ARCSEC_NRAD]
    if far:
        s_fail.append(("c05.resid", "moon-far", "moon-far"))   # matched by the known finding below
        if max(v for k, v in far) > 300000:
            s_fail.append(("c05.resid", "moon residual %d nrad" % max(v for k, v in far), "<= 300000 nrad even at +-10,000 years"))
    ev["residuals_nrad"] = {"grid_step": int(step), "sun_max": sun_max, "moon_max_lunations_-56000_51700": max(moon_in),
                            "moon_max_overall": max(v for k, v in moon_out) if moon_out else 0, "moon_points_over_1_arcsec_outside_window": len(far)}
    # (iv) dt_calc on a grid: f64 implementation vs exact rational model (micro-seconds)
    n = "10000" if tier == "quick" else "1000000"
    H = stream(TYMEH, ["enum", "c05.dt", n])
    M = stream(TYMED, ["enum", "c05.dt", n])
    dmax = 0
    for h, m in zip(H, M):
        hy, hv = h.split()
        my, mv = m.split()
        d = abs(int(hv) - int(mv))
        dmax = max(dmax, d)
        if hy != my or d > 2:
            k_fail.append(("c05.dt", 0, h, m))
            break
    ev["dt_grid"] = {"cases": len(H), "max_abs_diff_microseconds": dmax}
    ev["cases"] = len(rows) + nt + len(out) + len(res) + len(H)
    ev_cov["supporting_non_proof"] = ev
    print("[C05] (i) %d lunations 1961..8000 / %d terms checked (beyond 8000: %d lunations differ, outside the claim); (ii) oracle: sun max %d udeg, moon max %d s; "
          "(iii) residuals nrad: sun %d, moon %d in window; (iv) dt grid %d points, max |f64 - exact| %d us"
          % (ev["lunations_1961_8000"], nt, len(beyond), smax, mmax, sun_max, max(moon_in), len(H), dmax), flush=True)


PROP = {
    "id": "C05",
    "level": "other",
    "explanation": "Proof (Lean kernel) for clause (i) calendar-making day = civil day of the precise instant/conjunction on all 192,938 terms of 1961+ and all "
                   "74,704 lunations of 1961..8000 (complete enumeration of re-extracted data), and for clause (iv) TT-UT continuity (exact rational model over the "
                   "table lifted from the source text: 22 join jumps <= 5 s, blend ends exact, yearly change <= 51 s over -4000..10000 and <= 2.4 s over "
                   "1700..2200). Clauses (ii) agreement with an independent low-precision theory and (iii) inverse-solver residuals are real-analysis statements "
                   "about f64 series that no Lean model of feasible size can carry: they are checked by an executable oracle (Meeus ch.25 Sun / ch.49 new moon in "
                   "the driver, residuals in the harness) and reported under coverage.supporting_non_proof, not counted as obligations.",
    "thm_module": "Tyme.Thm.C05",
    "thm_file": "Tyme/Thm/C05.lean",
    "lean_targets": ["Tyme.Thm.C05"],
    "audit_files": ["Tyme/Model/DeltaT.lean", "Tyme/Facts/Preds.lean", "Tyme/Facts/MonthsFact.lean", "Tyme/Facts/TermsFact.lean", "Tyme/Facts/Terms.lean"],
    "gen": [gen_eph, gen_c05],
    "streams": [],
    "extra_checks": [c05_oracle],
    "exhaustive": False,
}
