"""C12 configuration: clock arithmetic to the second, Julian date <-> instant."""
import math
import subprocess
from fractions import Fraction

from props_common import *
from checklib import TYMEH, TYMED, ENV


# ---------- helpers (input generation only; nothing here decides a verdict) ----------

def jdn(y, m, d):
    """noon-based day number (Meeus), used only to place inputs near interesting instants"""
    g = y * 372 + m * 31 + d >= 588829
    if m <= 2:
        y -= 1
        m += 12
    n = 0
    if g:
        a = y // 100
        n = 2 - a + a // 4
    return (1461 * (y + 4716)) // 4 + (306001 * (m + 1)) // 10000 + d + n - 1524


def f2nk(x):
    """exact value of a float as (num, k): x = num / 2**k, k >= 0"""
    fr = Fraction(x)
    k = fr.denominator.bit_length() - 1
    assert fr.denominator == 1 << k
    return fr.numerator, k


def jd_exact(y, m, d, sod2):
    """exact Julian date (Fraction) of date + sod2 half-seconds"""
    return Fraction(2 * jdn(y, m, d) - 1, 2) + Fraction(sod2, 172800)


def ulps(c, w):
    """the 2w+1 floats around c"""
    out = [c]
    a = b = c
    for _ in range(w):
        a = math.nextafter(a, -math.inf)
        b = math.nextafter(b, math.inf)
        out.append(a)
        out.append(b)
    return out


def month_last(y, m):
    if m == 2:
        leap = (y % 4 == 0) if y <= 1582 else (y % 4 == 0 and (y % 100 != 0 or y % 400 == 0))
        return 29 if leap else 28
    return 30 if m in (4, 6, 9, 11) else 31


SPECIAL_YEARS = [1, 2, 4, 100, 400, 1029, 1500, 1581, 1582, 1583, 1600, 1700, 1900, 2000, 2023, 2024, 2100, 6771, 9998, 9999]


def boundary_dates(rng, n_years):
    """month ends, year ends, leap days, the 1582 cut-over, the two binade-crossing days, range edges"""
    D = [(1582, 10, 4), (1582, 10, 15), (1, 1, 1), (9999, 12, 31), (1029, 9, 8), (1029, 9, 9), (6771, 7, 6), (6771, 7, 7)]
    years = SPECIAL_YEARS + [rng.randint(1, 9999) for _ in range(n_years)]
    for y in years:
        for m in range(1, 13):
            D.append((y, m, month_last(y, m)))
            D.append((y, m, 1))
    return D


def rand_time(rng):
    y, m, d = rand_date(rng)
    k = rng.random()
    if k < 0.25:
        h, mi, s = rng.choice([(23, 59, 59), (0, 0, 0), (23, 59, 58), (0, 0, 1), (12, 0, 0), (11, 59, 59)])
    elif k < 0.45:
        h, mi, s = rng.randint(0, 23), rng.choice([0, 59]), rng.choice([0, 59])
    else:
        h, mi, s = rng.randint(0, 23), rng.randint(0, 59), rng.randint(0, 59)
    return y, m, d, h, mi, s


OFFS = [0, 1, -1, 2, -2, 59, -59, 60, -60, 61, -61, 119, -119, 120, -120, 3599, -3599, 3600, -3600, 3601, -3601,
        7200, -7200, 86399, -86399, 86400, -86400, 86401, -86401, 172800, -172800, 863999, -864000, 2678400, -2678400,
        31536000, -31536000, 31622400, -31622400, 10 ** 9, -10 ** 9, 10 ** 9 - 1, -(10 ** 9 - 1), 999999999 - 86400]


def rand_off(rng):
    k = rng.random()
    if k < 0.35:
        return rng.choice(OFFS)
    if k < 0.55:
        return rng.randint(-200000, 200000)
    if k < 0.7:
        return rng.choice([60, 3600, 86400]) * rng.randint(-20000, 20000) + rng.choice([-1, 0, 1])
    if k < 0.75:
        return rng.randint(-400, 400)
    return rng.randint(-10 ** 9, 10 ** 9)


def term_jds(y0, y1, step):
    p = subprocess.run([TYMEH, "enum", "c12.termjd", str(y0), str(y1), str(step)], stdout=subprocess.PIPE, env=ENV, check=True)
    return [l for l in p.stdout.decode().split("\n") if l.strip()]


def c12_ops(rng, tier):
    quick = tier == "quick"
    L = []
    T = lambda t: "%d %d %d %d %d %d" % t
    # ---- next
    for _ in range(12000 if quick else 500000):
        L.append("time.next %s %d" % (T(rand_time(rng)), rand_off(rng)))
    # range edges: targets just inside / outside 0001..9999
    for t, n in [((1, 1, 1, 0, 0, 0), -1), ((1, 1, 1, 0, 0, 0), 0), ((1, 1, 1, 0, 0, 1), -1), ((1, 1, 1, 0, 0, 1), -2),
                 ((9999, 12, 31, 23, 59, 59), 1), ((9999, 12, 31, 23, 59, 59), 0), ((9999, 12, 31, 23, 59, 58), 1),
                 ((9999, 12, 31, 23, 59, 58), 2), ((1, 1, 12, 13, 46, 40), -10 ** 6), ((1, 1, 12, 13, 46, 40), -10 ** 6 - 1),
                 ((9999, 12, 20, 10, 13, 20), 10 ** 6 - 1), ((9999, 12, 20, 10, 13, 20), 10 ** 6)]:
        L.append("time.next %s %d" % (T(t), n))
    # ---- subtract / before / after
    for _ in range(6000 if quick else 250000):
        a = rand_time(rng)
        k = rng.random()
        if k < 0.15:
            b = a
        elif k < 0.3:
            b = a[:5] + (rng.randint(0, 59),)
        elif k < 0.45:
            b = a[:4] + (rng.randint(0, 59), rng.randint(0, 59))
        elif k < 0.6:
            b = a[:3] + (rng.randint(0, 23), rng.randint(0, 59), rng.randint(0, 59))
        elif k < 0.7:
            dd = rng.randint(1, month_last(a[0], a[1]))
            if a[0] == 1582 and a[1] == 10 and 4 < dd < 15:
                dd = rng.choice([4, 15])
            b = (a[0], a[1], dd, rng.randint(0, 23), rng.randint(0, 59), rng.randint(0, 59))
        elif k < 0.8:
            b = rand_date(rng, a[0], a[0]) + (rng.randint(0, 23), rng.randint(0, 59), rng.randint(0, 59))
        else:
            b = rand_time(rng)
        op = rng.choice(["time.sub", "time.sub", "time.before", "time.after"])
        L.append("%s %s %s" % (op, T(a), T(b)))
    # ---- order of ADJACENT instants across every unit boundary (second -> minute -> hour -> day -> month -> year), both ways
    for _ in range(800 if quick else 20000):
        y, m, d, h, mi, s = rand_time(rng)
        last = month_last(y, m)
        pairs = [((y, m, d, h, mi, 58), (y, m, d, h, mi, 59))]
        if mi < 59:
            pairs.append(((y, m, d, h, mi, 59), (y, m, d, h, mi + 1, 0)))
        if h < 23:
            pairs.append(((y, m, d, h, 59, 59), (y, m, d, h + 1, 0, 0)))
        if d < last and not (y == 1582 and m == 10 and d == 4):
            pairs.append(((y, m, d, 23, 59, 59), (y, m, d + 1, 0, 0, 0)))
        if m < 12:
            pairs.append(((y, m, last, 23, 59, 59), (y, m + 1, 1, 0, 0, 0)))
        if y < 9999:
            pairs.append(((y, 12, 31, 23, 59, 59), (y + 1, 1, 1, 0, 0, 0)))
        a, b = rng.choice(pairs)
        for op in ("time.before", "time.after", "time.sub"):
            L.append("%s %s %s" % (op, T(a), T(b)))
            L.append("%s %s %s" % (op, T(b), T(a)))
    L.append("time.before 1582 10 4 23 59 59 1582 10 15 0 0 0")
    L.append("time.after 1582 10 15 0 0 0 1582 10 4 23 59 59")
    # ---- new (acceptance)
    for _ in range(1500 if quick else 40000):
        y, m, d, h, mi, s = rand_time(rng)
        k = rng.random()
        if k < 0.3:
            h = rng.choice([-1, 0, 23, 24, 25])
        elif k < 0.5:
            mi = rng.choice([-1, 0, 59, 60, 61])
        elif k < 0.7:
            s = rng.choice([-1, 0, 59, 60, 61])
        elif k < 0.85:
            d = rng.choice([0, 28, 29, 30, 31, 32, 5, 14, 15])
        else:
            y = rng.choice([0, -1, 1, 9999, 10000])
        L.append("time.new %d %d %d %d %d %d" % (y, m, d, h, mi, s))
    # ---- instant -> JD -> instant
    for _ in range(3000 if quick else 100000):
        L.append("time.jd %s" % T(rand_time(rng)))
    # ---- JD grid around every rounding / carry boundary
    w = 6 if quick else 24
    dates = boundary_dates(rng, 6 if quick else 120)
    seen = set()

    def grid(center, width):
        for x in ulps(float(center), width):
            n, k = f2nk(x)
            if (n, k) not in seen:
                seen.add((n, k))
                L.append("jd.time %d %d" % (n, k))

    for (y, m, d) in dates:
        hh = rng.randint(0, 22)
        mm = rng.randint(0, 58)
        ss = rng.randint(0, 58)
        halves = [2 * 86399 + 1,                              # 23:59:59.5  (day carry)
                  2 * (hh * 3600 + 3599) + 1,                 # hh:59:59.5  (hour carry)
                  2 * (hh * 3600 + mm * 60 + 59) + 1,         # hh:mm:59.5  (minute carry)
                  2 * (hh * 3600 + mm * 60 + ss) + 1,         # hh:mm:ss.5  (plain rounding)
                  2 * 86400, 0,                               # midnight at both ends (f = 0 / f -> 1)
                  2 * 43200,                                  # noon (JD integer)
                  2 * (hh * 3600), 2 * (hh * 3600 + mm * 60)] # exact hour / minute (truncations)
        for s2 in halves:
            grid(jd_exact(y, m, d, s2), w)
    # exact ties: JD fraction j/256 (odd j) is an f64 whose second is exactly xx.5 -> must round half AWAY from zero (up)
    for (y, m, d) in dates[:8] + [dates[i] for i in range(8, len(dates), 7 if quick else 2)]:
        for j in range(1, 512, 2):
            x = float(Fraction(2 * jdn(y, m, d) - 1, 2) + Fraction(j, 512))
            n, k = f2nk(x)
            if (n, k) not in seen:
                seen.add((n, k))
                L.append("jd.time %d %d" % (n, k))
    # range edges and far outside
    for c in [Fraction(3442847, 2), Fraction(3442847, 2) - Fraction(1, 172800), Fraction(2 * 5373484 + 1, 2), Fraction(2 * 5373484 + 1, 2) - Fraction(1, 172800)]:
        grid(c, 4 * w)
    L.append("jd.time 0 0")
    for c in [1.0, -1.5, 0.5, 511.9, 1e5, 1721423.0, 1721422.5, 5373485.0, 5373484.5, 8388608.0, 1e7, 1e12, -2e6, 2097152.0, 4194304.0, 2097151.5, 4194303.5]:
        grid(c, 2)
    # the two windows where `day + 0.5` used to round (every odd mantissa there was at risk)
    for base, step in ((2097151.5, 2.0 ** -32), (4194303.5, 2.0 ** -31)):
        for _ in range(1500 if quick else 60000):
            sod2 = 2 * rng.randint(0, 43199) + 1
            c = base + float(Fraction(sod2, 172800))
            for x in ulps(c, 2):
                n, k = f2nk(x)
                if (n, k) not in seen:
                    seen.add((n, k))
                    L.append("jd.time %d %d" % (n, k))
    # random Julian dates in and around the range
    for _ in range(4000 if quick else 200000):
        x = rng.choice([rng.uniform(1721423.5, 5373484.5), rng.uniform(1721423.5, 5373484.5), rng.uniform(2299150, 2299170), rng.uniform(1.7e6, 5.4e6)])
        n, k = f2nk(x)
        L.append("jd.time %d %d" % (n, k))
    # real solar-term instants, bit-exact
    tj = term_jds(1, 9999, 97 if quick else 5)
    for l in tj:
        L.append("jd.time " + l)
    return L


def c12_extra(tier, seed, tmp, broken, k_fail, s_fail, ev_cov):
    """(a) measured |f64 JD − exact JD| of from_ymd_hms must stay below the 1e-7 day of C12_roundtrip_robust;
    (b) the memoised spec ordinal used by the sweep equals Civil.ord / Civil.ofOrd."""
    cnt = 300000 if tier == "quick" else 5000000
    p = subprocess.run([TYMEH, "enum", "c12.jderr", str(cnt), str(seed)], stdout=subprocess.PIPE, stderr=subprocess.PIPE, env=ENV)
    if p.returncode != 0:
        broken.append({"tie": "harness stream c12.jderr failed", "stderr": p.stderr.decode()[-500:]})
    else:
        f = p.stdout.decode().split()
        total, num, lg = int(f[0]), int(f[1]), int(f[2])
        err_days = Fraction(num, 86400 * (1 << lg))
        ev_cov["jd_f64_error"] = {"instants": total, "max_abs_error_days": float(err_days), "max_abs_error_seconds": float(err_days * 86400),
                                  "at": " ".join(f[3:9]), "bound_of_C12_roundtrip_robust_days": 1e-7,
                                  "margin_factor": float(Fraction(1, 10 ** 7) / err_days) if err_days else None}
        if err_days > Fraction(1, 10 ** 7):
            s_fail.append(("c12.jderr", "time.jd %s => error %s day" % (" ".join(f[3:9]), float(err_days)), "error <= 1e-7 day"))
    # (c) informational, never fatal: the soft-float model F64.toJD against the f64 Julian date of get_julian_day(), bit for bit.
    # No theorem rests on it (C12_roundtrip_robust + the bound measured in (a) carry the claim), so a harmless numerical
    # rewrite of from_ymd_hms that moves the result by an ulp is reported here and does not fail the check.
    import random
    rng = random.Random(seed * 7919 + 12)
    ops = ["time.jdbits %d %d %d %d %d %d" % rand_time(rng) for _ in range(20000 if tier == "quick" else 300000)]
    inp = ("\n".join(ops) + "\n").encode()
    ph = subprocess.run([TYMEH, "exec"], input=inp, stdout=subprocess.PIPE, stderr=subprocess.PIPE, env=ENV)
    pm = subprocess.run([TYMED, "exec"], input=inp, stdout=subprocess.PIPE, stderr=subprocess.PIPE, env=ENV)
    H = ph.stdout.decode().split("\n")
    Mo = pm.stdout.decode().split("\n")
    mism = [(ops[i], H[i], Mo[i]) for i in range(len(ops)) if i >= len(H) or i >= len(Mo) or H[i] != Mo[i]]
    ev_cov["f64_bit_exact_model"] = {"cases": len(ops), "mismatches": len(mism), "first_mismatch": list(mism[0]) if mism else None,
                                     "fatal": False, "sample": "%s => %s" % (ops[0], H[0] if H else "?")}
    p = subprocess.run([TYMED, "enum", "c12.memo"], stdout=subprocess.PIPE, stderr=subprocess.PIPE, env=ENV)
    out = p.stdout.decode().strip()
    ev_cov["spec_memo_selftest"] = out
    if p.returncode != 0 or " bad 0 " not in out:
        broken.append({"sweep": "memoised spec ordinal differs from Civil.ord/ofOrd", "out": out})


PROP = {
    "id": "C12",
    "thm_module": "Tyme.Thm.C12",
    "thm_file": "Tyme/Thm/C12.lean",
    "lean_targets": ["Tyme.Thm.C12"],
    "audit_files": ["Tyme/Lemmas/Clock.lean", "Tyme/Model/Clock.lean", "Tyme/Model/ClockF64.lean", "Tyme/Spec/Clock.lean", "Tyme/Lemmas/Jd.lean", "Tyme/Model/Jd.lean",
                    "Tyme/Spec/Civil.lean", "Tyme/Thm/C01.lean"],
    "streams": [
        # every second of 8 (quick) / 40 (thorough) boundary dates: JD round trip + error flag, next(1), next(-1)
        {"name": "c12.secs", "args_quick": ["8"], "args_thorough": ["40"]},
    ],
    "ops": with_extra(c12_ops, eq_kinds=(4, 12)),
    "extra_checks": [c12_extra],
    "exhaustive": False,
    "rule": "stream c12.secs: all 86400 seconds of each listed boundary date (month/year ends, 1582-10-04/15, leap days, range edges, the two "
            "binade-crossing days): instant -> f64 Julian date -> instant, |f64 − exact| <= 1e-7 day flag, next(+1), next(−1); compared byte-for-byte "
            "model-vs-implementation (K) and spec-vs-implementation (S). ops (seeded + boundary + corpus): time.next with offsets up to ±1e9 incl. "
            "range edges; time.sub/before/after on equal / same-minute / same-hour / same-day / same-month / random pairs; time.new acceptance; "
            "time.jd round trips; jd.time on the exact value of f64 Julian dates: ±w ulp (f64-adjacent values, 2^-32..2^-30 day apart) around "
            "23:59:59.5, hh:59:59.5, hh:mm:59.5, hh:mm:ss.5, midnight, noon, exact hours/minutes of every month end/start of ~26..140 years, "
            "1582-10-04/15, leap days, range edges, the windows [2^21−½,2^21) and [2^22−½,2^22), random dates, and real solar-term instants "
            "(bit-exact). distinct_nontrivial counts stream lines + distinct op lines.",
    "trusted_base": TRUSTED_BASE + [
        "jd.time passes an f64 to the model as its exact value num/2^k (harness `encode`/`decode`, checked for exactness on every call)",
        "f64 arithmetic of the REPAIRED get_solar_time is exact for |JD| >= 512 (floor, subtraction of the floor, +0.5 on a fraction, ×24, ×60, ×60 "
        "on multiples of 2^-32 below 1): argued in lean/Tyme/Model/Clock.lean and validated by K on f64-adjacent grids",
        "from_ymd_hms (time -> JD) is f64 with inexact /60 /24: the theorems cover it through C12_roundtrip_robust (any JD within 1e-7 day of the "
        "exact one maps back) + the measured maximum error reported under coverage.jd_f64_error (checked <= 1e-7 day on every run); in addition a "
        "soft-float model (lean/Tyme/Model/ClockF64.lean) reproduces the f64 result bit for bit (op time.jdbits, reported under coverage.f64_bit_exact_model, informational) — no theorem rests on it",
    ],
    "assumptions": ASSUMPTIONS + [
        "the model describes /repo WITH fixes/C12-jd-carry.diff and fixes/C12-jd-half.diff applied (both are genuine defects of the snapshot)",
    ],
}
