"""C04 configuration: no-major-term rule."""
import os
import sys
from props_common import *

sys.path.insert(0, os.path.join(os.path.dirname(os.path.abspath(__file__)), "tools"))
from gen_eph import gen_eph

PROP = {
    "id": "C04",
    "thm_module": "Tyme.Thm.C04",
    "thm_file": "Tyme/Thm/C04.lean",
    "lean_targets": ["Tyme.Thm.C04"],
    "audit_files": ["Tyme/Facts/Preds.lean", "Tyme/Facts/MonthsFact.lean", "Tyme/Model/Eph.lean", "Tyme/Model/RealEph.lean", "Tyme/Basic/Packed.lean"],
    "gen": [gen_eph],
    "streams": [
        # table numbering of each solstice year through the API (harness) vs the numbering the rule prescribes (driver, spec only)
        {"name": "c04.years", "model": False},
        # the same lines computed after a battery of unusual calls about each year (history must not matter)
        {"name": "c04.years.hist", "model": False},
    ],
    "exhaustive": True,
    "rule": "c04.years: for every solstice year 27..9999 (238..240 excluded by the property) the signed month numbers of the lunations from the "
            "winter-solstice month to the next, read through LunarMonth::next / get_month_with_leap, compared with the numbering the no-major-term "
            "rule prescribes from new-moon days and calendar-making zhongqi days alone; the same claim is the kernel-checked theorem C04_rule_fact.",
}
