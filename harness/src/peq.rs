// Equality glue: the library's own `==` / `!=` on every value type, asked about two values built from numbers.
// The library compares most types through getters or through Display; a slip there (a field left out, a helper that
// drops the leap flag, self compared with self) leaves every conversion right and still makes two different dates,
// months, instants or eight characters "the same" for every caller that uses `==`.
//   eq.v kind A.. B..   -> "<a == b> <a != b>"   (1/0; kind selects the type, both halves have the same arity)
//   eq.cyc t i j        -> the same for LoopTyme type number t (table of p11) built from_index(i) / from_index(j)
// The model's answer is equality of the identifying numbers (cyclic types: modulo the size).
use std::io::Write;
use tyme4rs::tyme::eightchar::{ChildLimit, DecadeFortune, EightChar, Fortune, verif_set_child_limit_provider};
use tyme4rs::tyme::enums::Gender;
use tyme4rs::tyme::jd::JulianDay;
use tyme4rs::tyme::lunar::{LunarDay, LunarHour, LunarMonth, LunarWeek, LunarYear};
use tyme4rs::tyme::sixtycycle::{SixtyCycle, SixtyCycleYear};
use tyme4rs::tyme::solar::{SolarDay, SolarHalfYear, SolarMonth, SolarSeason, SolarTime, SolarWeek, SolarYear};
use tyme4rs::tyme::festival::{LunarFestival, SolarFestival};
use tyme4rs::tyme::culture::fetus::FetusDay;
use tyme4rs::tyme::Culture;
use crate::util::*;

const OPS: &[&str] = &["eq.v", "eq.cyc", "lhour.cmp", "ec.names", "fetus.wire"];

pub fn exec(op: &str, a: &[i64]) -> Option<Option<String>> {
  if !OPS.contains(&op) { return None; }
  let r = std::panic::catch_unwind(std::panic::AssertUnwindSafe(|| go(op, a)));
  verif_set_child_limit_provider(0);
  match r { Ok(x) => Some(x), Err(_) => Some(None) }
}

fn b2(e: bool, n: bool) -> Option<String> { Some(format!("{} {}", e as u8, n as u8)) }

macro_rules! cmp {
  ($x:expr, $y:expr) => {{ let (x, y) = ($x, $y); b2(x == y, x != y) }};
}

fn limit(a: &[i64]) -> Option<ChildLimit> {
  let t = SolarTime::new(a[0] as isize, us(a[1])?, us(a[2])?, us(a[3])?, us(a[4])?, us(a[5])?).ok()?;
  let g = match a[6] { 0 => Gender::WOMAN, 1 => Gender::MAN, _ => return None };
  Some(ChildLimit::from_solar_time(t, g))
}

/// arity of one value of the kind
pub fn arity(kind: i64) -> Option<usize> {
  Some(match kind { 1 => 3, 2 => 2, 3 => 1, 4 => 6, 5 => 4, 6 => 1, 7 => 2, 8 => 3, 9 => 6, 10 => 4, 11 => 4, 12 => 6, 13 => 1, 14 => 7, 15 => 8, 16 => 8, 17 => 2, 18 => 2, 19 => 2, 20 => 2, _ => return None })
}

pub fn go(op: &str, a: &[i64]) -> Option<String> {
  match op {
    "eq.cyc" if a.len() == 3 => {
      let cs = crate::p11::cycs();
      let c = cs.get(us(a[0])?)?;
      let (e, n) = (c.eq)(a[1] as isize, a[2] as isize);
      b2(e, n)
    }
    "eq.v" if !a.is_empty() => {
      let n = arity(a[0])?;
      if a.len() != 1 + 2 * n { return None; }
      let (x, y) = (&a[1..1 + n], &a[1 + n..]);
      match a[0] {
        1 => cmp!(SolarDay::new(x[0] as isize, us(x[1])?, us(x[2])?).ok()?, SolarDay::new(y[0] as isize, us(y[1])?, us(y[2])?).ok()?),
        2 => cmp!(SolarMonth::new(x[0] as isize, us(x[1])?).ok()?, SolarMonth::new(y[0] as isize, us(y[1])?).ok()?),
        3 => cmp!(SolarYear::new(x[0] as isize).ok()?, SolarYear::new(y[0] as isize).ok()?),
        4 => cmp!(SolarTime::new(x[0] as isize, us(x[1])?, us(x[2])?, us(x[3])?, us(x[4])?, us(x[5])?).ok()?,
                  SolarTime::new(y[0] as isize, us(y[1])?, us(y[2])?, us(y[3])?, us(y[4])?, us(y[5])?).ok()?),
        5 => cmp!(SolarWeek::new(x[0] as isize, us(x[1])?, us(x[2])?, us(x[3])?).ok()?, SolarWeek::new(y[0] as isize, us(y[1])?, us(y[2])?, us(y[3])?).ok()?),
        6 => cmp!(LunarYear::new(x[0] as isize).ok()?, LunarYear::new(y[0] as isize).ok()?),
        7 => cmp!(LunarMonth::new(x[0] as isize, x[1] as isize).ok()?, LunarMonth::new(y[0] as isize, y[1] as isize).ok()?),
        8 => cmp!(LunarDay::new(x[0] as isize, x[1] as isize, us(x[2])?).ok()?, LunarDay::new(y[0] as isize, y[1] as isize, us(y[2])?).ok()?),
        9 => cmp!(LunarHour::new(x[0] as isize, x[1] as isize, us(x[2])?, us(x[3])?, us(x[4])?, us(x[5])?).ok()?,
                  LunarHour::new(y[0] as isize, y[1] as isize, us(y[2])?, us(y[3])?, us(y[4])?, us(y[5])?).ok()?),
        10 => cmp!(LunarWeek::new(x[0] as isize, x[1] as isize, us(x[2])?, us(x[3])?).ok()?, LunarWeek::new(y[0] as isize, y[1] as isize, us(y[2])?, us(y[3])?).ok()?),
        11 => {
          let sc = |i: i64| SixtyCycle::from_index(i as isize);
          cmp!(EightChar::from_sixty_cycle(sc(x[0]), sc(x[1]), sc(x[2]), sc(x[3])), EightChar::from_sixty_cycle(sc(y[0]), sc(y[1]), sc(y[2]), sc(y[3])))
        }
        12 => {
          // only through a valid civil instant (the constructor itself accepts anything)
          SolarTime::new(x[0] as isize, us(x[1])?, us(x[2])?, us(x[3])?, us(x[4])?, us(x[5])?).ok()?;
          SolarTime::new(y[0] as isize, us(y[1])?, us(y[2])?, us(y[3])?, us(y[4])?, us(y[5])?).ok()?;
          cmp!(JulianDay::from_ymd_hms(x[0] as isize, us(x[1])?, us(x[2])?, us(x[3])?, us(x[4])?, us(x[5])?),
               JulianDay::from_ymd_hms(y[0] as isize, us(y[1])?, us(y[2])?, us(y[3])?, us(y[4])?, us(y[5])?))
        }
        13 => cmp!(SixtyCycleYear::new(x[0] as isize).ok()?, SixtyCycleYear::new(y[0] as isize).ok()?),
        14 => cmp!(limit(x)?, limit(y)?),
        15 => cmp!(Fortune::from_child_limit(limit(&x[..7])?, x[7] as isize), Fortune::from_child_limit(limit(&y[..7])?, y[7] as isize)),
        16 => cmp!(DecadeFortune::from_child_limit(limit(&x[..7])?, x[7] as isize), DecadeFortune::from_child_limit(limit(&y[..7])?, y[7] as isize)),
        17 => cmp!(SolarHalfYear::new(x[0] as isize, us(x[1])?).ok()?, SolarHalfYear::new(y[0] as isize, us(y[1])?).ok()?),
        18 => cmp!(SolarSeason::new(x[0] as isize, us(x[1])?).ok()?, SolarSeason::new(y[0] as isize, us(y[1])?).ok()?),
        19 => cmp!(SolarFestival::from_index(x[0] as isize, us(x[1])?)?, SolarFestival::from_index(y[0] as isize, us(y[1])?)?),
        20 => cmp!(LunarFestival::from_index(x[0] as isize, us(x[1])?)?, LunarFestival::from_index(y[0] as isize, us(y[1])?)?),
        _ => None,
      }
    }
    // two civil instants -> their lunar hours: is_before, is_after, == (the order of lunar hours is the order of the instants)
    "lhour.cmp" if a.len() == 12 => {
      let t = |v: &[i64]| -> Option<LunarHour> { Some(SolarTime::new(v[0] as isize, us(v[1])?, us(v[2])?, us(v[3])?, us(v[4])?, us(v[5])?).ok()?.get_lunar_hour()) };
      let (x, y) = (t(&a[..6])?, t(&a[6..])?);
      Some(format!("{} {} {}", x.is_before(y.clone()) as u8, x.is_after(y.clone()) as u8, (x == y) as u8))
    }
    // eight characters built FROM THE NAMES of four pillars: the pillars read back
    "ec.names" if a.len() == 4 => {
      let n = |i: i64| SixtyCycle::from_index(i as isize).get_name();
      let e = EightChar::new(&n(a[0]), &n(a[1]), &n(a[2]), &n(a[3]));
      Some(format!("{} {} {} {}", e.get_year().get_index(), e.get_month().get_index(), e.get_day().get_index(), e.get_hour().get_index()))
    }
    // the foetus spirit of a civil day through the lunar day and through the sexagenary day: both must be the spirit of the day's pillar
    "fetus.wire" if a.len() == 3 => {
      let d = SolarDay::new(a[0] as isize, us(a[1])?, us(a[2])?).ok()?;
      let l = d.get_lunar_day();
      let q = |f: &FetusDay| format!("{}/{}/{}/{}", f.get_fetus_heaven_stem().get_index(), f.get_fetus_earth_branch().get_index(), f.get_side() as usize, f.get_direction().get_index());
      let f0 = q(&FetusDay::new(l.get_sixty_cycle()));
      let f1 = q(&l.get_fetus_day());
      let f2 = q(&d.get_sixty_cycle_day().get_fetus_day());
      if f0 == f1 && f0 == f2 { Some("ok".to_string()) } else { Some(format!("DIFF pillar={} lunar-day={} sexagenary-day={}", f0, f1, f2)) }
    }
    _ => Some("bad-op".to_string()),
  }
}

pub fn run_enum(_name: &str, _args: &[String], _w: &mut dyn Write) -> bool { false }
