// C13: containers list exactly their parts (list-returning accessors of solar.rs, lunar.rs, sixtycycle.rs)
use std::io::Write;
use tyme4rs::tyme::lunar::{LunarDay, LunarHour, LunarMonth, LunarYear};
use tyme4rs::tyme::sixtycycle::{SixtyCycleDay, SixtyCycleHour, SixtyCycleMonth, SixtyCycleYear};
use tyme4rs::tyme::solar::{SolarDay, SolarHalfYear, SolarMonth, SolarSeason, SolarYear};
use crate::util::*;

const OPS: &[&str] = &["sy.months", "sy.seasons", "sy.halves", "sh.months", "sh.seasons", "ss.months", "sm.season", "sm.days",
  "ly.months", "lm.days", "ld.hours", "scd.hours", "scd.hourp", "scm.days", "scy.months"];

pub fn exec(op: &str, a: &[i64]) -> Option<Option<String>> {
  if OPS.contains(&op) { Some(go(op, a)) } else { None }
}

fn months_s(l: &[SolarMonth]) -> String {
  let mut s = format!("{}", l.len());
  for m in l { s.push_str(&format!(" {} {}", m.get_year(), m.get_month())); }
  s
}
fn seasons_s(l: &[SolarSeason]) -> String {
  let mut s = format!("{}", l.len());
  for m in l { s.push_str(&format!(" {} {}", m.get_year(), m.get_index())); }
  s
}
fn halves_s(l: &[SolarHalfYear]) -> String {
  let mut s = format!("{}", l.len());
  for m in l { s.push_str(&format!(" {} {}", m.get_year(), m.get_index())); }
  s
}
/// a civil day inside a month line: `d:idx` when its year/month are the container's, else `y.m.d:idx`
fn day_tok(y: i64, m: i64, d: &SolarDay) -> String {
  if d.get_year() as i64 == y && d.get_month() as i64 == m { format!("{}:{}", d.get_day(), d.get_index_in_year()) }
  else { format!("{}.{}.{}:{}", d.get_year(), d.get_month(), d.get_day(), d.get_index_in_year()) }
}
fn lday_tok(y: i64, m: i64, d: &LunarDay) -> String {
  if d.get_year() as i64 == y && d.get_month() as i64 == m { format!("{}", d.get_day()) }
  else { format!("{}.{}.{}", d.get_year(), d.get_month(), d.get_day()) }
}
fn lhours_s(l: &[LunarHour]) -> String {
  let mut s = format!("{}", l.len());
  for h in l { s.push_str(&format!(" | {} {} {} {} {} {} {}", h.get_year(), h.get_month(), h.get_day(), h.get_hour(), h.get_minute(), h.get_second(), h.get_index_in_day())); }
  s
}
/// the slots of a sexagenary day: instant, year pillar, month pillar, index in day
fn schours_s(l: &[SixtyCycleHour]) -> String {
  let mut s = format!("{}", l.len());
  for h in l {
    let t = h.get_solar_time();
    s.push_str(&format!(" | {} {} {} {} {} {} {} {} {}", t.get_year(), t.get_month(), t.get_day(), t.get_hour(), t.get_minute(), t.get_second(),
      h.get_year().get_index(), h.get_month().get_index(), h.get_index_in_day()));
  }
  s
}
/// day pillar and hour pillar of each slot (C07/C09 matter; compared with the model only)
fn schourp_s(l: &[SixtyCycleHour]) -> String {
  let mut s = format!("{}", l.len());
  for h in l { s.push_str(&format!(" | {} {}", h.get_day().get_index(), h.get_sixty_cycle().get_index())); }
  s
}
fn scm_id(m: &SixtyCycleMonth) -> String {
  format!("{} {} {}", m.get_sixty_cycle_year().get_year(), m.get_sixty_cycle().get_index(), m.get_index_in_year())
}
fn scdays_s(l: &[SixtyCycleDay]) -> String {
  let mut s = format!("{}", l.len());
  for d in l { let x = d.get_solar_day(); s.push_str(&format!(" {}.{}.{}", x.get_year(), x.get_month(), x.get_day())); }
  s
}

pub fn go(op: &str, a: &[i64]) -> Option<String> {
  match (op, a.len()) {
    ("sy.months", 1) => Some(months_s(&SolarYear::new(a[0] as isize).ok()?.get_months())),
    ("sy.seasons", 1) => Some(seasons_s(&SolarYear::new(a[0] as isize).ok()?.get_seasons())),
    ("sy.halves", 1) => Some(halves_s(&SolarYear::new(a[0] as isize).ok()?.get_half_years())),
    ("sh.months", 2) => Some(months_s(&SolarHalfYear::new(a[0] as isize, us(a[1])?).ok()?.get_months())),
    ("sh.seasons", 2) => Some(seasons_s(&SolarHalfYear::new(a[0] as isize, us(a[1])?).ok()?.get_seasons())),
    ("ss.months", 2) => Some(months_s(&SolarSeason::new(a[0] as isize, us(a[1])?).ok()?.get_months())),
    ("sm.season", 2) => { let s = SolarMonth::new(a[0] as isize, us(a[1])?).ok()?.get_season(); Some(format!("{} {}", s.get_year(), s.get_index())) }
    // day count, list length, then every listed day in full
    ("sm.days", 2) => {
      let m = SolarMonth::new(a[0] as isize, us(a[1])?).ok()?;
      let l = m.get_days();
      let mut s = format!("{} {}", m.get_day_count(), l.len());
      for d in l.iter() { s.push_str(&format!(" {}.{}.{}", d.get_year(), d.get_month(), d.get_day())); }
      Some(s)
    }
    // month count, list length, then (year, signed month, index in year) of every listed month
    ("ly.months", 1) => {
      let y = LunarYear::new(a[0] as isize).ok()?;
      let l = y.get_months();
      let mut s = format!("{} {}", y.get_month_count(), l.len());
      for m in l.iter() { s.push_str(&format!(" | {} {} {}", m.get_year(), m.get_month_with_leap(), m.get_index_in_year())); }
      Some(s)
    }
    ("lm.days", 2) => {
      let m = LunarMonth::new(a[0] as isize, a[1] as isize).ok()?;
      let m = LunarMonth::from_ym(m.get_year(), m.get_month_with_leap());
      let l = m.get_days();
      let mut s = format!("{} {}", m.get_day_count(), l.len());
      for d in l.iter() { s.push_str(&format!(" {}.{}.{}", d.get_year(), d.get_month(), d.get_day())); }
      Some(s)
    }
    ("ld.hours", 3) => { let d = LunarDay::new(a[0] as isize, a[1] as isize, us(a[2])?).ok()?; Some(lhours_s(&d.get_hours())) }
    // civil date -> its sexagenary day -> the 12 double hours
    ("scd.hours", 3) => { let d = solar_day(a[0], a[1], a[2])?; Some(schours_s(&SixtyCycleDay::from_solar_day(d).get_hours())) }
    ("scd.hourp", 3) => { let d = solar_day(a[0], a[1], a[2])?; Some(schourp_s(&SixtyCycleDay::from_solar_day(d).get_hours())) }
    // sexagenary month `index` of sexagenary year `y`: identity (year, pillar, index in year), then its days
    ("scm.days", 2) => {
      let m = SixtyCycleMonth::from_index(a[0] as isize, a[1] as isize);
      Some(format!("{} | {}", scm_id(&m), scdays_s(&m.get_days())))
    }
    ("scy.months", 1) => {
      let y = SixtyCycleYear::new(a[0] as isize).ok()?;
      let l = y.get_months();
      let mut s = format!("{}", l.len());
      for m in l.iter() { s.push_str(&format!(" | {}", scm_id(m))); }
      Some(s)
    }
    _ => Some("bad-op".to_string()),
  }
}

/// the civil days whose hour lists are compared: first two and last two days of the year, first and last day of every
/// month, and every day of October 1582
fn sample_days(y: i64) -> Vec<(i64, i64, i64)> {
  let mut v = Vec::new();
  for m in 1i64..=12 {
    let mut ds: Vec<i64> = Vec::new();
    for d in 1i64..=31 { if solar_day(y, m, d).is_some() { ds.push(d); } }
    let n = ds.len();
    for (i, d) in ds.iter().enumerate() {
      let pick = i == 0 || i + 1 == n || (m == 1 && i == 1) || (m == 12 && i + 2 == n) || (y == 1582 && m == 10);
      if pick { v.push((y, m, *d)); }
    }
  }
  v
}

/// years visited by the sampled streams: `all`, or the first 60 years, the reform junctions (230..245, 1575..1590), every 25th
/// year and the last three
fn sel(y: i64, args: &[String]) -> bool {
  let all = args.get(0).map(|s| s == "all").unwrap_or(false);
  all || y <= 60 || y % 25 == 0 || y >= 9997 || (1575..=1590).contains(&y) || (230..=245).contains(&y)
}

pub fn run_enum(name: &str, args: &[String], w: &mut dyn Write) -> bool {
  match name {
    // every civil year 0..10000: the year's lists, each half-year's and season's lists, every month's season and day list
    // (each day with its day-of-year)
    "c13.civil" => {
      let years: Vec<i64> = (0..=10000).collect();
      par_years(&years, w, |y| {
        let mut out = String::new();
        out.push_str(&format!("Y {} {}\n", y, guard(|| {
          let sy = SolarYear::new(y as isize).ok()?;
          Some(format!("{} | {} | {} | {}", sy.get_day_count(), months_s(&sy.get_months()), seasons_s(&sy.get_seasons()), halves_s(&sy.get_half_years())))
        })));
        for i in 0i64..2 {
          out.push_str(&format!("H {} {} {}\n", y, i, guard(|| {
            let h = SolarHalfYear::new(y as isize, i as usize).ok()?;
            Some(format!("{} | {}", months_s(&h.get_months()), seasons_s(&h.get_seasons())))
          })));
        }
        for i in 0i64..4 {
          out.push_str(&format!("S {} {} {}\n", y, i, guard(|| Some(months_s(&SolarSeason::new(y as isize, i as usize).ok()?.get_months())))));
        }
        for m in 1i64..=12 {
          out.push_str(&format!("M {} {} {}\n", y, m, guard(|| {
            let sm = SolarMonth::new(y as isize, m as usize).ok()?;
            let s = sm.get_season();
            let l = sm.get_days();
            let mut t = format!("{} {} | {} {} |", s.get_year(), s.get_index(), sm.get_day_count(), l.len());
            for d in l.iter() { t.push(' '); t.push_str(&day_tok(y, m, d)); }
            Some(t)
          })));
        }
        out
      });
    }
    // every lunar year -1..10000: its month list; every month of it (addressed directly, not through the list): its day list
    "c13.lunar" => {
      for y in -1i64..=10000 {
        writeln!(w, "LY {} {}", y, guard(|| go("ly.months", &[y]))).unwrap();
        let leap = match std::panic::catch_unwind(|| LunarYear::new(y as isize).ok().map(|x| x.get_leap_month() as i64)) { Ok(Some(l)) => l, _ => 0 };
        for m in 1i64..=12 {
          for sg in [1i64, -1] {
            if sg < 0 && m != leap { continue; }
            let mm = sg * m;
            writeln!(w, "LM {} {} {}", y, mm, guard(|| {
              let lm = LunarMonth::new(y as isize, mm as isize).ok()?;
              let lm = LunarMonth::from_ym(lm.get_year(), lm.get_month_with_leap());
              let l = lm.get_days();
              let mut t = format!("{} {} |", lm.get_day_count(), l.len());
              for d in l.iter() { t.push(' '); t.push_str(&lday_tok(y, mm, d)); }
              Some(t)
            })).unwrap();
          }
        }
      }
    }
    // hour lists of sampled civil days (sexagenary day) and of the lunar day of the same date
    "c13.hours" => {
      let years: Vec<i64> = (1..=9999).filter(|y| sel(*y, args)).collect();
      par_years(&years, w, |y| {
        let mut out = String::new();
        for (yy, m, d) in sample_days(y) {
          out.push_str(&format!("SH {} {} {} {}\n", yy, m, d, guard(|| go("scd.hours", &[yy, m, d]))));
          out.push_str(&format!("LH {} {} {} {}\n", yy, m, d, guard(|| {
            let l = solar_day(yy, m, d)?.get_lunar_day();
            Some(format!("{} {} {} | {}", l.get_year(), l.get_month(), l.get_day(), lhours_s(&l.get_hours())))
          })));
        }
        out
      });
    }
    // day and hour pillar of every slot of the same sampled days (model vs implementation only)
    "c13.hourp" => {
      let years: Vec<i64> = (1..=9999).filter(|y| sel(*y, args)).collect();
      par_years(&years, w, |y| {
        let mut out = String::new();
        for (yy, m, d) in sample_days(y) {
          out.push_str(&format!("SP {} {} {} {}\n", yy, m, d, guard(|| go("scd.hourp", &[yy, m, d]))));
        }
        out
      });
    }
    // sexagenary year -1..9999 (selected): its month list and the day list of each of the 12 months
    "c13.scm" => {
      let years: Vec<i64> = (-1..=9999).filter(|y| sel(*y, args)).collect();
      par_years(&years, w, |y| {
        let mut out = String::new();
        out.push_str(&format!("SY {} {}\n", y, guard(|| go("scy.months", &[y]))));
        for i in 0i64..12 {
          out.push_str(&format!("SM {} {} {}\n", y, i, guard(|| go("scm.days", &[y, i]))));
        }
        out
      });
    }
    _ => { return false; }
  }
  true
}
