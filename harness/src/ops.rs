use std::panic::{catch_unwind, AssertUnwindSafe};
use tyme4rs::tyme::Tyme;
use tyme4rs::tyme::solar::{SolarDay, SolarMonth, SolarYear};

pub const REFUSED: &str = "refused";

pub fn guard<F: FnOnce() -> Option<String>>(f: F) -> String {
  match catch_unwind(AssertUnwindSafe(f)) {
    Ok(Some(s)) => s,
    Ok(None) => REFUSED.to_string(),
    Err(_) => REFUSED.to_string(),
  }
}

fn ints(a: &[&str]) -> Option<Vec<i64>> {
  let mut v = Vec::new();
  for s in a { v.push(s.parse::<i64>().ok()?); }
  Some(v)
}

/// usize arguments: a negative value cannot be passed to the API at all (type-level refusal)
fn us(x: i64) -> Option<usize> { if x < 0 { None } else { Some(x as usize) } }

pub fn solar_day(y: i64, m: i64, d: i64) -> Option<SolarDay> {
  SolarDay::new(y as isize, us(m)?, us(d)?).ok()
}

pub fn jdn_of(d: &SolarDay) -> i64 {
  let j = d.get_julian_day().get_day() + 0.5;
  // day numbers at 0h are k - 0.5 exactly; anything else is reported as-is via floor and flagged by the caller
  j.floor() as i64
}

pub fn fmt_day(d: &SolarDay) -> String { format!("{} {} {}", d.get_year(), d.get_month(), d.get_day()) }

pub fn exec_line(line: &str) -> String {
  let parts: Vec<&str> = line.split_whitespace().collect();
  let op = parts[0];
  let a = match ints(&parts[1..]) { Some(v) => v, None => return "bad-op".to_string() };
  guard(|| exec(op, &a))
}

fn exec(op: &str, a: &[i64]) -> Option<String> {
  match (op, a.len()) {
    ("solar.new", 3) => { solar_day(a[0], a[1], a[2])?; Some("ok".into()) }
    ("solar.jdn", 3) => { let d = solar_day(a[0], a[1], a[2])?; Some(format!("{}", jdn_of(&d))) }
    ("jd.day", 1) => {
      let d = tyme4rs::tyme::jd::JulianDay::from_julian_day(a[0] as f64 - 0.5).get_solar_day();
      Some(fmt_day(&d))
    }
    ("solar.next", 4) => { let d = solar_day(a[0], a[1], a[2])?; Some(fmt_day(&d.next(a[3] as isize))) }
    ("solar.sub", 6) => {
      let x = solar_day(a[0], a[1], a[2])?; let y = solar_day(a[3], a[4], a[5])?;
      Some(format!("{}", x.subtract(y)))
    }
    ("solar.before", 6) => {
      let x = solar_day(a[0], a[1], a[2])?; let y = solar_day(a[3], a[4], a[5])?;
      Some(format!("{}", x.is_before(y) as u8))
    }
    ("solar.after", 6) => {
      let x = solar_day(a[0], a[1], a[2])?; let y = solar_day(a[3], a[4], a[5])?;
      Some(format!("{}", x.is_after(y) as u8))
    }
    ("solar.idx", 3) => { let d = solar_day(a[0], a[1], a[2])?; Some(format!("{}", d.get_index_in_year())) }
    ("solar.week", 3) => { let d = solar_day(a[0], a[1], a[2])?; Some(format!("{}", d.get_week().get_index())) }
    ("month.len", 2) => { let m = SolarMonth::new(a[0] as isize, us(a[1])?).ok()?; Some(format!("{}", m.get_day_count())) }
    ("year.len", 1) => { let y = SolarYear::new(a[0] as isize).ok()?; Some(format!("{} {}", y.get_day_count(), y.is_leap() as u8)) }
    _ => crate::ops2::exec(op, a),
  }
}
