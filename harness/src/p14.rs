// C14: weeks of a month (civil half): SolarMonth::get_week_count/get_weeks, SolarWeek::*, SolarDay::get_solar_week
use std::io::Write;
use tyme4rs::tyme::Tyme;
use tyme4rs::tyme::solar::{SolarDay, SolarMonth, SolarWeek};
use crate::util::*;

const OPS: &[&str] = &["week.count", "week.new", "week.first", "week.days", "week.next", "week.nextfd", "week.idx",
  "week.of", "week.offd", "week.weeks", "week.eq"];

pub fn exec(op: &str, a: &[i64]) -> Option<Option<String>> {
  if !OPS.contains(&op) { return None; }
  // ops that loop inside the library run under a watchdog: a defective border correction makes `next` /
  // `get_index_in_year` walk month by month until year 10000 (minutes); answer `timeout` after 2 s instead
  if matches!(op, "week.next" | "week.nextfd" | "week.idx") {
    let (tx, rx) = std::sync::mpsc::channel::<Option<String>>();
    let op2 = op.to_string(); let a2 = a.to_vec();
    std::thread::spawn(move || { let r = std::panic::catch_unwind(|| go(&op2, &a2)).unwrap_or(None); let _ = tx.send(r); });
    return Some(match rx.recv_timeout(std::time::Duration::from_secs(2)) { Ok(r) => r, Err(_) => Some("timeout".to_string()) });
  }
  Some(go(op, a))
}

fn month(y: i64, m: i64) -> Option<SolarMonth> { SolarMonth::new(y as isize, us(m)?).ok() }

fn week(y: i64, m: i64, i: i64, s: i64) -> Option<SolarWeek> { SolarWeek::new(y as isize, us(m)?, us(i)?, us(s)?).ok() }

fn fmt_week(w: &SolarWeek) -> String { format!("{} {} {} {}", w.get_year(), w.get_month(), w.get_index(), w.get_start().get_index()) }

/// None = refused
fn go(op: &str, a: &[i64]) -> Option<String> {
  match (op, a.len()) {
    ("week.count", 3) => { let m = month(a[0], a[1])?; Some(format!("{}", m.get_week_count(us(a[2])?))) }
    ("week.new", 4) => { week(a[0], a[1], a[2], a[3])?; Some("ok".into()) }
    ("week.first", 4) => { let w = week(a[0], a[1], a[2], a[3])?; Some(fmt_day(&w.get_first_day())) }
    ("week.days", 4) => {
      let w = week(a[0], a[1], a[2], a[3])?;
      let v: Vec<String> = w.get_days().iter().map(|d| fmt_day(d)).collect();
      Some(format!("{} {}", v.len(), v.join(" ")))
    }
    ("week.next", 5) => { let w = week(a[0], a[1], a[2], a[3])?; Some(fmt_week(&w.next(a[4] as isize))) }
    ("week.nextfd", 5) => { let w = week(a[0], a[1], a[2], a[3])?; Some(fmt_day(&w.next(a[4] as isize).get_first_day())) }
    ("week.idx", 4) => { let w = week(a[0], a[1], a[2], a[3])?; Some(format!("{}", w.get_index_in_year())) }
    ("week.of", 4) => { let d = solar_day(a[0], a[1], a[2])?; Some(fmt_week(&d.get_solar_week(us(a[3])?))) }
    ("week.offd", 4) => { let d = solar_day(a[0], a[1], a[2])?; Some(fmt_day(&d.get_solar_week(us(a[3])?).get_first_day())) }
    ("week.weeks", 3) => {
      let m = month(a[0], a[1])?;
      let v: Vec<String> = m.get_weeks(us(a[2])?).iter().map(|w| fmt_week(w)).collect();
      Some(format!("{} {}", v.len(), v.join(" ")))
    }
    ("week.eq", 8) => {
      let x = week(a[0], a[1], a[2], a[3])?; let y = week(a[4], a[5], a[6], a[7])?;
      Some(format!("{}", (x == y) as u8))
    }
    _ => Some("bad-op".to_string()),
  }
}

pub fn year_selected(y: i64, tier: &str) -> bool {
  if tier == "edges" { return EDGE_YEARS.contains(&y); }
  tier == "thorough" || y <= 5 || y >= 9995 || y % 10 == 0 || (1581..=1583).contains(&y)
}

fn opt<F: FnOnce() -> Option<String>>(f: F) -> String {
  let r = guard(f);
  if r == REFUSED { "x".to_string() } else { r }
}

/// y m s wc mask | fd:days ...   (fd = day number of the first day or x; days = offsets of the 7 listed days or x)
fn line_weeks(y: i64, m: i64, s: i64) -> String {
  let mo = SolarMonth::from_ym(y as isize, m as usize);
  let wc = mo.get_week_count(s as usize);
  let mut mask = 0u32;
  for i in 0..8i64 {
    if guard(|| { week(y, m, i, s)?; Some("ok".into()) }) == "ok" { mask |= 1 << i; }
  }
  let mut out = format!("{} {} {} {} {} |", y, m, s, wc, mask);
  let ws = guard(|| Some(mo.get_weeks(s as usize).iter().map(|w| format!("{}", w.get_index())).collect::<Vec<_>>().join(",")));
  out.push_str(&format!(" {} |", ws));
  for i in 0..8i64 {
    if mask & (1 << i) == 0 { continue; }
    let w = SolarWeek::from_ym(y as isize, m as usize, i as usize, s as usize);
    let fd = guard(|| Some(format!("{}", jdn_of(&w.get_first_day()))));
    let days = opt(|| {
      let l = w.get_days();
      let f = jdn_of(&l[0]);
      let mut t = String::new();
      for d in l.iter() {
        let k = jdn_of(d) - f;
        if (0..=9).contains(&k) { t.push_str(&format!("{}", k)); } else { t.push('?'); }
      }
      Some(t)
    });
    let fds = if fd == REFUSED { "x".to_string() } else { fd };
    out.push_str(&format!(" {}:{}", fds, days));
  }
  out
}

/// y m s <one char per existing day of the month: index of get_solar_week(s), x = refused>
fn line_of(y: i64, m: i64, s: i64) -> String {
  let mut t = String::new();
  for d in 1..=31i64 {
    let day = match guard(|| { solar_day(y, m, d)?; Some("ok".into()) }).as_str() { "ok" => SolarDay::from_ymd(y as isize, m as usize, d as usize), _ => continue };
    let r = opt(|| {
      let w = day.get_solar_week(s as usize);
      if w.get_year() != y as isize || w.get_month() != m as usize || w.get_start().get_index() != s as usize { return Some("!".into()); }
      Some(format!("{}", w.get_index()))
    });
    t.push_str(&r);
  }
  format!("{} {} {} {}", y, m, s, t)
}

/// y s | idx of every week of month 1 ; month 2 ; ...   (x = refused)
fn line_idx(y: i64, s: i64) -> String {
  let mut out = format!("{} {} |", y, s);
  for m in 1..=12i64 {
    let wc = SolarMonth::from_ym(y as isize, m as usize).get_week_count(s as usize);
    for i in 0..wc {
      let r = opt(|| Some(format!("{}", SolarWeek::from_ym(y as isize, m as usize, i, s as usize).get_index_in_year())));
      out.push_str(&format!(" {}", r));
    }
    out.push_str(" ;");
  }
  out
}

/// y m s | per week: results of next(-1) and next(1) as m.i (month, index; x = refused)
fn line_step(y: i64, m: i64, s: i64) -> String {
  let mut out = format!("{} {} {} |", y, m, s);
  let wc = SolarMonth::from_ym(y as isize, m as usize).get_week_count(s as usize);
  for i in 0..wc {
    let w = SolarWeek::from_ym(y as isize, m as usize, i, s as usize);
    for n in [-1isize, 1, -5, 5] {
      let r = opt(|| { let v = w.next(n); Some(format!("{}.{}.{}", v.get_year() - y as isize, v.get_month(), v.get_index())) });
      out.push_str(&format!(" {}", r));
    }
    out.push_str(" ;");
  }
  out
}

/// Render the selected years on 16 detached worker threads (work queue), print in year order.
/// Watchdog: a defective `next`/`get_index_in_year` can loop for minutes inside the library (the loop only ends
/// by panicking at year 10000); a year that is not finished when the deadline passes is printed as `<y> timeout`
/// and the process exits, so that the check still reaches its verdict (the line differs from model and spec).
fn par_years(tier: &str, w: &mut dyn Write, f: fn(i64) -> String) {
  use std::sync::{Arc, mpsc, atomic::{AtomicUsize, Ordering}};
  use std::time::{Duration, Instant};
  let years: Arc<Vec<i64>> = Arc::new((1..=9999i64).filter(|y| year_selected(*y, tier)).collect());
  let secs: u64 = std::env::var("VERIF_C14_DEADLINE_S").ok().and_then(|s| s.parse().ok()).unwrap_or(if tier == "quick" { 45 } else { 240 });
  let deadline = Instant::now() + Duration::from_secs(secs);
  let next = Arc::new(AtomicUsize::new(0));
  let (tx, rx) = mpsc::channel::<(usize, String)>();
  for _ in 0..16 {
    let years = years.clone(); let next = next.clone(); let tx = tx.clone();
    std::thread::spawn(move || loop {
      let k = next.fetch_add(1, Ordering::SeqCst);
      if k >= years.len() { break; }
      let s = match std::panic::catch_unwind(|| f(years[k])) { Ok(s) => s, Err(_) => format!("{} panic\n", years[k]) };
      if tx.send((k, s)).is_err() { break; }
    });
  }
  drop(tx);
  let mut done: Vec<Option<String>> = vec![None; years.len()];
  let mut printed = 0usize;
  let mut timed_out = false;
  loop {
    let now = Instant::now();
    if now >= deadline { timed_out = true; break; }
    match rx.recv_timeout(deadline - now) {
      Ok((k, s)) => {
        done[k] = Some(s);
        while printed < years.len() && done[printed].is_some() {
          w.write_all(done[printed].take().unwrap().as_bytes()).unwrap();
          printed += 1;
        }
        if printed == years.len() { break; }
      }
      Err(mpsc::RecvTimeoutError::Timeout) => { timed_out = true; break; }
      Err(mpsc::RecvTimeoutError::Disconnected) => { break; }
    }
  }
  for k in printed..years.len() {
    match done[k].take() {
      Some(s) => w.write_all(s.as_bytes()).unwrap(),
      None => writeln!(w, "{} timeout", years[k]).unwrap(),
    }
  }
  if timed_out {
    w.flush().unwrap();
    eprintln!("c14 stream: deadline of {} s passed, unfinished years printed as `timeout`", secs);
    std::process::exit(0);
  }
}

/// y m s i | for n in -60..=60: day number of next(n).get_first_day()  (x = next refused, X = first day refused)
fn line_edges(y: i64, m: i64, s: i64, i: usize) -> String {
  let w = SolarWeek::from_ym(y as isize, m as usize, i, s as usize);
  let mut out = format!("{} {} {} {} |", y, m, s, i);
  for n in -60isize..=60 {
    let r = match std::panic::catch_unwind(|| w.next(n)) {
      Err(_) => "x".to_string(),
      Ok(v) => match std::panic::catch_unwind(|| jdn_of(&v.get_first_day())) { Err(_) => "X".to_string(), Ok(j) => format!("{}", j) },
    };
    out.push(' '); out.push_str(&r);
  }
  out
}

pub const EDGE_YEARS: [i64; 7] = [1, 2, 1581, 1582, 1583, 9998, 9999];

fn years_edges(y: i64) -> String {
  let mut s = String::new();
  for m in 1..=12 { for st in 0..7 {
    let wc = SolarMonth::from_ym(y as isize, m as usize).get_week_count(st as usize);
    for i in 0..wc { s.push_str(&line_edges(y, m, st, i)); s.push('\n'); }
  } }
  s
}

fn years_weeks(y: i64) -> String {
  let mut s = String::new();
  for m in 1..=12 { for st in 0..7 { s.push_str(&line_weeks(y, m, st)); s.push('\n'); } }
  s
}
fn years_of(y: i64) -> String {
  let mut s = String::new();
  for m in 1..=12 { for st in 0..7 { s.push_str(&line_of(y, m, st)); s.push('\n'); } }
  s
}
fn years_idx(y: i64) -> String {
  let mut s = String::new();
  for st in 0..7 { s.push_str(&line_idx(y, st)); s.push('\n'); }
  s
}
fn years_step(y: i64) -> String {
  let mut s = String::new();
  for m in 1..=12 { for st in 0..7 { s.push_str(&line_step(y, m, st)); s.push('\n'); } }
  s
}

pub fn run_enum(name: &str, args: &[String], w: &mut dyn Write) -> bool {
  let tier = args.get(0).map(|s| s.as_str()).unwrap_or("quick").to_string();
  match name {
    "c14.weeks" => par_years(&tier, w, years_weeks),
    "c14.of" => par_years(&tier, w, years_of),
    "c14.idx" => par_years(&tier, w, years_idx),
    "c14.step" => par_years(&tier, w, years_step),
    "c14.edges" => par_years("edges", w, years_edges),
    _ => { return false; }
  }
  true
}
