// C06: solar terms (construction, stepping, day -> term, instant -> term)
use std::io::Write;
use tyme4rs::tyme::Tyme;
use tyme4rs::tyme::solar::{SolarTerm, SolarTime};
use tyme4rs::tyme::Culture;
use crate::util::*;

const OPS: &[&str] = &["term.of", "term.ofd", "term.byname", "term.next", "term.new", "term.day", "term.oftime"];

pub fn exec(op: &str, a: &[i64]) -> Option<Option<String>> {
  if OPS.contains(&op) { Some(go(op, a)) } else { None }
}

fn go(op: &str, a: &[i64]) -> Option<String> {
  match (op, a.len()) {
    // civil day -> (term year, term index, day index)
    ("term.of", 3) => {
      let d = solar_day(a[0], a[1], a[2])?;
      let td = d.get_term_day();
      let t = td.get_solar_term();
      Some(format!("{} {} {}", t.get_year(), t.get_index(), td.get_day_index()))
    }
    // civil day -> (term year, term index) through SolarDay::get_term()
    ("term.ofd", 3) => {
      let t = solar_day(a[0], a[1], a[2])?.get_term();
      Some(format!("{} {}", t.get_year(), t.get_index()))
    }
    // the term (y, i) found again BY ITS NAME in its own year (SolarTerm::from_name): year, index, and the same day as by index
    ("term.byname", 2) => {
      let t = SolarTerm::from_index(a[0] as isize, a[1] as isize);
      let u = SolarTerm::from_name(t.get_year(), &t.get_name());
      Some(format!("{} {} {}", u.get_year(), u.get_index(), (u.get_julian_day().get_day() == t.get_julian_day().get_day()) as u8))
    }
    // instant -> (term year, term index)
    ("term.oftime", 6) => {
      let t = SolarTime::new(a[0] as isize, us(a[1])?, us(a[2])?, us(a[3])?, us(a[4])?, us(a[5])?).ok()?;
      let x = t.get_term();
      Some(format!("{} {}", x.get_year(), x.get_index()))
    }
    ("term.new", 2) => { let t = SolarTerm::from_index(a[0] as isize, a[1] as isize); Some(format!("{} {} {} {}", t.get_year(), t.get_index(), t.is_jie() as u8, t.is_qi() as u8)) }
    ("term.next", 3) => { let t = SolarTerm::from_index(a[0] as isize, a[1] as isize).next(a[2] as isize); Some(format!("{} {}", t.get_year(), t.get_index())) }
    // term -> civil date and second of day of its instant
    ("term.day", 2) => {
      let t = SolarTerm::from_index(a[0] as isize, a[1] as isize);
      let st = t.get_julian_day().get_solar_time();
      Some(format!("{} {}", fmt_day(&st.get_solar_day()), st.get_hour() * 3600 + st.get_minute() * 60 + st.get_second()))
    }
    _ => Some("bad-op".to_string()),
  }
}

pub fn run_enum(name: &str, args: &[String], w: &mut dyn Write) -> bool {
  match name {
    // every civil day of the selected years: y m d -> term year, term index, day index
    "c06.days" => {
      let years: Vec<i64> = (1..=9999).filter(|y| year_selected(*y, args)).collect();
      par_years(&years, w, |y| {
        let mut out = String::new();
        for m in 1i64..=12 { for d in 1i64..=31 {
          if solar_day(y, m, d).is_none() { continue; }
          let r = guard(|| go("term.of", &[y, m, d]));
          out.push_str(&format!("{} {} {} {}\n", y, m, d, r));
        }}
        out
      });
    }
    // the ordering/spacing clause evaluated on the implementation: for every term (year 1..=9999, index) `y i ok` where ok = the next
    // term's instant is 14.6..15.8 days later and its civil day 14..16 days later (terms whose instant is not representable are skipped)
    "c06.inc" => {
      let years: Vec<i64> = (1..=9999).collect();
      par_years(&years, w, |y| {
        let mut out = String::new();
        let inst = |yy: i64, ii: i64| -> Option<(i64, i64)> {
          let r = guard(|| go("term.day", &[yy, ii]));
          if r == REFUSED { return None; }
          let f: Vec<i64> = r.split(' ').map(|x| x.parse().unwrap()).collect();
          let d = solar_day(f[0], f[1], f[2])?;
          Some((jdn_of(&d), f[3]))
        };
        for i in 0i64..24 {
          let a = inst(y, i);
          let b = if i == 23 { inst(y + 1, 0) } else { inst(y, i + 1) };
          if let (Some((d1, s1)), Some((d2, s2))) = (a, b) {
            let gap = (d2 - d1) * 86400 + s2 - s1;
            let ok = (1261440..=1365120).contains(&gap) && (14..=16).contains(&(d2 - d1));
            out.push_str(&format!("{} {} {}\n", y, i, ok as u8));
          }
        }
        out
      });
    }
    // stepping and construction: for every (year, index) of the selected years and a fixed list of n
    "c06.next" => {
      let ns: [i64; 13] = [0, 1, -1, 2, -2, 23, 24, -24, 25, -25, 100, -100, 240001];
      for y in 1i64..=10000 {
        if !year_selected(y, args) { continue; }
        for i in 0i64..24 {
          for n in ns.iter() {
            let r = guard(|| go("term.next", &[y, i, *n]));
            writeln!(w, "{} {} {} {}", y, i, n, r).unwrap();
          }
        }
      }
      for y in [-3i64, -1, 0, 1, 2, 2024, 9999, 10000] { for idx in [-50i64, -25, -24, -1, 0, 23, 24, 25, 47, 48, 1000] {
        writeln!(w, "new {} {} {}", y, idx, guard(|| go("term.new", &[y, idx]))).unwrap();
      }}
      // the INSTANT of a term constructed with a wrapped index (negative, or 24 and more) is the instant of the term it names
      for y in 2i64..=9998 {
        if !(y % 50 == 0 || y <= 30 || y >= 9990 || (1570..=1600).contains(&y)) { continue; }
        for idx in [-49i64, -25, -24, -13, -12, -11, -1, 24, 25, 35, 36, 47, 48] {
          writeln!(w, "wday {} {} {}", y, idx, guard(|| go("term.day", &[y, idx]))).unwrap();
        }
      }
    }
    _ => { return false; }
  }
  true
}
