// C09: eight characters and their inverse search
use std::io::Write;
use tyme4rs::tyme::eightchar::EightChar;
use tyme4rs::tyme::sixtycycle::SixtyCycle;
use tyme4rs::tyme::solar::SolarTime;
use crate::util::*;

const OPS: &[&str] = &["ec.of", "ec.search"];

pub fn exec(op: &str, a: &[i64]) -> Option<Option<String>> {
  if OPS.contains(&op) { Some(go(op, a)) } else { None }
}

pub fn go(op: &str, a: &[i64]) -> Option<String> {
  match (op, a.len()) {
    // instant -> the four pillars of its eight characters (through LunarHour::get_eight_char, default provider)
    ("ec.of", 6) => {
      let t = SolarTime::new(a[0] as isize, us(a[1])?, us(a[2])?, us(a[3])?, us(a[4])?, us(a[5])?).ok()?;
      let e = t.get_lunar_hour().get_eight_char();
      Some(format!("{} {} {} {}", e.get_year().get_index(), e.get_month().get_index(), e.get_day().get_index(), e.get_hour().get_index()))
    }
    // four pillars + year range -> instants found, in the order returned: y m d h mi s | ...
    ("ec.search", 6) => {
      let e = EightChar::from_sixty_cycle(SixtyCycle::from_index(a[0] as isize), SixtyCycle::from_index(a[1] as isize),
        SixtyCycle::from_index(a[2] as isize), SixtyCycle::from_index(a[3] as isize));
      let l = e.get_solar_times(a[4] as isize, a[5] as isize);
      let mut s = format!("{}", l.len());
      for t in l {
        s.push_str(&format!(" | {} {} {} {} {} {}", t.get_year(), t.get_month(), t.get_day(), t.get_hour(), t.get_minute(), t.get_second()));
      }
      Some(s)
    }
    _ => Some("bad-op".to_string()),
  }
}

pub fn run_enum(_name: &str, _args: &[String], _w: &mut dyn Write) -> bool { false }
