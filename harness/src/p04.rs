// C04: month numbering of each solstice year as the library reports it
use std::io::Write;
use tyme4rs::tyme::Tyme;
use tyme4rs::tyme::jd::JulianDay;
use tyme4rs::tyme::lunar::LunarMonth;
use tyme4rs::tyme::solar::SolarTerm;
use crate::util::*;
use crate::p03::first_jdn;

pub fn exec(_op: &str, _a: &[i64]) -> Option<Option<String>> { None }

/// signed month number of the lunation, followed by `!day=<n>` when the first and the last day of the lunation, reached through
/// their civil dates, report another month number (LunarDay::get_month must carry the leap sign of its lunation)
fn tag(m: &LunarMonth) -> String {
  let mwl = m.get_month_with_leap();
  for q in [first_jdn(m), first_jdn(m) + m.get_day_count() as i64 - 1] {
    let dm = JulianDay::from_julian_day(q as f64).get_solar_day().get_lunar_day().get_month();
    if dm != mwl { return format!("{}!day={}", mwl, dm); }
  }
  format!("{}", mwl)
}

fn contains(m: &LunarMonth, q: i64) -> bool { first_jdn(m) <= q && q < first_jdn(m) + m.get_day_count() as i64 }

/// lunar month containing day number q (through the civil date of q)
fn month_of(q: i64) -> LunarMonth {
  JulianDay::from_julian_day(q as f64).get_solar_day().get_lunar_day().get_lunar_month()
}

pub fn run_enum(name: &str, _args: &[String], w: &mut dyn Write) -> bool {
  match name {
    // y : signed month numbers from the lunation containing the winter solstice of December y-1 to the one
    // containing the winter solstice of December y (calendar-making solstice days), stepping with next(1)
    // `c04.years.hist`: the same lines, each computed right after a battery of unusual calls about the year and its
    // neighbours (wrapped term indices, refused months, other views): the answers must be the history-free ones
    "c04.years" | "c04.years.hist" => {
      for y in 27i64..=9999 {
        if name == "c04.years.hist" { noise_year(y); noise_year(y + 1); }
        // the property excludes the AD 237-240 reform years
        if (238..=240).contains(&y) { writeln!(w, "{} : excluded", y).unwrap(); continue; }
        let line = guard(|| {
          let q0 = SolarTerm::from_index(y as isize, 0).get_cursory_julian_day() as i64 + 2451545;
          let q12 = SolarTerm::from_index(y as isize + 1, 0).get_cursory_julian_day() as i64 + 2451545;
          let mut m = month_of(q0);
          if !contains(&m, q0) { return Some("solstice-not-in-month".to_string()); }
          let mut s = tag(&m);
          let mut n = 0;
          while !contains(&m, q12) {
            m = m.next(1);
            s.push_str(&format!(" {}", tag(&m)));
            n += 1;
            if n > 15 { return Some(format!("{} ...runaway", s)); }
          }
          Some(s)
        });
        writeln!(w, "{} : {}", y, line).unwrap();
      }
    }
    _ => { return false; }
  }
  true
}
