// C16: child limit, decade fortunes, yearly fortunes (all four shipped limit strategies through the verif hook)
use std::io::Write;
use tyme4rs::tyme::Tyme;
use tyme4rs::tyme::enums::Gender;
use tyme4rs::tyme::eightchar::{ChildLimit, DecadeFortune, Fortune, verif_set_child_limit_provider};
use tyme4rs::tyme::solar::SolarTime;
use crate::util::*;

const OPS: &[&str] = &["limit", "fortune", "decade", "fnext", "dnext", "limit.more"];

pub fn exec(op: &str, a: &[i64]) -> Option<Option<String>> {
  if !OPS.contains(&op) { return None; }
  // the strategy is process-wide state: select it for this one call and ALWAYS go back to the default
  let r = std::panic::catch_unwind(std::panic::AssertUnwindSafe(|| go(op, a)));
  verif_set_child_limit_provider(0);
  match r {
    Ok(x) => Some(x),
    Err(_) => Some(None),
  }
}

fn limit(a: &[i64]) -> Option<ChildLimit> {
  let t = SolarTime::new(a[0] as isize, us(a[1])?, us(a[2])?, us(a[3])?, us(a[4])?, us(a[5])?).ok()?;
  let g = match a[6] { 0 => Gender::WOMAN, 1 => Gender::MAN, _ => return None };
  if a[7] < 0 || a[7] > 3 { return None; }
  verif_set_child_limit_provider(a[7] as usize);
  Some(ChildLimit::from_solar_time(t, g))
}

pub fn go(op: &str, a: &[i64]) -> Option<String> {
  match (op, a.len()) {
    // birth instant, gender (1 man / 0 woman), strategy -> forward, counts, end instant, start age, end age
    ("limit", 8) => {
      let l = limit(a)?;
      let e = l.get_end_time();
      Some(format!("{} {} {} {} {} {} {} {} {} {} {} {} {} {}", if l.is_forward() { 1 } else { 0 },
        l.get_year_count(), l.get_month_count(), l.get_day_count(), l.get_hour_count(), l.get_minute_count(),
        e.get_year(), e.get_month(), e.get_day(), e.get_hour(), e.get_minute(), e.get_second(),
        l.get_start_age(), l.get_end_age()))
    }
    // … k -> yearly fortune k: age, sexagenary year, pillar
    ("fortune", 9) => {
      let l = limit(a)?;
      let f = Fortune::from_child_limit(l, a[8] as isize);
      Some(format!("{} {} {}", f.get_age(), f.get_sixty_cycle_year().get_year(), f.get_sixty_cycle().get_index()))
    }
    // … k -> decade fortune k: start age, end age, pillar, start year
    ("decade", 9) => {
      let l = limit(a)?;
      let f = DecadeFortune::from_child_limit(l, a[8] as isize);
      Some(format!("{} {} {} {}", f.get_start_age(), f.get_end_age(), f.get_sixty_cycle().get_index(), f.get_start_sixty_cycle_year().get_year()))
    }
    // … k -> the remaining getters of ChildLimit, DecadeFortune(k) and Fortune(k) (see the driver for the line layout)
    ("limit.more", 9) => {
      let l = limit(a)?;
      let k = a[8] as isize;
      let st = l.get_start_time();
      let e = l.get_eight_char();
      let df = DecadeFortune::from_child_limit(l.clone(), k);
      let f = Fortune::from_child_limit(l.clone(), k);
      #[allow(deprecated)]
      let r = format!("{} {} {} {} {} {} {} {} {} {} {} {} {} {} {} {} {} {} {} {} {} {} {} {}",
        st.get_year(), st.get_month(), st.get_day(), st.get_hour(), st.get_minute(), st.get_second(),
        match l.get_gender() { Gender::MAN => 1, Gender::WOMAN => 0 },
        e.get_year().get_index(), e.get_month().get_index(), e.get_day().get_index(), e.get_hour().get_index(),
        l.get_end_lunar_year().get_year(), l.get_start_sixty_cycle_year().get_year(), l.get_end_sixty_cycle_year().get_year(),
        l.get_start_decade_fortune().get_index(), l.get_decade_fortune().get_index(), l.get_start_fortune().get_index(),
        df.get_start_lunar_year().get_year(), df.get_end_lunar_year().get_year(), df.get_end_sixty_cycle_year().get_year(),
        df.get_start_fortune().get_index(), f.get_lunar_year().get_year(),
        df.get_child_limit().get_end_time().get_year(), f.get_child_limit().get_end_time().get_year());
      Some(r)
    }
    // … k n -> Fortune(k).next(n): index, age, pillar
    ("fnext", 10) => {
      let l = limit(a)?;
      let f = Fortune::from_child_limit(l, a[8] as isize).next(a[9] as isize);
      Some(format!("{} {} {}", f.get_index(), f.get_age(), f.get_sixty_cycle().get_index()))
    }
    // … k n -> DecadeFortune(k).next(n): index, start age, pillar, index of its first yearly fortune
    ("dnext", 10) => {
      let l = limit(a)?;
      let f = DecadeFortune::from_child_limit(l, a[8] as isize).next(a[9] as isize);
      Some(format!("{} {} {} {}", f.get_index(), f.get_start_age(), f.get_sixty_cycle().get_index(), f.get_start_fortune().get_index()))
    }
    _ => Some("bad-op".to_string()),
  }
}

pub fn run_enum(_name: &str, _args: &[String], _w: &mut dyn Write) -> bool { false }
