// C19: stem / branch / pillar / star attribute getters on their complete finite domains.
// Every family is one public getter (or a small group) of tyme4rs; the answer is a list of integers
// (indices, never names; `-1` = None).  A family is addressed both as an op line (`stem.tenstar 3 7`)
// and through the stream `c19.ext`, which prints `family args => answer` for the whole domain in the
// fixed order of FAMS (arguments in lexicographic order).  Arguments of cyclic types are passed to
// `from_index`, which wraps them (so an op line may carry any integer).
use std::io::Write;
use tyme4rs::tyme::Culture;
use tyme4rs::tyme::culture::{Direction, Element, Land, Zone};
use tyme4rs::tyme::culture::fetus::FetusDay;
use tyme4rs::tyme::culture::peng_zu::PengZu;
use tyme4rs::tyme::culture::ren::minor::MinorRen;
use tyme4rs::tyme::culture::star::nine::NineStar;
use tyme4rs::tyme::culture::star::twelve::{Ecliptic, TwelveStar};
use tyme4rs::tyme::culture::star::twenty_eight::TwentyEightStar;
use tyme4rs::tyme::eightchar::EightChar;
use tyme4rs::tyme::enums::{HideHeavenStemType, Side, YinYang};
use tyme4rs::tyme::lunar::LunarMonth;
use tyme4rs::tyme::sixtycycle::{EarthBranch, HeavenStem, SixtyCycle};
use tyme4rs::tyme::solar::SolarDay;
use crate::util::*;

/// (family, sizes of the argument ranges).  `day.constellation` is special: month 1..12, day 1..len (leap year).
pub const FAMS: &[(&str, &[i64])] = &[
  ("stem.element", &[10]), ("stem.yinyang", &[10]), ("stem.direction", &[10]),
  ("stem.joy", &[10]), ("stem.yang", &[10]), ("stem.yin", &[10]), ("stem.wealth", &[10]), ("stem.mascot", &[10]),
  ("stem.terrain", &[10, 12]), ("stem.tenstar", &[10, 10]), ("stem.combine", &[10]), ("stem.combine2", &[10, 10]),
  ("branch.element", &[12]), ("branch.yinyang", &[12]), ("branch.hide", &[12]), ("branch.hidelist", &[12]),
  ("branch.zodiac", &[12]), ("branch.direction", &[12]), ("branch.opposite", &[12]), ("branch.ominous", &[12]),
  ("branch.combine", &[12]), ("branch.combine2", &[12, 12]), ("branch.harm", &[12]),
  ("cycle.parts", &[60]), ("cycle.sound", &[60]), ("cycle.ten", &[60]), ("cycle.extra", &[60]), ("cycle.pengzu", &[60]),
  ("element.cycle", &[5]), ("element.direction", &[5]), ("direction.element", &[9]),
  ("land.direction", &[9]), ("zone.attr", &[4]),
  ("mansion.attr", &[28]), ("ninestar.attr", &[9]), ("twelvestar.ecliptic", &[12]), ("ecliptic.luck", &[2]),
  ("minorren.attr", &[6]),
  ("fetus.day", &[60]), ("fetus.month", &[13]),
  ("day.constellation", &[12, 31]),
  ("ec.origin", &[60]), ("ec.breath", &[60]), ("ec.own", &[10, 12, 12]), ("ec.body", &[10, 12, 12]),
  ("name.sound", &[30]), ("name.fetusmonth", &[12]), ("name.fetusstem", &[5]), ("name.fetusbranch", &[6]),
  ("name.ninecolor", &[9]),
  ("name.of", &[25, 60]),
];

/// name.of <type> <i>: the public name lists that fix what an index MEANS (code points of NAMES[i]).
/// types: 0 stem 1 branch 2 element 3 direction 4 zodiac 5 terrain 6 tenstar 7 ten(xun) 8 sevenstar 9 land 10 zone 11 beast
/// 12 animal 13 mansion 14 luck 15 constellation 16 minorren 17 twelvestar 18 ecliptic 19 dipper 20 ninestar
/// 21 yinyang(code) 22 side(code) 23 hide-stem type(code) 24 sixty cycle
pub const NAME_SIZES: [i64; 25] = [10, 12, 5, 9, 12, 12, 10, 6, 7, 9, 4, 4, 28, 28, 2, 12, 6, 12, 2, 9, 9, 2, 2, 3, 60];

fn name_of(t: i64, i: i64) -> Option<String> {
  use tyme4rs::tyme::culture::*;
  use tyme4rs::tyme::culture::star::{nine::Dipper, seven::SevenStar, ten::TenStar};
  let k = i as isize;
  Some(match t {
    0 => HeavenStem::from_index(k).get_name(), 1 => EarthBranch::from_index(k).get_name(), 2 => Element::from_index(k).get_name(),
    3 => Direction::from_index(k).get_name(), 4 => Zodiac::from_index(k).get_name(), 5 => Terrain::from_index(k).get_name(),
    6 => TenStar::from_index(k).get_name(), 7 => Ten::from_index(k).get_name(), 8 => SevenStar::from_index(k).get_name(),
    9 => Land::from_index(k).get_name(), 10 => Zone::from_index(k).get_name(), 11 => Beast::from_index(k).get_name(),
    12 => Animal::from_index(k).get_name(), 13 => TwentyEightStar::from_index(k).get_name(), 14 => Luck::from_index(k).get_name(),
    15 => Constellation::from_index(k).get_name(), 16 => MinorRen::from_index(k).get_name(), 17 => TwelveStar::from_index(k).get_name(),
    18 => Ecliptic::from_index(k).get_name(), 19 => Dipper::from_index(k).get_name(), 20 => NineStar::from_index(k).get_name(),
    21 => YinYang::from_code(us(i)?).ok()?.get_name(), 22 => Side::from_code(us(i)?).ok()?.get_name(),
    23 => HideHeavenStemType::from_code(us(i)?).ok()?.get_name(),
    24 => SixtyCycle::from_index(k).get_name(),
    _ => return None,
  })
}

pub fn exec(op: &str, a: &[i64]) -> Option<Option<String>> {
  let f = FAMS.iter().find(|f| f.0 == op)?;
  if a.len() != f.1.len() { return Some(Some("bad-op".to_string())); }
  Some(go(op, a).map(|v| join(&v)))
}

fn join(v: &[i64]) -> String { v.iter().map(|x| x.to_string()).collect::<Vec<_>>().join(" ") }

fn yy(x: YinYang) -> i64 { match x { YinYang::YIN => 0, YinYang::YANG => 1 } }
fn side(x: Side) -> i64 { match x { Side::IN => 0, Side::OUT => 1 } }
fn hide_type(x: HideHeavenStemType) -> i64 { match x { HideHeavenStemType::RESIDUAL => 0, HideHeavenStemType::MIDDLE => 1, HideHeavenStemType::MAIN => 2 } }
fn opt_stem(x: Option<HeavenStem>) -> i64 { match x { Some(s) => s.get_index() as i64, None => -1 } }
fn opt_el(x: Option<Element>) -> i64 { match x { Some(s) => s.get_index() as i64, None => -1 } }
fn chars(s: &str) -> Vec<i64> { s.chars().map(|c| c as i64).collect() }
fn stem(i: i64) -> HeavenStem { HeavenStem::from_index(i as isize) }
fn branch(i: i64) -> EarthBranch { EarthBranch::from_index(i as isize) }
fn cyc(i: i64) -> SixtyCycle { SixtyCycle::from_index(i as isize) }
fn ix<T: Into<tyme4rs::tyme::LoopTyme>>(x: T) -> i64 { let l: tyme4rs::tyme::LoopTyme = x.into(); l.get_index() as i64 }

/// None = refused
fn go(op: &str, a: &[i64]) -> Option<Vec<i64>> {
  Some(match op {
    "stem.element" => vec![ix(stem(a[0]).get_element())],
    "stem.yinyang" => vec![yy(stem(a[0]).get_yin_yang())],
    "stem.direction" => vec![ix(stem(a[0]).get_direction())],
    "stem.joy" => vec![ix(stem(a[0]).get_joy_direction())],
    "stem.yang" => vec![ix(stem(a[0]).get_yang_direction())],
    "stem.yin" => vec![ix(stem(a[0]).get_yin_direction())],
    "stem.wealth" => vec![ix(stem(a[0]).get_wealth_direction())],
    "stem.mascot" => vec![ix(stem(a[0]).get_mascot_direction())],
    "stem.terrain" => vec![ix(stem(a[0]).get_terrain(branch(a[1])))],
    "stem.tenstar" => vec![ix(stem(a[0]).get_ten_star(stem(a[1])))],
    "stem.combine" => vec![ix(stem(a[0]).get_combine())],
    "stem.combine2" => vec![opt_el(stem(a[0]).combine(stem(a[1])))],
    "branch.element" => vec![ix(branch(a[0]).get_element())],
    "branch.yinyang" => vec![yy(branch(a[0]).get_yin_yang())],
    "branch.hide" => {
      let b = branch(a[0]);
      vec![ix(b.get_hide_heaven_stem_main()), opt_stem(b.get_hide_heaven_stem_middle()), opt_stem(b.get_hide_heaven_stem_residual())]
    }
    // the list getter: (stem, type code) pairs in list order
    "branch.hidelist" => {
      let mut v = Vec::new();
      for h in branch(a[0]).get_hide_heaven_stems() { v.push(ix(h.get_heaven_stem())); v.push(hide_type(h.get_type())); }
      v
    }
    "branch.zodiac" => vec![ix(branch(a[0]).get_zodiac())],
    "branch.direction" => vec![ix(branch(a[0]).get_direction())],
    "branch.opposite" => vec![ix(branch(a[0]).get_opposite())],
    "branch.ominous" => vec![ix(branch(a[0]).get_ominous())],
    "branch.combine" => vec![ix(branch(a[0]).get_combine())],
    "branch.combine2" => vec![opt_el(branch(a[0]).combine(branch(a[1])))],
    "branch.harm" => vec![ix(branch(a[0]).get_harm())],
    "cycle.parts" => { let c = cyc(a[0]); vec![ix(c.get_heaven_stem()), ix(c.get_earth_branch())] }
    // Nayin: index of the sound, and the element named by the last character of its name
    "cycle.sound" => {
      let s = cyc(a[0]).get_sound();
      let name = s.get_name();
      let last: String = name.chars().last()?.to_string();
      vec![ix(s), ix(Element::from_name(&last))]
    }
    "cycle.ten" => vec![ix(cyc(a[0]).get_ten())],
    "cycle.extra" => cyc(a[0]).get_extra_earth_branches().into_iter().map(ix).collect(),
    "cycle.pengzu" => { let p = PengZu::from_sixty_cycle(cyc(a[0])); vec![ix(p.get_peng_zu_heaven_stem()), ix(p.get_peng_zu_earth_branch())] }
    "element.cycle" => {
      let e = Element::from_index(a[0] as isize);
      vec![ix(e.get_reinforce()), ix(e.get_restrain()), ix(e.get_reinforced()), ix(e.get_restrained())]
    }
    "element.direction" => vec![ix(Element::from_index(a[0] as isize).get_direction())],
    "direction.element" => vec![ix(Direction::from_index(a[0] as isize).get_element())],
    "land.direction" => vec![ix(Land::from_index(a[0] as isize).get_direction())],
    "zone.attr" => { let z = Zone::from_index(a[0] as isize); vec![ix(z.get_direction()), ix(z.get_beast())] }
    "mansion.attr" => {
      let s = TwentyEightStar::from_index(a[0] as isize);
      vec![ix(s.get_seven_star()), ix(s.get_land()), ix(s.get_zone()), ix(s.get_animal()), ix(s.get_luck())]
    }
    "ninestar.attr" => {
      let s = NineStar::from_index(a[0] as isize);
      vec![ix(s.get_element()), ix(s.get_dipper()), ix(s.get_direction())]
    }
    "twelvestar.ecliptic" => { let e = TwelveStar::from_index(a[0] as isize).get_ecliptic(); vec![ix(e.clone()), ix(e.get_luck())] }
    "ecliptic.luck" => vec![ix(Ecliptic::from_index(a[0] as isize).get_luck())],
    "minorren.attr" => { let r = MinorRen::from_index(a[0] as isize); vec![ix(r.get_luck()), ix(r.get_element())] }
    "fetus.day" => {
      let f = FetusDay::new(cyc(a[0]));
      vec![ix(f.get_fetus_heaven_stem()), ix(f.get_fetus_earth_branch()), side(f.get_side()), ix(f.get_direction())]
    }
    // months 1..12 of lunar year 2023 (argument 0..11) and its leap month 2 (argument 12): index of the month spirit, -1 = None
    "fetus.month" => {
      if a[0] < 0 || a[0] > 12 { return None; }
      let m = if a[0] == 12 { -2 } else { a[0] as isize + 1 };
      let lm = LunarMonth::new(2023, m).ok()?;
      vec![match lm.get_fetus() { Some(f) => ix(f), None => -1 }]
    }
    // argument = (month - 1, day - 1) of leap year 2020
    "day.constellation" => {
      let d = SolarDay::new(2020, us(a[0] + 1)?, us(a[1] + 1)?).ok()?;
      vec![ix(d.get_constellation())]
    }
    "ec.origin" => vec![ix(EightChar::from_sixty_cycle(cyc(0), cyc(a[0]), cyc(0), cyc(0)).get_fetal_origin())],
    "ec.breath" => vec![ix(EightChar::from_sixty_cycle(cyc(0), cyc(0), cyc(a[0]), cyc(0)).get_fetal_breath())],
    // (year stem, month branch, hour branch); the pillars used are the ones with these indices
    "ec.own" => vec![ix(EightChar::from_sixty_cycle(cyc(a[0].rem_euclid(10)), cyc(a[1].rem_euclid(12)), cyc(0), cyc(a[2].rem_euclid(12))).get_own_sign())],
    "ec.body" => vec![ix(EightChar::from_sixty_cycle(cyc(a[0].rem_euclid(10)), cyc(a[1].rem_euclid(12)), cyc(0), cyc(a[2].rem_euclid(12))).get_body_sign())],
    // name tables that ARE the data (code points)
    "name.sound" => chars(&tyme4rs::tyme::culture::Sound::from_index(a[0] as isize).get_name()),
    "name.fetusmonth" => chars(&tyme4rs::tyme::culture::fetus::FetusMonth::from_index(a[0] as isize).get_name()),
    "name.fetusstem" => chars(&tyme4rs::tyme::culture::fetus::FetusHeavenStem::from_index(a[0] as isize).get_name()),
    "name.fetusbranch" => chars(&tyme4rs::tyme::culture::fetus::FetusEarthBranch::from_index(a[0] as isize).get_name()),
    "name.ninecolor" => chars(&NineStar::from_index(a[0] as isize).get_color()),
    "name.of" => chars(&name_of(a[0], a[1])?),
    _ => return None,
  })
}

fn each_args(dims: &[i64], f: &mut dyn FnMut(&[i64])) {
  let mut a = vec![0i64; dims.len()];
  loop {
    f(&a);
    let mut k = dims.len();
    loop {
      if k == 0 { return; }
      k -= 1;
      a[k] += 1;
      if a[k] < dims[k] { break; }
      a[k] = 0;
    }
  }
}

fn line(fam: &str, a: &[i64]) -> String {
  let r = guard(|| go(fam, a).map(|v| join(&v)));
  format!("{} {} => {}", fam, join(a), r)
}

pub fn run_enum(name: &str, _args: &[String], w: &mut dyn Write) -> bool {
  match name {
    // the complete extension of every family
    "c19.ext" => {
      for (fam, dims) in FAMS {
        each_args(dims, &mut |a| {
          let l = line(fam, a);
          // month-days that do not exist are not part of the domain
          if *fam == "day.constellation" && l.ends_with(REFUSED) { return; }
          if *fam == "name.of" && a[1] >= NAME_SIZES[a[0] as usize] { return; }
          writeln!(w, "{}", l).unwrap();
        });
      }
    }
    // own / body sign for every (year, month, hour) pillar triple (the getters read nothing else)
    "c19.signs" => {
      for y in 0..60i64 { for m in 0..60i64 { for h in 0..60i64 {
        let r = guard(|| {
          let e = EightChar::from_sixty_cycle(cyc(y), cyc(m), cyc(0), cyc(h));
          Some(format!("{} {}", ix(e.get_own_sign()), ix(e.get_body_sign())))
        });
        writeln!(w, "{} {} {} => {}", y, m, h, r).unwrap();
      }}}
    }
    // zodiac sign of every civil day 0001-01-01 .. 9999-12-31, one line per month (the sign must not depend on the year)
    "c19.days" => {
      for y in 1i64..=9999 { for m in 1i64..=12 {
        let mut v: Vec<i64> = Vec::new();
        for d in 1i64..=31 {
          let r = guard(|| { let x = solar_day(y, m, d)?; Some(ix(x.get_constellation()).to_string()) });
          if r != REFUSED { v.push(r.parse().unwrap()); }
        }
        writeln!(w, "{} {} => {}", y, m, join(&v)).unwrap();
      }}
    }
    _ => { return false; }
  }
  true
}
