use std::io::Write;
use crate::ops::*;

pub fn run<W: Write>(name: &str, _args: &[String], w: &mut W) {
  match name {
    // acceptance grid: per (y, m) the bitmask of accepted days 0..=32
    "c01.grid" => {
      for y in -1i64..=10000 {
        for m in 0i64..=13 {
          let mut mask: u64 = 0;
          for d in 0i64..=32 {
            let ok = guard(|| { solar_day(y, m, d)?; Some("ok".into()) }) == "ok";
            if ok { mask |= 1u64 << d; }
          }
          writeln!(w, "{} {} {}", y, m, mask).unwrap();
        }
      }
    }
    // every accepted day in lexicographic order: y m d jdn week idx back(y m d)
    "c01.days" => {
      for y in 1i64..=9999 {
        for m in 1i64..=12 {
          for d in 1i64..=31 {
            let line = guard(|| {
              let x = solar_day(y, m, d)?;
              let j = jdn_of(&x);
              let frac_ok = x.get_julian_day().get_day() + 0.5 == j as f64;
              let b = tyme4rs::tyme::jd::JulianDay::from_julian_day(j as f64 - 0.5).get_solar_day();
              Some(format!("{} {} {} {} {} {} {} {}", y, m, d, j, x.get_week().get_index(), x.get_index_in_year(), fmt_day(&b), frac_ok as u8))
            });
            if line != REFUSED { writeln!(w, "{}", line).unwrap(); }
          }
        }
      }
    }
    // month and year lengths, leap flags
    "c01.lens" => {
      for y in 1i64..=9999 {
        let yy = tyme4rs::tyme::solar::SolarYear::from_year(y as isize);
        write!(w, "{} {} {}", y, yy.get_day_count(), yy.is_leap() as u8).unwrap();
        for m in 1..=12usize {
          write!(w, " {}", tyme4rs::tyme::solar::SolarMonth::from_ym(y as isize, m).get_day_count()).unwrap();
        }
        writeln!(w).unwrap();
      }
    }
    _ => { crate::enums2::run(name, _args, w); }
  }
}
