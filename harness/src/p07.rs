// C07 / C08 / C09 (hour pillar): sexagenary day and hour views
use std::io::Write;
use tyme4rs::tyme::jd::JulianDay;
use tyme4rs::tyme::solar::SolarTime;
use crate::util::*;

const OPS: &[&str] = &["scd", "sch", "jd.week", "jd.weekf", "sch.daynext", "scd.dep", "sch.dep"];

pub fn exec(op: &str, a: &[i64]) -> Option<Option<String>> {
  if OPS.contains(&op) { Some(go(op, a)) } else { None }
}

pub fn go(op: &str, a: &[i64]) -> Option<String> {
  match (op, a.len()) {
    // civil day -> year pillar, month pillar, day pillar (sexagenary-day view), day pillar (lunar-day route),
    //              weekday (civil route), weekday (lunar route)
    ("scd", 3) => {
      let d = solar_day(a[0], a[1], a[2])?;
      let v = d.get_sixty_cycle_day();
      let l = d.get_lunar_day();
      Some(format!("{} {} {} {} {} {}", v.get_year().get_index(), v.get_month().get_index(), v.get_sixty_cycle().get_index(),
        l.get_sixty_cycle().get_index(), d.get_week().get_index(), l.get_week().get_index()))
    }
    // instant -> year, month, day, hour pillars (sexagenary-hour view), index in day, hour pillar (lunar-hour route)
    ("sch", 6) => {
      let t = SolarTime::new(a[0] as isize, us(a[1])?, us(a[2])?, us(a[3])?, us(a[4])?, us(a[5])?).ok()?;
      let v = t.get_sixty_cycle_hour();
      let lh = t.get_lunar_hour();
      Some(format!("{} {} {} {} {} {} {}", v.get_year().get_index(), v.get_month().get_index(), v.get_day().get_index(),
        v.get_sixty_cycle().get_index(), v.get_index_in_day(), lh.get_sixty_cycle().get_index(), lh.get_index_in_day()))
    }
    // the same pillars through the older (deprecated, still public) getters of the lunar day / lunar hour: year, month, day
    // (hour) pillar — they must give what the sexagenary views give
    ("scd.dep", 3) => {
      let l = solar_day(a[0], a[1], a[2])?.get_lunar_day();
      #[allow(deprecated)]
      let r = format!("{} {} {}", l.get_year_sixty_cycle().get_index(), l.get_month_sixty_cycle().get_index(), l.get_sixty_cycle().get_index());
      Some(r)
    }
    ("sch.dep", 6) => {
      let t = SolarTime::new(a[0] as isize, us(a[1])?, us(a[2])?, us(a[3])?, us(a[4])?, us(a[5])?).ok()?;
      let lh = t.get_lunar_hour();
      #[allow(deprecated)]
      let r = format!("{} {} {} {}", lh.get_year_sixty_cycle().get_index(), lh.get_month_sixty_cycle().get_index(), lh.get_day_sixty_cycle().get_index(), lh.get_sixty_cycle().get_index());
      Some(r)
    }
    // weekday of the Julian day of an INSTANT (fractional Julian date: any time of day) — JulianDay::get_week
    ("jd.week", 6) => {
      let t = SolarTime::new(a[0] as isize, us(a[1])?, us(a[2])?, us(a[3])?, us(a[4])?, us(a[5])?).ok()?;
      Some(format!("{}", t.get_julian_day().get_week().get_index()))
    }
    // weekday of the raw Julian date (day number j, k seconds after civil midnight): from_julian_day(j - 0.5 + k/86400)
    ("jd.weekf", 2) => {
      if a[0] < 1721424 || a[0] > 5373484 || a[1] < 0 || a[1] >= 86400 { return None; }
      let jd = JulianDay::from_julian_day(a[0] as f64 - 0.5 + (a[1] as f64) / 86400.0);
      Some(format!("{}", jd.get_week().get_index()))
    }
    // the sexagenary day taken FROM an instant-level view (at 23:xx it carries the next day's pillar) and stepped by n:
    // civil date and the three pillars of the result — SixtyCycleDay::next must re-derive everything from the date
    ("sch.daynext", 7) => {
      use tyme4rs::tyme::Tyme;
      let t = SolarTime::new(a[0] as isize, us(a[1])?, us(a[2])?, us(a[3])?, us(a[4])?, us(a[5])?).ok()?;
      let x = t.get_sixty_cycle_hour().get_sixty_cycle_day().next(a[6] as isize);
      Some(format!("{} {} {} {}", fmt_day(&x.get_solar_day()), x.get_year().get_index(), x.get_month().get_index(), x.get_sixty_cycle().get_index()))
    }
    _ => Some("bad-op".to_string()),
  }
}

/// what can still be said about a civil day whose sexagenary-day view is refused (January 0001 before the first term):
/// the pillar through the lunar date, the weekday, the weekday through the lunar date — each guarded on its own
fn scd_fallback(y: i64, m: i64, d: i64) -> String {
  let f = |g: &dyn Fn() -> Option<usize>| -> String {
    match std::panic::catch_unwind(std::panic::AssertUnwindSafe(|| g())) { Ok(Some(v)) => v.to_string(), _ => "r".to_string() }
  };
  let lp = f(&|| Some(solar_day(y, m, d)?.get_lunar_day().get_sixty_cycle().get_index()));
  let wk = f(&|| Some(solar_day(y, m, d)?.get_week().get_index()));
  let wl = f(&|| Some(solar_day(y, m, d)?.get_lunar_day().get_week().get_index()));
  format!("R {} {} {}", lp, wk, wl)
}

pub fn run_enum(name: &str, args: &[String], w: &mut dyn Write) -> bool {
  match name {
    "c07.days" => {
      let years: Vec<i64> = (1..=9999).filter(|y| year_selected(*y, args)).collect();
      par_years(&years, w, |y| {
        let mut out = String::new();
        for m in 1i64..=12 { for d in 1i64..=31 {
          if solar_day(y, m, d).is_none() { continue; }
          let mut r = guard(|| go("scd", &[y, m, d]));
          if r == REFUSED { r = scd_fallback(y, m, d); }
          out.push_str(&format!("{} {} {} {}\n", y, m, d, r));
        }}
        out
      });
    }
    // year and month pillar only (C08)
    "c08.days" => {
      let years: Vec<i64> = (1..=9999).filter(|y| year_selected(*y, args)).collect();
      par_years(&years, w, |y| {
        let mut out = String::new();
        for m in 1i64..=12 { for d in 1i64..=31 {
          if solar_day(y, m, d).is_none() { continue; }
          let r = guard(|| { let s = go("scd", &[y, m, d])?; let f: Vec<&str> = s.split(' ').collect(); Some(format!("{} {}", f[0], f[1])) });
          out.push_str(&format!("{} {} {} {}\n", y, m, d, r));
        }}
        out
      });
    }
    // every hour 0..23 (at minute 30) of 60 consecutive days: all (day pillar, hour) combinations
    "c09.hours" => {
      let mut d = solar_day(2024, 1, 1).unwrap();
      for _ in 0..60 {
        use tyme4rs::tyme::Tyme;
        for h in 0i64..24 {
          let r = guard(|| go("sch", &[d.get_year() as i64, d.get_month() as i64, d.get_day() as i64, h, 30, 0]));
          writeln!(w, "{} {} {}", fmt_day(&d), h, r).unwrap();
        }
        d = d.next(1);
      }
    }
    _ => { return false; }
  }
  true
}
