// C05: astronomy-facing outputs: precise conjunctions, solver residuals, delta-T samples
use std::io::Write;
use tyme4rs::tyme::util::ShouXingUtil;
use crate::util::*;

pub fn exec(_op: &str, _a: &[i64]) -> Option<Option<String>> { None }

const PI2: f64 = std::f64::consts::PI * 2.0;

/// precise Sun-Moon conjunction (UTC+8, days since J2000 noon-based as the library counts) of lunation k
fn conj(k: f64) -> f64 {
  let t = ShouXingUtil::m_sa_lon_t(k * PI2) * 36525.0;
  t - ShouXingUtil::dtt(t) + 8.0 / 24.0
}

pub fn run_enum(name: &str, args: &[String], w: &mut dyn Write) -> bool {
  match name {
    // y idx first precise_day precise_sod   for every lunar month of years y0..=y1 (default 1961..=9999):
    // precise_day = civil day number (UTC+8) on which the conjunction computed by the full-precision inverse
    // solver m_sa_lon_t falls; the lunation number is taken from the month's first day as calc_shuo does
    "c05.shuo" => {
      let y0: i64 = args.get(0).and_then(|s| s.parse().ok()).unwrap_or(1961);
      let y1: i64 = args.get(1).and_then(|s| s.parse().ok()).unwrap_or(9999);
      let years: Vec<i64> = (y0..=y1).collect();
      par_years(&years, w, |y| {
        let mut out = String::new();
        for m in crate::peph::months_of_year(y) {
          let first = crate::p03::first_jdn(&m);
          let k = ((first as f64 - 2451545.0 + 8.0) / 29.5306).floor();
          let t = conj(k);
          let day = (t + 0.5).floor();
          let sod = ((t + 0.5 - day) * 86400.0).floor() as i64;
          out.push_str(&format!("{} {} {} {} {}\n", y, m.get_index_in_year(), first, day as i64 + 2451545, sod));
        }
        out
      });
    }
    // inverse-solver residuals in nano-radians over target longitudes of ±10,000 years:
    //   sun k |sa_lon(sa_lon_t(w), -1) - w|   (w = k * pi/12, 24 per year)
    //   moon k |m_sa_lon(m_sa_lon_t(w), -1, 60) - w|   (w = k * 2 pi, ~12.37 per year, every 7th)
    "c05.resid" => {
      let step: i64 = args.get(0).and_then(|s| s.parse().ok()).unwrap_or(97);
      let mut k = -240000i64;
      while k <= 240000 {
        let w0 = k as f64 * std::f64::consts::PI / 12.0;
        let r = (ShouXingUtil::sa_lon(ShouXingUtil::sa_lon_t(w0), -1) - w0).abs();
        writeln!(w, "sun {} {}", k, (r * 1e9).round() as i64).unwrap();
        k += step;
      }
      let mut k = -123000i64;
      while k <= 123000 {
        let w0 = k as f64 * PI2;
        let r = (ShouXingUtil::m_sa_lon(ShouXingUtil::m_sa_lon_t(w0), -1, 60) - w0).abs();
        writeln!(w, "moon {} {}", k, (r * 1e9).round() as i64).unwrap();
        k += step;
      }
    }
    // delta-T samples: year*1000 -> round(dt_calc(year) * 1e6)  (micro-seconds), on a grid and around every table year
    "c05.dt" => {
      let n: i64 = args.get(0).and_then(|s| s.parse().ok()).unwrap_or(10000);
      for i in 0..=n {
        let y1000 = -4000_000 + (14_000_000 / n) * i;
        writeln!(w, "{} {}", y1000, (ShouXingUtil::dt_calc(y1000 as f64 / 1000.0) * 1e6).round() as i64).unwrap();
      }
    }
    _ => { return false; }
  }
  true
}
