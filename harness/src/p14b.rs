// C14, lunar half: LunarMonth::get_week_count / get_weeks, LunarWeek::new / get_first_day / get_days / next
use std::io::Write;
use tyme4rs::tyme::Tyme;
use tyme4rs::tyme::lunar::{LunarDay, LunarMonth, LunarWeek};
use crate::util::*;

const OPS: &[&str] = &["lweek.count", "lweek.new", "lweek.first", "lweek.firstc", "lweek.days", "lweek.next", "lweek.nextfd",
  "lweek.weeks"];

pub fn exec(op: &str, a: &[i64]) -> Option<Option<String>> {
  if !OPS.contains(&op) { return None; }
  // `next` loops inside the library: run it under a watchdog (a defective border correction may walk for minutes)
  if matches!(op, "lweek.next" | "lweek.nextfd") {
    let (tx, rx) = std::sync::mpsc::channel::<Option<String>>();
    let op2 = op.to_string(); let a2 = a.to_vec();
    std::thread::spawn(move || { let r = std::panic::catch_unwind(|| go(&op2, &a2)).unwrap_or(None); let _ = tx.send(r); });
    return Some(match rx.recv_timeout(std::time::Duration::from_secs(2)) { Ok(r) => r, Err(_) => Some("timeout".to_string()) });
  }
  Some(go(op, a))
}

fn week(y: i64, m: i64, i: i64, s: i64) -> Option<LunarWeek> { LunarWeek::new(y as isize, m as isize, us(i)?, us(s)?).ok() }

fn fmt_week(w: &LunarWeek) -> String { format!("{} {} {} {}", w.get_year(), w.get_month(), w.get_index(), w.get_start().get_index()) }

fn fmt_lday(d: &LunarDay) -> String { format!("{} {} {}", d.get_year(), d.get_month(), d.get_day()) }

/// None = refused
fn go(op: &str, a: &[i64]) -> Option<String> {
  match (op, a.len()) {
    ("lweek.count", 3) => { let m = LunarMonth::from_ym(a[0] as isize, a[1] as isize); Some(format!("{}", m.get_week_count(us(a[2])?))) }
    ("lweek.new", 4) => { week(a[0], a[1], a[2], a[3])?; Some("ok".into()) }
    ("lweek.first", 4) => { let w = week(a[0], a[1], a[2], a[3])?; Some(fmt_lday(&w.get_first_day())) }
    ("lweek.firstc", 4) => { let w = week(a[0], a[1], a[2], a[3])?; Some(fmt_day(&w.get_first_day().get_solar_day())) }
    ("lweek.days", 4) => {
      let w = week(a[0], a[1], a[2], a[3])?;
      let v: Vec<String> = w.get_days().iter().map(|d| fmt_lday(d)).collect();
      Some(format!("{} {}", v.len(), v.join(" ")))
    }
    ("lweek.next", 5) => { let w = week(a[0], a[1], a[2], a[3])?; Some(fmt_week(&w.next(a[4] as isize))) }
    ("lweek.nextfd", 5) => {
      let w = week(a[0], a[1], a[2], a[3])?;
      let d = w.next(a[4] as isize).get_first_day();
      Some(format!("{} {}", fmt_lday(&d), fmt_day(&d.get_solar_day())))
    }
    ("lweek.weeks", 3) => {
      let m = LunarMonth::from_ym(a[0] as isize, a[1] as isize);
      let v: Vec<String> = m.get_weeks(us(a[2])?).iter().map(|w| fmt_week(w)).collect();
      Some(format!("{} {}", v.len(), v.join(" ")))
    }
    _ => Some("bad-op".to_string()),
  }
}

fn opt<F: FnOnce() -> Option<String>>(f: F) -> String {
  let r = guard(f);
  if r == REFUSED { "x".to_string() } else { r }
}

/// signed month numbers of lunar year y in listing order
fn months(y: i64) -> Vec<i64> { crate::peph::months_of_year(y).iter().map(|m| m.get_month_with_leap() as i64).collect() }

/// per (y, m, s): `y m s wc mask | get_weeks indices`; then per accepted index i:
/// `y m s i | first day (lunar y m d) | first day (civil Y M D) | the 7 listed days as y.m.d`   (x = refused)
fn year_weeks(y: i64) -> String { year_weeks_d(y, true) }
/// thorough tier: the 7 listed days are printed for the even years and the years of the quick selection (`-` otherwise)
fn year_weeks_t(y: i64) -> String { year_weeks_d(y, y % 2 == 0 || lyear_selected(y, false)) }
fn year_weeks_d(y: i64, with_days: bool) -> String {
  let mut out = String::new();
  for m in months(y) {
    let mo = LunarMonth::from_ym(y as isize, m as isize);
    for s in 0..7i64 {
      let wc = mo.get_week_count(s as usize);
      let mut mask = 0u32;
      for i in 0..8i64 {
        if guard(|| { week(y, m, i, s)?; Some("ok".into()) }) == "ok" { mask |= 1 << i; }
      }
      let ws = guard(|| Some(mo.get_weeks(s as usize).iter().map(|w| format!("{}", w.get_index())).collect::<Vec<_>>().join(",")));
      out.push_str(&format!("{} {} {} {} {} | {}\n", y, m, s, wc, mask, ws));
      for i in 0..8i64 {
        if mask & (1 << i) == 0 { continue; }
        let w = LunarWeek::from_ym(y as isize, m as isize, i as usize, s as usize);
        let fd = std::panic::catch_unwind(|| w.get_first_day()).ok();
        let fl = match &fd { Some(d) => fmt_lday(d), None => "x".to_string() };
        let fc = match &fd { Some(d) => opt(|| Some(fmt_day(&d.get_solar_day()))), None => "x".to_string() };
        let days = if !with_days { "-".to_string() } else { opt(|| Some(w.get_days().iter().map(|d| format!("{}.{}.{}", d.get_year(), d.get_month(), d.get_day())).collect::<Vec<_>>().join(" "))) };
        out.push_str(&format!("{} {} {} {} | {} | {} | {}\n", y, m, s, i, fl, fc, days));
      }
    }
  }
  out
}

/// per (y, m, s): for every week the (year offset, month, index) of next(-1), next(1), next(-5), next(5)
fn year_step(y: i64) -> String {
  let mut out = String::new();
  for m in months(y) {
    let mo = LunarMonth::from_ym(y as isize, m as isize);
    for s in 0..7i64 {
      out.push_str(&format!("{} {} {} |", y, m, s));
      let wc = mo.get_week_count(s as usize);
      for i in 0..wc {
        let w = match std::panic::catch_unwind(|| LunarWeek::from_ym(y as isize, m as isize, i, s as usize)) { Ok(w) => w, Err(_) => { out.push_str(" x ;"); continue; } };
        for n in [-1isize, 1, -5, 5] {
          let r = opt(|| { let v = w.next(n); Some(format!("{}.{}.{}", v.get_year() - y as isize, v.get_month(), v.get_index())) });
          out.push_str(&format!(" {}", r));
        }
        out.push_str(" ;");
      }
      out.push('\n');
    }
  }
  out
}

/// `J0 y m s i |` (J0 = day number of the week's first day, computed here from the month's first Julian day) then for
/// n in -60..=60 the civil day number of next(n).get_first_day()  (x = refused: no such week, or no representable first day)
fn line_next(y: i64, m: i64, s: i64, i: usize) -> String {
  let f = crate::p03::first_jdn(&LunarMonth::from_ym(y as isize, m as isize));
  let j0 = f + 7 * i as i64 - (f + 7000001 - s).rem_euclid(7);
  let mut out = format!("{} {} {} {} {} |", j0, y, m, s, i);
  let w = match std::panic::catch_unwind(|| LunarWeek::from_ym(y as isize, m as isize, i, s as usize)) { Ok(w) => w, Err(_) => { out.push_str(" refused"); return out; } };
  for n in -60isize..=60 {
    let r = match std::panic::catch_unwind(|| jdn_of(&w.next(n).get_first_day().get_solar_day())) { Err(_) => "x".to_string(), Ok(j) => format!("{}", j) };
    out.push(' '); out.push_str(&r);
  }
  out
}

/// sampled weeks: one (start, index) per sampled month, rotating with the year and the position of the month;
/// every `thin`-th month is sampled
fn year_next_sample(y: i64, thin: i64) -> String {
  let mut out = String::new();
  for (k, m) in months(y).iter().enumerate() {
    if (y + k as i64) % thin != 0 { continue; }
    let s = (y + k as i64) % 7;
    let wc = LunarMonth::from_ym(y as isize, *m as isize).get_week_count(s as usize) as i64;
    let i = (y / 7 + 2 * k as i64) % wc.max(1);
    out.push_str(&line_next(y, *m, s, i as usize)); out.push('\n');
  }
  out
}
fn year_next_q(y: i64) -> String { if y < 0 { year_next_all(-y - 1) } else { year_next_sample(y, 4) } }
fn year_next_t(y: i64) -> String { if y < 0 { year_next_all(-y - 1) } else { year_next_sample(y, 8) } }

/// every week of the year
fn year_next_all(y: i64) -> String {
  let mut out = String::new();
  for m in months(y) {
    for s in 0..7i64 {
      let wc = LunarMonth::from_ym(y as isize, m as isize).get_week_count(s as usize);
      for i in 0..wc { out.push_str(&line_next(y, m, s, i)); out.push('\n'); }
    }
  }
  out
}

/// Render the years on 16 detached worker threads, print in year order; a year that is not finished when the deadline
/// passes is printed as `<y> timeout` and the process exits (a defective `next` may loop for minutes in the library).
fn par_watch(years: Vec<i64>, secs: u64, w: &mut dyn Write, f: fn(i64) -> String) {
  use std::sync::{Arc, mpsc, atomic::{AtomicUsize, Ordering}};
  use std::time::{Duration, Instant};
  let years: Arc<Vec<i64>> = Arc::new(years);
  let secs: u64 = std::env::var("VERIF_C14_DEADLINE_S").ok().and_then(|s| s.parse().ok()).unwrap_or(secs);
  let deadline = Instant::now() + Duration::from_secs(secs);
  let next = Arc::new(AtomicUsize::new(0));
  let (tx, rx) = mpsc::channel::<(usize, String)>();
  for _ in 0..16 {
    let years = years.clone(); let next = next.clone(); let tx = tx.clone();
    std::thread::spawn(move || loop {
      let k = next.fetch_add(1, Ordering::SeqCst);
      if k >= years.len() { break; }
      let s = match std::panic::catch_unwind(|| f(years[k])) { Ok(s) => s, Err(_) => format!("{} panic\n", years[k]) };
      if tx.send((k, s)).is_err() { break; }
    });
  }
  drop(tx);
  let mut done: Vec<Option<String>> = vec![None; years.len()];
  let mut printed = 0usize;
  let mut timed_out = false;
  loop {
    let now = Instant::now();
    if now >= deadline { timed_out = true; break; }
    match rx.recv_timeout(deadline - now) {
      Ok((k, s)) => {
        done[k] = Some(s);
        while printed < years.len() && done[printed].is_some() {
          w.write_all(done[printed].take().unwrap().as_bytes()).unwrap();
          printed += 1;
        }
        if printed == years.len() { break; }
      }
      Err(mpsc::RecvTimeoutError::Timeout) => { timed_out = true; break; }
      Err(mpsc::RecvTimeoutError::Disconnected) => { break; }
    }
  }
  for k in printed..years.len() {
    match done[k].take() {
      Some(s) => w.write_all(s.as_bytes()).unwrap(),
      None => writeln!(w, "{} timeout", years[k]).unwrap(),
    }
  }
  if timed_out {
    w.flush().unwrap();
    eprintln!("c14b stream: deadline of {} s passed, unfinished years printed as `timeout`", secs);
    std::process::exit(0);
  }
}

/// lunar years around the D4 junctions and the two ends of the table: EVERY week is stepped there (thorough tier: with
/// the neighbouring years, so that the set of weeks whose stepping crosses a junction is covered completely)
pub const DENSE_QUICK: [i64; 10] = [0, 1, 8, 9, 23, 24, 25, 239, 240, 9999];
pub const DENSE_ALL: [i64; 22] = [0, 1, 2, 7, 8, 9, 10, 22, 23, 24, 25, 26, 235, 236, 237, 238, 239, 240, 241, 9997, 9998, 9999];

/// lunar years of the quick tier: 0..=30 and 230..=245 (all D4 junctions), every 50th year, 1580..=1584, the last three
fn lyear_selected(y: i64, all: bool) -> bool {
  all || y <= 30 || (230..=245).contains(&y) || y % 50 == 0 || (1580..=1584).contains(&y) || y >= 9997
}

pub fn run_enum(name: &str, args: &[String], w: &mut dyn Write) -> bool {
  let all = args.get(0).map(|s| s == "all").unwrap_or(false);
  let years: Vec<i64> = (0..=9999i64).filter(|y| lyear_selected(*y, all)).collect();
  let years_q: Vec<i64> = (0..=9999i64).filter(|y| lyear_selected(*y, false)).collect();
  let secs = if all { 280 } else { 50 };
  match name {
    "c14b.weeks" => par_watch(years, secs, w, if all { year_weeks_t } else { year_weeks }),
    // representation of next(+-1), next(+-5): the quick selection of years in both tiers
    "c14b.step" => par_watch(years_q, secs, w, year_step),
    // dense years first (encoded as -y-1), then the sampled weeks of the selected years
    "c14b.next" => {
      let dense: Vec<i64> = if all { DENSE_ALL.to_vec() } else { DENSE_QUICK.to_vec() };
      let mut ys: Vec<i64> = dense.iter().map(|y| -y - 1).collect();
      ys.extend(years);
      par_watch(ys, secs, w, if all { year_next_t } else { year_next_q });
    }
    _ => { return false; }
  }
  true
}
