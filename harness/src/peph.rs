// Ephemeris extraction (data layer E): complete extension of the astronomy-facing functions.
use std::io::Write;
use tyme4rs::tyme::lunar::{LunarMonth, LunarYear};
use tyme4rs::tyme::solar::SolarTerm;
use crate::util::*;

pub fn exec(_op: &str, _a: &[i64]) -> Option<Option<String>> { None }

/// months of lunar year y in listing order, via the UNCACHED constructor
pub fn months_of_year(y: i64) -> Vec<LunarMonth> {
  let leap = LunarYear::from_year(y as isize).get_leap_month() as i64;
  let mut v = Vec::new();
  for m in 1..=12i64 {
    if let Ok(x) = LunarMonth::new(y as isize, m as isize) { v.push(x); }
    if m == leap {
      if let Ok(x) = LunarMonth::new(y as isize, -(m as isize)) { v.push(x); }
    }
  }
  v
}

pub fn run_enum(name: &str, _args: &[String], w: &mut dyn Write) -> bool {
  match name {
    // y leap   for y in -1..=9999
    "eph.years" => {
      for y in -1i64..=9999 {
        writeln!(w, "{} {}", y, LunarYear::from_year(y as isize).get_leap_month()).unwrap();
      }
    }
    // y m first len idx   for every lunar month of years 0..=9999 in listing order
    "eph.months" => {
      for y in 0i64..=9999 {
        let line = guard(|| {
          let mut s = String::new();
          for m in months_of_year(y) {
            s.push_str(&format!("{} {} {} {} {}\n", y, m.get_month_with_leap(), crate::p03::first_jdn(&m), m.get_day_count(), m.get_index_in_year()));
          }
          Some(s)
        });
        if line != REFUSED { write!(w, "{}", line).unwrap(); } else { writeln!(w, "{} refused", y).unwrap(); }
      }
    }
    // y i qiDay termDay sod    for y in 1..=10000, i in 0..24
    //   qiDay  = calendar-making (cursory) day as noon-based day number
    //   termDay/sod = civil day number and second-of-day of the precise instant as reported by
    //   get_julian_day().get_solar_time(); `0 0` when that instant is not representable (year 0 / 10000)
    "eph.terms" => {
      for y in 1i64..=10000 {
        for i in 0i64..24 {
          let t = SolarTerm::from_index(y as isize, i as isize);
          let qi = t.get_cursory_julian_day() as i64 + 2451545;
          let rest = guard(|| {
            let st = t.get_julian_day().get_solar_time();
            let d = st.get_solar_day();
            Some(format!("{} {}", jdn_of(&d), st.get_hour() * 3600 + st.get_minute() * 60 + st.get_second()))
          });
          let rest = if rest == REFUSED { "0 0".to_string() } else { rest };
          writeln!(w, "{} {} {} {}", y, i, qi, rest).unwrap();
        }
      }
    }
    _ => { return false; }
  }
  true
}
