// C15: term-anchored day series (Nines, Dog days, Plum rains, pentads, commanding stem)
use std::io::Write;
use tyme4rs::tyme::solar::SolarDay;
use crate::util::*;

const OPS: &[&str] = &["nine", "dog", "plum", "pheno", "hide", "series"];

pub fn exec(op: &str, a: &[i64]) -> Option<Option<String>> {
  if OPS.contains(&op) { Some(go(op, a)) } else { None }
}

fn nine(d: &SolarDay) -> Option<String> {
  Some(match d.get_nine_day() { None => "-".to_string(), Some(x) => format!("{} {}", x.get_nine().get_index(), x.get_day_index()) })
}
fn dog(d: &SolarDay) -> Option<String> {
  Some(match d.get_dog_day() { None => "-".to_string(), Some(x) => format!("{} {}", x.get_dog().get_index(), x.get_day_index()) })
}
fn plum(d: &SolarDay) -> Option<String> {
  Some(match d.get_plum_rain_day() { None => "-".to_string(), Some(x) => format!("{} {}", x.get_plum_rain().get_index(), x.get_day_index()) })
}
fn pheno(d: &SolarDay) -> Option<String> {
  let x = d.get_phenology_day();
  let p = x.get_phenology();
  Some(format!("{} {} {}", p.get_index(), p.get_three_phenology().get_index(), x.get_day_index()))
}
fn hide(d: &SolarDay) -> Option<String> {
  let x = d.get_hide_heaven_stem_day();
  let h = x.get_hide_heaven_stem();
  Some(format!("{} {} {}", h.get_heaven_stem().get_index(), h.get_type() as usize, x.get_day_index()))
}

/// all five, each guarded on its own (a refusal of one series does not hide the others)
fn series(d: &SolarDay) -> String {
  format!("N {} D {} P {} F {} H {}", guard(|| nine(d)), guard(|| dog(d)), guard(|| plum(d)), guard(|| pheno(d)), guard(|| hide(d)))
}

fn go(op: &str, a: &[i64]) -> Option<String> {
  if a.len() != 3 { return Some("bad-op".to_string()); }
  let d = solar_day(a[0], a[1], a[2])?;
  match op {
    "nine" => nine(&d),
    "dog" => dog(&d),
    "plum" => plum(&d),
    "pheno" => pheno(&d),
    "hide" => hide(&d),
    "series" => Some(series(&d)),
    _ => Some("bad-op".to_string()),
  }
}

pub fn run_enum(name: &str, args: &[String], w: &mut dyn Write) -> bool {
  match name {
    // every civil day of the selected years: y m d N <nine> D <dog> P <plum> F <pentad> H <commanding stem>
    "c15.days" => {
      let years: Vec<i64> = (1..=9999).filter(|y| year_selected(*y, args)).collect();
      par_years(&years, w, |y| {
        let mut out = String::new();
        for m in 1i64..=12 { for d in 1i64..=31 {
          if let Some(sd) = solar_day(y, m, d) {
            out.push_str(&format!("{} {} {} {}\n", y, m, d, series(&sd)));
          }
        }}
        out
      });
    }
    _ => { return false; }
  }
  true
}
