// Verification harness for tyme4rs: executes the real library in-process.
//   tymeh exec            : line protocol on stdin -> one response line per request
//   tymeh enum <stream>   : stream a whole finite domain in canonical order
// Err and panic both canonicalise to `refused`.
// One module per property group; each exposes
//   pub fn exec(op: &str, a: &[i64]) -> Option<Option<String>>   (None = op not mine; Some(None) = refused)
//   pub fn run_enum(name: &str, args: &[String], w: &mut dyn Write) -> bool   (false = stream not mine)
mod util;
mod p01;
mod p03;
mod peph;
mod p12;
mod p06;
mod p19;
mod p07;
mod p04;
mod p18;
mod p09;
mod p14;
mod p10;
mod p20;
mod p05;
mod p11;
mod p16;
mod p15;
mod p14b;
mod p17;
mod p13;
// MODULES (keep this list and the two dispatch tables below in sync)

use std::io::{self, BufRead, Write, BufWriter};

pub fn dispatch_exec(op: &str, a: &[i64]) -> Option<String> {
  if let Some(r) = p01::exec(op, a) { return r; }
  if let Some(r) = p03::exec(op, a) { return r; }
  if let Some(r) = p12::exec(op, a) { return r; }
  if let Some(r) = p06::exec(op, a) { return r; }
  if let Some(r) = p19::exec(op, a) { return r; }
  if let Some(r) = p07::exec(op, a) { return r; }
  if let Some(r) = p04::exec(op, a) { return r; }
  if let Some(r) = p18::exec(op, a) { return r; }
  if let Some(r) = p09::exec(op, a) { return r; }
  if let Some(r) = p14::exec(op, a) { return r; }
  if let Some(r) = p10::exec(op, a) { return r; }
  if let Some(r) = p20::exec(op, a) { return r; }
  if let Some(r) = p05::exec(op, a) { return r; }
  if let Some(r) = p11::exec(op, a) { return r; }
  if let Some(r) = p16::exec(op, a) { return r; }
  if let Some(r) = p15::exec(op, a) { return r; }
  if let Some(r) = p14b::exec(op, a) { return r; }
  if let Some(r) = p17::exec(op, a) { return r; }
  if let Some(r) = p13::exec(op, a) { return r; }
  // DISPATCH-EXEC
  Some("bad-op".to_string())
}

pub fn dispatch_enum(name: &str, args: &[String], w: &mut dyn Write) -> bool {
  if p01::run_enum(name, args, w) { return true; }
  if p03::run_enum(name, args, w) { return true; }
  if peph::run_enum(name, args, w) { return true; }
  if p12::run_enum(name, args, w) { return true; }
  if p06::run_enum(name, args, w) { return true; }
  if p19::run_enum(name, args, w) { return true; }
  if p07::run_enum(name, args, w) { return true; }
  if p04::run_enum(name, args, w) { return true; }
  if p18::run_enum(name, args, w) { return true; }
  if p09::run_enum(name, args, w) { return true; }
  if p14::run_enum(name, args, w) { return true; }
  if p10::run_enum(name, args, w) { return true; }
  if p20::run_enum(name, args, w) { return true; }
  if p05::run_enum(name, args, w) { return true; }
  if p11::run_enum(name, args, w) { return true; }
  if p16::run_enum(name, args, w) { return true; }
  if p15::run_enum(name, args, w) { return true; }
  if p14b::run_enum(name, args, w) { return true; }
  if p17::run_enum(name, args, w) { return true; }
  if p13::run_enum(name, args, w) { return true; }
  // DISPATCH-ENUM
  false
}

fn main() {
  std::panic::set_hook(Box::new(|_| {}));
  let args: Vec<String> = std::env::args().collect();
  let out = io::stdout();
  let mut w = BufWriter::with_capacity(1 << 20, out.lock());
  match args.get(1).map(|s| s.as_str()) {
    Some("exec") => {
      let stdin = io::stdin();
      for line in stdin.lock().lines() {
        let line = line.unwrap();
        let t = line.trim();
        if t.is_empty() { continue; }
        let r = util::exec_line(t);
        writeln!(w, "{}", r).unwrap();
      }
    }
    Some("enum") => {
      let name = args.get(2).expect("stream name");
      let rest: Vec<String> = args[3..].to_vec();
      if !dispatch_enum(name, &rest, &mut w) {
        eprintln!("unknown stream {}", name);
        std::process::exit(2);
      }
    }
    _ => {
      eprintln!("usage: tymeh exec | enum <stream> [args]");
      std::process::exit(2);
    }
  }
  w.flush().unwrap();
}
