// Verification harness for tyme4rs: executes the real library in-process.
//   tymeh exec            : line protocol on stdin -> one response line per request
//   tymeh enum <stream>   : stream a whole finite domain in canonical order
// Err and panic both canonicalise to `refused`.
mod ops;
mod enums;
mod ops2;
mod enums2;

use std::io::{self, BufRead, Write, BufWriter};

fn main() {
  std::panic::set_hook(Box::new(|_| {}));
  let args: Vec<String> = std::env::args().collect();
  let out = io::stdout();
  let mut w = BufWriter::with_capacity(1 << 20, out.lock());
  match args.get(1).map(|s| s.as_str()) {
    Some("exec") => {
      let stdin = io::stdin();
      for line in stdin.lock().lines() {
        let line = line.unwrap();
        let t = line.trim();
        if t.is_empty() { continue; }
        let r = ops::exec_line(t);
        writeln!(w, "{}", r).unwrap();
      }
    }
    Some("enum") => {
      let name = args.get(2).expect("stream name");
      let rest: Vec<String> = args[3..].to_vec();
      enums::run(name, &rest, &mut w);
    }
    _ => {
      eprintln!("usage: tymeh exec | enum <stream> [args]");
      std::process::exit(2);
    }
  }
  w.flush().unwrap();
}
