// Verification harness for tyme4rs: executes the real library in-process.
//   tymeh exec            : line protocol on stdin -> one response line per request
//   tymeh enum <stream>   : stream a whole finite domain in canonical order
// Err and panic both canonicalise to `refused`.
// One module per property group; each exposes
//   pub fn exec(op: &str, a: &[i64]) -> Option<Option<String>>   (None = op not mine; Some(None) = refused)
//   pub fn run_enum(name: &str, args: &[String], w: &mut dyn Write) -> bool   (false = stream not mine)
mod util;
mod p01;
mod p03;
mod peph;
mod p12;
mod p06;
mod p19;
mod p07;
mod p04;
mod p18;
mod p09;
mod p14;
mod p10;
mod p20;
mod p05;
mod p11;
mod p16;
mod p15;
mod p14b;
mod p17;
mod p13;
mod peq;
// MODULES (keep this list and the two dispatch tables below in sync)

use std::io::{self, BufRead, Write, BufWriter};

pub fn dispatch_exec(op: &str, a: &[i64]) -> Option<String> {
  if let Some(r) = p01::exec(op, a) { return r; }
  if let Some(r) = p03::exec(op, a) { return r; }
  if let Some(r) = p12::exec(op, a) { return r; }
  if let Some(r) = p06::exec(op, a) { return r; }
  if let Some(r) = p19::exec(op, a) { return r; }
  if let Some(r) = p07::exec(op, a) { return r; }
  if let Some(r) = p04::exec(op, a) { return r; }
  if let Some(r) = p18::exec(op, a) { return r; }
  if let Some(r) = p09::exec(op, a) { return r; }
  if let Some(r) = p14::exec(op, a) { return r; }
  if let Some(r) = p10::exec(op, a) { return r; }
  if let Some(r) = p20::exec(op, a) { return r; }
  if let Some(r) = p05::exec(op, a) { return r; }
  if let Some(r) = p11::exec(op, a) { return r; }
  if let Some(r) = p16::exec(op, a) { return r; }
  if let Some(r) = p15::exec(op, a) { return r; }
  if let Some(r) = p14b::exec(op, a) { return r; }
  if let Some(r) = p17::exec(op, a) { return r; }
  if let Some(r) = p13::exec(op, a) { return r; }
  if let Some(r) = peq::exec(op, a) { return r; }
  // DISPATCH-EXEC
  Some("bad-op".to_string())
}

pub fn dispatch_enum(name: &str, args: &[String], w: &mut dyn Write) -> bool {
  if p01::run_enum(name, args, w) { return true; }
  if p03::run_enum(name, args, w) { return true; }
  if peph::run_enum(name, args, w) { return true; }
  if p12::run_enum(name, args, w) { return true; }
  if p06::run_enum(name, args, w) { return true; }
  if p19::run_enum(name, args, w) { return true; }
  if p07::run_enum(name, args, w) { return true; }
  if p04::run_enum(name, args, w) { return true; }
  if p18::run_enum(name, args, w) { return true; }
  if p09::run_enum(name, args, w) { return true; }
  if p14::run_enum(name, args, w) { return true; }
  if p10::run_enum(name, args, w) { return true; }
  if p20::run_enum(name, args, w) { return true; }
  if p05::run_enum(name, args, w) { return true; }
  if p11::run_enum(name, args, w) { return true; }
  if p16::run_enum(name, args, w) { return true; }
  if p15::run_enum(name, args, w) { return true; }
  if p14b::run_enum(name, args, w) { return true; }
  if p17::run_enum(name, args, w) { return true; }
  if p13::run_enum(name, args, w) { return true; }
  // DISPATCH-ENUM
  false
}

fn main() {
  std::panic::set_hook(Box::new(|_| {}));
  let args: Vec<String> = std::env::args().collect();
  let out = io::stdout();
  let mut w = BufWriter::with_capacity(1 << 20, out.lock());
  match args.get(1).map(|s| s.as_str()) {
    Some("exec") => {
      let stdin = io::stdin();
      for line in stdin.lock().lines() {
        let line = line.unwrap();
        let t = line.trim();
        if t.is_empty() { continue; }
        let r = util::exec_line(t);
        writeln!(w, "{}", r).unwrap();
      }
    }
    // `pairs`: interference test. For every request A on stdin: its answer alone (fresh thread, lunar-month memo reset), then,
    // for every NEIGHBOUR request B (one argument of A perturbed; the same arguments under another op name of the batch; the
    // date carried across New Year), the answer of A right after B in a fresh thread. One output line per request: `ok <n>` or
    // `DIFF after <B> : <answer> instead of <answer alone>`. A memo with too coarse a key, a one-entry "same as last time"
    // cache, a value kept across a refusal — all show up as a DIFF.
    Some("pairs") => {
      let stdin = io::stdin();
      let lines: Vec<String> = stdin.lock().lines().map(|l| l.unwrap().trim().to_string()).filter(|l| !l.is_empty()).collect();
      // op names and arities present in the batch (for the cross-op neighbours)
      let mut kinds: Vec<(String, usize)> = Vec::new();
      for l in &lines {
        let p: Vec<&str> = l.split_whitespace().collect();
        let k = (p[0].to_string(), p.len() - 1);
        if !kinds.contains(&k) && kinds.len() < 12 { kinds.push(k); }
      }
      let fresh = |seq: Vec<String>| -> String {
        tyme4rs::tyme::lunar::verif_lunar_month_cache_reset();
        std::thread::spawn(move || { let mut last = String::new(); for s in &seq { last = util::exec_line_plain(s); } last })
          .join().unwrap_or_else(|_| "THREAD-PANIC".to_string())
      };
      for a in &lines {
        let p: Vec<&str> = a.split_whitespace().collect();
        let op = p[0];
        let args: Vec<i64> = match p[1..].iter().map(|x| x.parse::<i64>()).collect::<Result<Vec<_>, _>>() { Ok(v) => v, Err(_) => { writeln!(w, "ok 0").unwrap(); continue; } };
        let alone = fresh(vec![a.clone()]);
        let mut neigh: Vec<String> = Vec::new();
        let fmt = |o: &str, v: &[i64]| -> String { let mut s = o.to_string(); for x in v { s.push(' '); s.push_str(&x.to_string()); } s };
        for i in 0..args.len() {
          let v = args[i];
          for nv in [v + 1, v - 1, v + 60, v - 60, -v, 0, 1, 4, 12, 15, 23, 28, 31, v + 12, v - 12, v + 1000, v - 1000] {
            if nv == v { continue; }
            let mut b = args.clone(); b[i] = nv;
            let s = fmt(op, &b);
            if !neigh.contains(&s) { neigh.push(s); }
          }
        }
        if args.len() >= 3 && (1..=9999).contains(&args[0]) && (1..=12).contains(&args[1].abs()) {
          for (dy, m2, d2) in [(1i64, 1i64, args[2]), (1, 1, 11), (-1, 12, args[2]), (-1, 12, 25), (0, 12, 25), (0, 12, 31), (0, 1, 6), (0, args[1], 1)] {
            let mut b = args.clone(); b[0] += dy; b[1] = m2; b[2] = d2;
            let s = fmt(op, &b);
            if !neigh.contains(&s) { neigh.push(s); }
          }
        }
        for (ko, ka) in &kinds {
          if ko == op { continue; }
          let mut b: Vec<i64> = args.iter().cloned().take(*ka).collect();
          let pad = [10i64, 0, 0, 1, 0, 0, 0];
          while b.len() < *ka { let k = b.len().min(6); b.push(pad[k]); }
          neigh.push(fmt(ko, &b));
        }
        let mut verdict = format!("ok {}", neigh.len());
        for b in neigh {
          let r = fresh(vec![b.clone(), a.clone()]);
          if r != alone { verdict = format!("DIFF after {} : {} instead of {}", b, r, alone); break; }
        }
        writeln!(w, "{}", verdict).unwrap();
      }
    }
    Some("enum") => {
      let name = args.get(2).expect("stream name");
      let rest: Vec<String> = args[3..].to_vec();
      if !dispatch_enum(name, &rest, &mut w) {
        eprintln!("unknown stream {}", name);
        std::process::exit(2);
      }
    }
    _ => {
      eprintln!("usage: tymeh exec | enum <stream> [args]");
      std::process::exit(2);
    }
  }
  w.flush().unwrap();
}
