use std::panic::{catch_unwind, AssertUnwindSafe};
use tyme4rs::tyme::solar::SolarDay;

pub const REFUSED: &str = "refused";

/// run f; Err / None / panic all become `refused`
pub fn guard<F: FnOnce() -> Option<String>>(f: F) -> String {
  match catch_unwind(AssertUnwindSafe(f)) {
    Ok(Some(s)) => s,
    Ok(None) => REFUSED.to_string(),
    Err(_) => REFUSED.to_string(),
  }
}

pub fn ints(a: &[&str]) -> Option<Vec<i64>> {
  let mut v = Vec::new();
  for s in a { v.push(s.parse::<i64>().ok()?); }
  Some(v)
}

/// usize arguments: a negative value cannot be passed to the API at all (type-level refusal)
pub fn us(x: i64) -> Option<usize> { if x < 0 { None } else { Some(x as usize) } }

pub fn solar_day(y: i64, m: i64, d: i64) -> Option<SolarDay> {
  SolarDay::new(y as isize, us(m)?, us(d)?).ok()
}

/// noon-based integer day number of a civil day (get_julian_day().day + 0.5)
pub fn jdn_of(d: &SolarDay) -> i64 {
  (d.get_julian_day().get_day() + 0.5).floor() as i64
}

pub fn fmt_day(d: &SolarDay) -> String { format!("{} {} {}", d.get_year(), d.get_month(), d.get_day()) }

pub fn exec_line(line: &str) -> String {
  let parts: Vec<&str> = line.split_whitespace().collect();
  let op = parts[0];
  let a = match ints(&parts[1..]) { Some(v) => v, None => return "bad-op".to_string() };
  if noise_enabled() {
    // history pass: before answering, make unusual but legitimate calls about the same year(s) and, when the request starts
    // with a civil date, every view of that date; answers must not change
    for v in a.iter().take(2) { if (1..=9999).contains(v) { noise_year(*v); } }
    if a.len() >= 3 && (1..=9999).contains(&a[0]) && (1..=12).contains(&a[1]) && (1..=31).contains(&a[2]) {
      noise_date(a[0], a[1], a[2], if a.len() >= 4 { a[3] } else { 12 });
    }
  }
  guard(|| crate::dispatch_exec(op, &a))
}

/// the same without any history (used by the pairs mode)
pub fn exec_line_plain(line: &str) -> String {
  let parts: Vec<&str> = line.split_whitespace().collect();
  if parts.is_empty() { return "bad-op".to_string(); }
  let a = match ints(&parts[1..]) { Some(v) => v, None => return "bad-op".to_string() };
  guard(|| crate::dispatch_exec(parts[0], &a))
}

/// A battery of getters on the civil date (y, m, d), its lunar date, its sexagenary views and the instant at hour h — every
/// public view the library derives from a date. Made BEFORE a real query about the same date; none of it may change the answer.
pub fn noise_date(y: i64, m: i64, d: i64, h: i64) {
  use tyme4rs::tyme::solar::{SolarDay, SolarTime};
  use tyme4rs::tyme::Tyme;
  let q = |f: &dyn Fn()| { let _ = std::panic::catch_unwind(std::panic::AssertUnwindSafe(|| f())); };
  let (yi, mu, du) = (y as isize, m as usize, d as usize);
  if SolarDay::new(yi, mu, du).is_err() { return; }
  q(&|| { let x = SolarDay::from_ymd(yi, mu, du); let _ = x.get_term_day(); let _ = x.get_term(); let _ = x.get_phenology_day(); let _ = x.get_hide_heaven_stem_day(); });
  q(&|| { let x = SolarDay::from_ymd(yi, mu, du); let _ = x.get_nine_day(); let _ = x.get_dog_day(); let _ = x.get_plum_rain_day(); let _ = x.get_constellation(); let _ = x.get_festival(); let _ = x.get_legal_holiday(); });
  q(&|| { let x = SolarDay::from_ymd(yi, mu, du); let _ = x.get_week(); let _ = x.get_index_in_year(); let _ = x.get_solar_week(0); let _ = x.next(1); let _ = x.next(-1); });
  q(&|| { let l = SolarDay::from_ymd(yi, mu, du).get_lunar_day(); let _ = l.get_solar_day(); let _ = l.get_sixty_cycle(); let _ = l.get_festival(); let _ = l.get_week(); let _ = l.get_six_star(); let _ = l.get_phase(); let _ = l.next(1); let _ = l.get_hours(); });
  q(&|| { let l = SolarDay::from_ymd(yi, mu, du).get_lunar_day(); let _ = l.get_duty(); let _ = l.get_twelve_star(); let _ = l.get_nine_star(); let _ = l.get_twenty_eight_star(); let _ = l.get_gods(); let _ = l.get_recommends(); let _ = l.get_avoids(); let _ = l.get_fetus_day(); let _ = l.get_minor_ren(); });
  q(&|| { let v = SolarDay::from_ymd(yi, mu, du).get_sixty_cycle_day(); let _ = v.get_year(); let _ = v.get_month(); let _ = v.get_duty(); let _ = v.get_nine_star(); let _ = v.get_gods(); let _ = v.next(1); let _ = v.get_hours(); });
  if (0..=23).contains(&h) {
    q(&|| { let t = SolarTime::from_ymd_hms(yi, mu, du, h as usize, 30, 0); let _ = t.get_term(); let _ = t.get_julian_day(); let _ = t.next(3600); let lh = t.get_lunar_hour(); let _ = lh.get_eight_char(); let _ = lh.get_sixty_cycle(); let _ = lh.get_nine_star(); let _ = lh.get_twelve_star(); let _ = lh.next(1); });
    q(&|| { let v = SolarTime::from_ymd_hms(yi, mu, du, h as usize, 30, 0).get_sixty_cycle_hour(); let _ = v.get_year(); let _ = v.get_sixty_cycle_day(); let _ = v.get_nine_star(); let _ = v.get_twelve_star(); let _ = v.get_eight_char(); let _ = v.next(1); });
  }
}


pub fn noise_enabled() -> bool {
  static ON: std::sync::OnceLock<bool> = std::sync::OnceLock::new();
  *ON.get_or_init(|| std::env::var("TYMEH_NOISE").map(|v| v == "1").unwrap_or(false))
}

/// A battery of unusual but legitimate (or refused) calls about year y — wrapped indices, refused months and days, values
/// reached through other views — made BEFORE a real query. None of them may influence any later answer (C10); a memo
/// keyed or filled wrongly by one of them shows up as a difference from the history-free run.
pub fn noise_year(y: i64) {
  use tyme4rs::tyme::solar::{SolarTerm, SolarMonth, SolarYear};
  use tyme4rs::tyme::lunar::{LunarMonth, LunarYear, LunarDay};
  use tyme4rs::tyme::sixtycycle::{SixtyCycleMonth, SixtyCycleYear};
  use tyme4rs::tyme::festival::{LunarFestival, SolarFestival};
  let yi = y as isize;
  let q = |f: &dyn Fn()| { let _ = std::panic::catch_unwind(std::panic::AssertUnwindSafe(|| f())); };
  for i in [-30isize, -1, 24, 25, 47, 60] { q(&|| { let t = SolarTerm::from_index(yi, i); let _ = t.get_cursory_julian_day(); }); }
  for k in [0isize, 11, 12, -1] { q(&|| { let m = SixtyCycleMonth::from_index(yi, k); let _ = m.get_first_day(); let _ = m.get_index_in_year(); }); }
  q(&|| { let _ = SixtyCycleYear::from_year(yi).get_first_month(); });
  for m in [13isize, 0, -13, -1, 12] { q(&|| { let _ = LunarMonth::new(yi, m).map(|x| x.get_day_count()); }); }
  q(&|| { let ly = LunarYear::from_year(yi); let _ = ly.get_leap_month(); let _ = ly.get_month_count(); });
  q(&|| { let _ = LunarDay::new(yi, 1, 31); });
  q(&|| { let _ = LunarDay::new(yi, 12, 30).map(|d| d.get_solar_day()); });
  q(&|| { let _ = tyme4rs::tyme::solar::SolarDay::new(yi, 2, 30); });
  q(&|| { let _ = SolarMonth::new(yi, 13); let _ = SolarYear::new(yi + 10000); });
  q(&|| { let _ = LunarFestival::from_index(yi, 12); let _ = LunarFestival::from_index(yi, 13); let _ = SolarFestival::from_index(yi, 10); });
}

/// run `f(y)` for every y in `years` on all cores and write the results in order.
/// Each call is wrapped in catch_unwind by the caller's closure where needed.
pub fn par_years<F>(years: &[i64], w: &mut dyn std::io::Write, f: F)
where F: Fn(i64) -> String + Sync {
  let n = std::thread::available_parallelism().map(|x| x.get()).unwrap_or(4).min(16);
  let chunk = 64usize;
  let mut pos = 0usize;
  while pos < years.len() {
    let end = (pos + chunk * n).min(years.len());
    let slice = &years[pos..end];
    let parts: Vec<String> = std::thread::scope(|s| {
      let hs: Vec<_> = slice.chunks(chunk).map(|c| {
        let fr = &f;
        s.spawn(move || { let mut out = String::new(); for y in c { out.push_str(&fr(*y)); } out })
      }).collect();
      hs.into_iter().map(|h| h.join().unwrap_or_else(|_| "THREAD-PANIC\n".to_string())).collect()
    });
    for p in parts { w.write_all(p.as_bytes()).unwrap(); }
    pos = end;
  }
}

/// years visited by the sampled tiers: quick = ..=300, every 10th year, 1575..=1590 and the last 3; `all` = all
pub fn year_selected(y: i64, args: &[String]) -> bool {
  let all = args.get(0).map(|s| s == "all").unwrap_or(false);
  all || y <= 300 || y % 10 == 0 || y >= 9997 || (1575..=1590).contains(&y) || extra_year(y, args)
}

/// `extra=y1,y2,...`: years added to the sample by the check (years with a term instant within seconds of midnight or noon,
/// taken from this run's dump): the fragile days of the day-level look-ups
pub fn extra_year(y: i64, args: &[String]) -> bool {
  let ys = y.to_string();
  args.iter().any(|a| a.strip_prefix("extra=").map(|l| l.split(',').any(|t| t == ys)).unwrap_or(false))
}
