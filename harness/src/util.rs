use std::panic::{catch_unwind, AssertUnwindSafe};
use tyme4rs::tyme::solar::SolarDay;

pub const REFUSED: &str = "refused";

/// run f; Err / None / panic all become `refused`
pub fn guard<F: FnOnce() -> Option<String>>(f: F) -> String {
  match catch_unwind(AssertUnwindSafe(f)) {
    Ok(Some(s)) => s,
    Ok(None) => REFUSED.to_string(),
    Err(_) => REFUSED.to_string(),
  }
}

pub fn ints(a: &[&str]) -> Option<Vec<i64>> {
  let mut v = Vec::new();
  for s in a { v.push(s.parse::<i64>().ok()?); }
  Some(v)
}

/// usize arguments: a negative value cannot be passed to the API at all (type-level refusal)
pub fn us(x: i64) -> Option<usize> { if x < 0 { None } else { Some(x as usize) } }

pub fn solar_day(y: i64, m: i64, d: i64) -> Option<SolarDay> {
  SolarDay::new(y as isize, us(m)?, us(d)?).ok()
}

/// noon-based integer day number of a civil day (get_julian_day().day + 0.5)
pub fn jdn_of(d: &SolarDay) -> i64 {
  (d.get_julian_day().get_day() + 0.5).floor() as i64
}

pub fn fmt_day(d: &SolarDay) -> String { format!("{} {} {}", d.get_year(), d.get_month(), d.get_day()) }

pub fn exec_line(line: &str) -> String {
  let parts: Vec<&str> = line.split_whitespace().collect();
  let op = parts[0];
  let a = match ints(&parts[1..]) { Some(v) => v, None => return "bad-op".to_string() };
  guard(|| crate::dispatch_exec(op, &a))
}

/// run `f(y)` for every y in `years` on all cores and write the results in order.
/// Each call is wrapped in catch_unwind by the caller's closure where needed.
pub fn par_years<F>(years: &[i64], w: &mut dyn std::io::Write, f: F)
where F: Fn(i64) -> String + Sync {
  let n = std::thread::available_parallelism().map(|x| x.get()).unwrap_or(4).min(16);
  let chunk = 64usize;
  let mut pos = 0usize;
  while pos < years.len() {
    let end = (pos + chunk * n).min(years.len());
    let slice = &years[pos..end];
    let parts: Vec<String> = std::thread::scope(|s| {
      let hs: Vec<_> = slice.chunks(chunk).map(|c| {
        let fr = &f;
        s.spawn(move || { let mut out = String::new(); for y in c { out.push_str(&fr(*y)); } out })
      }).collect();
      hs.into_iter().map(|h| h.join().unwrap_or_else(|_| "THREAD-PANIC\n".to_string())).collect()
    });
    for p in parts { w.write_all(p.as_bytes()).unwrap(); }
    pos = end;
  }
}

/// years visited by the sampled tiers: quick = ..=300, every 10th year, 1575..=1590 and the last 3; `all` = all
pub fn year_selected(y: i64, args: &[String]) -> bool {
  let all = args.get(0).map(|s| s == "all").unwrap_or(false);
  all || y <= 300 || y % 10 == 0 || y >= 9997 || (1575..=1590).contains(&y)
}
