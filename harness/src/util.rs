use std::panic::{catch_unwind, AssertUnwindSafe};
use tyme4rs::tyme::solar::SolarDay;

pub const REFUSED: &str = "refused";

/// run f; Err / None / panic all become `refused`
pub fn guard<F: FnOnce() -> Option<String>>(f: F) -> String {
  match catch_unwind(AssertUnwindSafe(f)) {
    Ok(Some(s)) => s,
    Ok(None) => REFUSED.to_string(),
    Err(_) => REFUSED.to_string(),
  }
}

pub fn ints(a: &[&str]) -> Option<Vec<i64>> {
  let mut v = Vec::new();
  for s in a { v.push(s.parse::<i64>().ok()?); }
  Some(v)
}

/// usize arguments: a negative value cannot be passed to the API at all (type-level refusal)
pub fn us(x: i64) -> Option<usize> { if x < 0 { None } else { Some(x as usize) } }

pub fn solar_day(y: i64, m: i64, d: i64) -> Option<SolarDay> {
  SolarDay::new(y as isize, us(m)?, us(d)?).ok()
}

/// noon-based integer day number of a civil day (get_julian_day().day + 0.5)
pub fn jdn_of(d: &SolarDay) -> i64 {
  (d.get_julian_day().get_day() + 0.5).floor() as i64
}

pub fn fmt_day(d: &SolarDay) -> String { format!("{} {} {}", d.get_year(), d.get_month(), d.get_day()) }

pub fn exec_line(line: &str) -> String {
  let parts: Vec<&str> = line.split_whitespace().collect();
  let op = parts[0];
  let a = match ints(&parts[1..]) { Some(v) => v, None => return "bad-op".to_string() };
  guard(|| crate::dispatch_exec(op, &a))
}
