// C10: history / refusal / schedule independence of the lunar-month memo and everything built on it
use std::io::Write;
use tyme4rs::tyme::{Culture, Tyme};
use tyme4rs::tyme::lunar::{LunarDay, LunarHour, LunarMonth, verif_lunar_month_cache_keys, verif_lunar_month_cache_reset};
use crate::util::*;
use crate::p03::fmt_month;

const OPS: &[&str] = &["cache.reset", "cache.keys", "cache.threads", "c10.objhist"];

pub fn exec(op: &str, a: &[i64]) -> Option<Option<String>> {
  if OPS.contains(&op) { Some(go(op, a)) } else { None }
}

fn xorshift(s: &mut u64) -> u64 { *s ^= *s << 13; *s ^= *s >> 7; *s ^= *s << 17; *s }

fn go(op: &str, a: &[i64]) -> Option<String> {
  match (op, a.len()) {
    ("cache.reset", 0) => { verif_lunar_month_cache_reset(); Some("ok".into()) }
    // the memo's key set, sorted
    ("cache.keys", 0) => { let k = verif_lunar_month_cache_keys(); Some(format!("{} {}", k.len(), k.join(","))) }
    // seed nthreads nops: every thread issues nops from_ym queries drawn from a small pool with colliding
    // digit pairs and invalid requests; every answer is compared with the uncached constructor's answer.
    ("cache.threads", 3) => {
      verif_lunar_month_cache_reset();
      let pool: Vec<(i64, i64)> = vec![(1, 12), (11, 2), (1, 11), (11, 1), (2, 11), (21, 1), (2, 12), (21, 2), (202, 3), (20, 23), (2023, 2), (2023, -2),
        (2023, 13), (2024, 0), (2020, -4), (2020, 4), (2020, -5), (100, 10), (1001, 0), (10, 1), (101, 1), (1, 1), (9999, 12), (0, 1), (-1, 1), (10000, 1),
        (123, 4), (12, 34), (1, 2), (1, 3), (12, 3), (1, 23), (33, 3), (3, 33), (333, 3), (33, 33), (8, 12), (9, 1), (24, 1), (239, -11)];
      let cold: Vec<String> = pool.iter().map(|(y, m)| guard(|| { let x = LunarMonth::new(*y as isize, *m as isize).ok()?; Some(fmt_month(&x)) })).collect();
      let nthreads = a[1].max(1) as usize;
      let nops = a[2].max(1) as usize;
      let seed = a[0] as u64;
      let bad: Vec<String> = std::thread::scope(|s| {
        let hs: Vec<_> = (0..nthreads).map(|t| {
          let pool = &pool; let cold = &cold;
          s.spawn(move || {
            let mut st = seed.wrapping_mul(0x9E3779B97F4A7C15).wrapping_add(t as u64 + 1) | 1;
            let mut bad = Vec::new();
            for _ in 0..nops {
              let i = (xorshift(&mut st) % pool.len() as u64) as usize;
              let (y, m) = pool[i];
              let r = guard(|| { let x = LunarMonth::from_ym(y as isize, m as isize); Some(fmt_month(&x)) });
              if r != cold[i] && bad.len() < 3 { bad.push(format!("thread{}:from_ym({},{})={}!={}", t, y, m, r, cold[i])); }
            }
            bad
          })
        }).collect();
        hs.into_iter().flat_map(|h| h.join().unwrap_or_else(|_| vec!["thread-panic".to_string()])).collect()
      });
      if bad.is_empty() { Some(format!("ok {} answers", nthreads * nops)) } else { Some(format!("MISMATCH {}", bad.join(";").replace(' ', "_"))) }
    }
    // kind seed len y m d h mi s: a pseudo-random history of queries, clones and steps on ONE LunarHour (kind 0) or
    // LunarDay (kind 1) value whose lazily filled per-object memos accumulate, compared after every operation with
    // the same operation on a value rebuilt from its numbers (empty memos). "ok" or the first difference with the history.
    ("c10.objhist", 9) => {
      let mut st = (a[1] as u64).wrapping_mul(0x9E3779B97F4A7C15) | 1;
      let len = a[2].clamp(1, 200) as usize;
      let steps: [isize; 14] = [1, -1, 2, -2, 3, 5, -5, 6, 11, 12, -12, 13, 40, -700];
      let mut hist: Vec<String> = Vec::new();
      if a[0] == 0 {
        let mut x = LunarHour::new(a[3] as isize, a[4] as isize, us(a[5])?, us(a[6])?, us(a[7])?, us(a[8])?).ok()?;
        let fields = |h: &LunarHour| (h.get_year(), h.get_month(), h.get_day(), h.get_hour(), h.get_minute(), h.get_second());
        let fresh = |h: &LunarHour| { let f = fields(h); LunarHour::from_ymd_hms(f.0, f.1, f.2, f.3, f.4, f.5) };
        let q = |k: u64, h: &LunarHour| -> String { match k {
          0 => { let t = h.get_solar_time(); format!("{} {} {} {} {} {}", t.get_year(), t.get_month(), t.get_day(), t.get_hour(), t.get_minute(), t.get_second()) }
          1 => { let v = h.get_sixty_cycle_hour(); format!("{} {} {} {}", v.get_year().get_index(), v.get_month().get_index(), v.get_day().get_index(), v.get_sixty_cycle().get_index()) }
          2 => { let e = h.get_eight_char(); format!("{} {} {} {}", e.get_year().get_index(), e.get_month().get_index(), e.get_day().get_index(), e.get_hour().get_index()) }
          3 => format!("{} {}", h.get_sixty_cycle().get_index(), h.get_index_in_day()),
          4 => format!("{} {}", h.get_twelve_star().get_index(), h.get_minor_ren().get_index()),
          _ => { let r: Vec<String> = h.get_recommends().iter().map(|t| t.get_name()).collect(); let v: Vec<String> = h.get_avoids().iter().map(|t| t.get_name()).collect(); format!("{}/{}", r.join(","), v.join(",")) }
        } };
        for i in 0..len {
          let r = xorshift(&mut st);
          let kind = r % 10;
          if kind < 5 {
            let k = (r >> 8) % 6;
            hist.push(format!("q{}", k));
            let (w, f) = (q(k, &x), q(k, &fresh(&x)));
            if w != f { return Some(format!("DIFF step={} hist={} kept={} rebuilt={}", i, hist.join(","), w.replace(' ', "_"), f.replace(' ', "_"))); }
          } else if kind < 9 {
            let n = steps[((r >> 8) % 14) as usize];
            hist.push(format!("next({})", n));
            let (w, f) = (x.next(n), fresh(&x).next(n));
            if fields(&w) != fields(&f) { return Some(format!("DIFF step={} hist={} kept={:?} rebuilt={:?}", i, hist.join(","), fields(&w), fields(&f)).replace(", ", "_")); }
            x = w;
          } else {
            hist.push("clone".into());
            x = x.clone();
          }
        }
        Some("ok".into())
      } else if a[0] == 1 {
        let mut x = LunarDay::new(a[3] as isize, a[4] as isize, us(a[5])?).ok()?;
        let fields = |h: &LunarDay| (h.get_year(), h.get_month(), h.get_day());
        let fresh = |h: &LunarDay| { let f = fields(h); LunarDay::from_ymd(f.0, f.1, f.2) };
        let q = |k: u64, h: &LunarDay| -> String { match k {
          0 => { let t = h.get_solar_day(); format!("{} {} {}", t.get_year(), t.get_month(), t.get_day()) }
          1 => { let v = h.get_sixty_cycle_day(); format!("{} {} {}", v.get_year().get_index(), v.get_month().get_index(), v.get_sixty_cycle().get_index()) }
          2 => format!("{} {}", h.get_sixty_cycle().get_index(), h.get_week().get_index()),
          3 => format!("{} {} {}", h.get_duty().get_index(), h.get_twelve_star().get_index(), h.get_twenty_eight_star().get_index()),
          _ => { let r: Vec<String> = h.get_gods().iter().map(|t| t.get_name()).collect(); r.join(",") }
        } };
        for i in 0..len {
          let r = xorshift(&mut st);
          let kind = r % 10;
          if kind < 5 {
            let k = (r >> 8) % 5;
            hist.push(format!("q{}", k));
            let (w, f) = (q(k, &x), q(k, &fresh(&x)));
            if w != f { return Some(format!("DIFF step={} hist={} kept={} rebuilt={}", i, hist.join(","), w.replace(' ', "_"), f.replace(' ', "_"))); }
          } else if kind < 9 {
            let n = steps[((r >> 8) % 14) as usize];
            hist.push(format!("next({})", n));
            let (w, f) = (x.next(n), fresh(&x).next(n));
            if fields(&w) != fields(&f) { return Some(format!("DIFF step={} hist={} kept={:?} rebuilt={:?}", i, hist.join(","), fields(&w), fields(&f)).replace(", ", "_")); }
            x = w;
          } else {
            hist.push("clone".into());
            x = x.clone();
          }
        }
        Some("ok".into())
      } else { None }
    }
    _ => Some("bad-op".to_string()),
  }
}

pub fn run_enum(name: &str, args: &[String], w: &mut dyn Write) -> bool {
  match name {
    // every lunation of every year through the memoised constructor, asked a SECOND time in the same process: the first pass
    // (discarded) fills the memo, the lines printed are warm hits decoded from the memo — they must be the cold answers
    "c10.warm" => {
      let mut sink: Vec<u8> = Vec::new();
      crate::p03::run_enum("c03.months", args, &mut sink);
      crate::p03::run_enum("c03.months", args, w);
      true
    }
    _ => false,
  }
}
