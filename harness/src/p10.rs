// C10: history / refusal / schedule independence of the lunar-month memo and everything built on it
use std::io::Write;
use tyme4rs::tyme::lunar::{LunarMonth, verif_lunar_month_cache_keys, verif_lunar_month_cache_reset};
use crate::util::*;
use crate::p03::fmt_month;

const OPS: &[&str] = &["cache.reset", "cache.keys", "cache.threads"];

pub fn exec(op: &str, a: &[i64]) -> Option<Option<String>> {
  if OPS.contains(&op) { Some(go(op, a)) } else { None }
}

fn xorshift(s: &mut u64) -> u64 { *s ^= *s << 13; *s ^= *s >> 7; *s ^= *s << 17; *s }

fn go(op: &str, a: &[i64]) -> Option<String> {
  match (op, a.len()) {
    ("cache.reset", 0) => { verif_lunar_month_cache_reset(); Some("ok".into()) }
    // the memo's key set, sorted
    ("cache.keys", 0) => { let k = verif_lunar_month_cache_keys(); Some(format!("{} {}", k.len(), k.join(","))) }
    // seed nthreads nops: every thread issues nops from_ym queries drawn from a small pool with colliding
    // digit pairs and invalid requests; every answer is compared with the uncached constructor's answer.
    ("cache.threads", 3) => {
      verif_lunar_month_cache_reset();
      let pool: Vec<(i64, i64)> = vec![(1, 12), (11, 2), (1, 11), (11, 1), (2, 11), (21, 1), (2, 12), (21, 2), (202, 3), (20, 23), (2023, 2), (2023, -2),
        (2023, 13), (2024, 0), (2020, -4), (2020, 4), (2020, -5), (100, 10), (1001, 0), (10, 1), (101, 1), (1, 1), (9999, 12), (0, 1), (-1, 1), (10000, 1),
        (123, 4), (12, 34), (1, 2), (1, 3), (12, 3), (1, 23), (33, 3), (3, 33), (333, 3), (33, 33), (8, 12), (9, 1), (24, 1), (239, -11)];
      let cold: Vec<String> = pool.iter().map(|(y, m)| guard(|| { let x = LunarMonth::new(*y as isize, *m as isize).ok()?; Some(fmt_month(&x)) })).collect();
      let nthreads = a[1].max(1) as usize;
      let nops = a[2].max(1) as usize;
      let seed = a[0] as u64;
      let bad: Vec<String> = std::thread::scope(|s| {
        let hs: Vec<_> = (0..nthreads).map(|t| {
          let pool = &pool; let cold = &cold;
          s.spawn(move || {
            let mut st = seed.wrapping_mul(0x9E3779B97F4A7C15).wrapping_add(t as u64 + 1) | 1;
            let mut bad = Vec::new();
            for _ in 0..nops {
              let i = (xorshift(&mut st) % pool.len() as u64) as usize;
              let (y, m) = pool[i];
              let r = guard(|| { let x = LunarMonth::from_ym(y as isize, m as isize); Some(fmt_month(&x)) });
              if r != cold[i] && bad.len() < 3 { bad.push(format!("thread{}:from_ym({},{})={}!={}", t, y, m, r, cold[i])); }
            }
            bad
          })
        }).collect();
        hs.into_iter().flat_map(|h| h.join().unwrap_or_else(|_| vec!["thread-panic".to_string()])).collect()
      });
      if bad.is_empty() { Some(format!("ok {} answers", nthreads * nops)) } else { Some(format!("MISMATCH {}", bad.join(";").replace(' ', "_"))) }
    }
    _ => Some("bad-op".to_string()),
  }
}

pub fn run_enum(_name: &str, _args: &[String], _w: &mut dyn Write) -> bool { false }
