// C11: stepping is a group action (cyclic culture types + linear units), index <-> name lookups
use std::io::Write;
use tyme4rs::tyme::{Culture, Tyme};
use tyme4rs::tyme::culture::*;
use tyme4rs::tyme::culture::dog::Dog;
use tyme4rs::tyme::culture::fetus::{FetusEarthBranch, FetusHeavenStem, FetusMonth};
use tyme4rs::tyme::culture::nine::Nine;
use tyme4rs::tyme::culture::peng_zu::{PengZuEarthBranch, PengZuHeavenStem};
use tyme4rs::tyme::culture::phenology::{Phenology, ThreePhenology};
use tyme4rs::tyme::culture::plumrain::PlumRain;
use tyme4rs::tyme::culture::ren::minor::MinorRen;
use tyme4rs::tyme::culture::star::nine::{Dipper, NineStar};
use tyme4rs::tyme::culture::star::seven::SevenStar;
use tyme4rs::tyme::culture::star::six::SixStar;
use tyme4rs::tyme::culture::star::ten::TenStar;
use tyme4rs::tyme::culture::star::twelve::{Ecliptic, TwelveStar};
use tyme4rs::tyme::culture::star::twenty_eight::TwentyEightStar;
use tyme4rs::tyme::eightchar::{ChildLimit, DecadeFortune, Fortune};
use tyme4rs::tyme::enums::{FestivalType, Gender, HideHeavenStemType, Side, YinYang};
use tyme4rs::tyme::festival::{LunarFestival, SolarFestival};
use tyme4rs::tyme::jd::JulianDay;
use tyme4rs::tyme::lunar::{LunarDay, LunarHour, LunarMonth, LunarSeason, LunarWeek, LunarYear};
use tyme4rs::tyme::sixtycycle::{EarthBranch, HeavenStem, SixtyCycle, SixtyCycleDay, SixtyCycleHour, SixtyCycleMonth, SixtyCycleYear};
use tyme4rs::tyme::solar::{SolarHalfYear, SolarMonth, SolarSeason, SolarTerm, SolarTime, SolarWeek, SolarYear};
use crate::util::*;

/// one cyclic (LoopTyme-based) type, observed only through its public API
pub struct Cyc {
  pub id: &'static str,
  pub size: fn() -> usize,
  pub idx: fn(isize) -> usize,
  pub next: fn(isize, isize) -> usize,
  pub name: fn(isize) -> String,
  pub from_name: Option<fn(&str) -> usize>,
  /// the library's own `==` and `!=` on two values built from indices
  pub eq: fn(isize, isize) -> (bool, bool),
}

macro_rules! cyc {
  ($t:ty, $id:expr) => {
    Cyc {
      id: $id,
      size: || <$t>::from_index(0).get_size(),
      idx: |i| <$t>::from_index(i).get_index(),
      next: |i, n| <$t>::from_index(i).next(n).get_index(),
      name: |i| <$t>::from_index(i).get_name(),
      from_name: Some(|s| <$t>::from_name(s).get_index()),
      eq: |i, j| { let (x, y) = (<$t>::from_index(i), <$t>::from_index(j)); (x == y, x != y) },
    }
  };
  ($t:ty, $id:expr, noname) => {
    Cyc {
      id: $id,
      size: || <$t>::from_index(0).get_size(),
      idx: |i| <$t>::from_index(i).get_index(),
      next: |i, n| <$t>::from_index(i).next(n).get_index(),
      name: |i| <$t>::from_index(i).get_name(),
      from_name: None,
      eq: |i, j| { let (x, y) = (<$t>::from_index(i), <$t>::from_index(j)); (x == y, x != y) },
    }
  };
}

/// every type of /repo/src/tyme whose `parent` is a LoopTyme (order = type number in the line protocol;
/// the Lean model has the same table with the sizes written by hand)
pub fn cycs() -> Vec<Cyc> {
  vec![
    cyc!(HeavenStem, "HeavenStem"),
    cyc!(EarthBranch, "EarthBranch"),
    cyc!(SixtyCycle, "SixtyCycle"),
    cyc!(Animal, "Animal"),
    cyc!(Beast, "Beast"),
    cyc!(Constellation, "Constellation"),
    cyc!(Direction, "Direction"),
    cyc!(Duty, "Duty"),
    cyc!(Element, "Element"),
    cyc!(God, "God"),
    cyc!(Land, "Land"),
    cyc!(Luck, "Luck"),
    cyc!(Phase, "Phase"),
    cyc!(Sixty, "Sixty"),
    cyc!(Sound, "Sound"),
    cyc!(Taboo, "Taboo"),
    cyc!(Ten, "Ten"),
    cyc!(Terrain, "Terrain"),
    cyc!(Twenty, "Twenty"),
    cyc!(Week, "Week"),
    cyc!(Zodiac, "Zodiac"),
    cyc!(Zone, "Zone"),
    cyc!(Dog, "Dog"),
    cyc!(FetusHeavenStem, "FetusHeavenStem", noname),
    cyc!(FetusEarthBranch, "FetusEarthBranch", noname),
    cyc!(FetusMonth, "FetusMonth", noname),
    cyc!(Nine, "Nine"),
    cyc!(PengZuHeavenStem, "PengZuHeavenStem"),
    cyc!(PengZuEarthBranch, "PengZuEarthBranch"),
    cyc!(Phenology, "Phenology"),
    cyc!(ThreePhenology, "ThreePhenology"),
    cyc!(PlumRain, "PlumRain"),
    cyc!(MinorRen, "MinorRen"),
    cyc!(Dipper, "Dipper"),
    cyc!(NineStar, "NineStar"),
    cyc!(SevenStar, "SevenStar"),
    cyc!(SixStar, "SixStar"),
    cyc!(TenStar, "TenStar"),
    cyc!(Ecliptic, "Ecliptic"),
    cyc!(TwelveStar, "TwelveStar"),
    cyc!(TwentyEightStar, "TwentyEightStar"),
    cyc!(LunarSeason, "LunarSeason"),
  ]
}

/// the five plain enums with code <-> name lookups (not steppable)
pub struct En {
  pub id: &'static str,
  pub name: fn(usize) -> Option<String>,
  pub from_name: fn(&str) -> Option<usize>,
}

macro_rules! en {
  ($t:ty, $id:expr) => {
    En {
      id: $id,
      name: |c| <$t>::from_code(c).ok().map(|x| x.get_name()),
      from_name: |s| <$t>::from_name(s).ok().map(|x| x as usize),
    }
  };
}

pub fn enums() -> Vec<En> {
  vec![en!(FestivalType, "FestivalType"), en!(HideHeavenStemType, "HideHeavenStemType"), en!(Gender, "Gender"), en!(Side, "Side"), en!(YinYang, "YinYang")]
}

/// deterministic pseudo-random step counts shared with the Lean driver (64-bit LCG, top bits, signed, |n| < 2^40)
pub fn lcg(x: u64) -> u64 { x.wrapping_mul(6364136223846793005).wrapping_add(1442695040888963407) }
pub fn lcg_step(x: u64) -> i64 { ((x >> 23) as i64 & ((1i64 << 41) - 1)) - (1i64 << 40) }

/// step counts tried on every element of a cycle of size s (t = type number, i = element)
pub fn nset(s: i64, t: u64, i: u64) -> Vec<i64> {
  let mut v = vec![0, 1, -1, s, -s, s + 1, -(s + 1), s - 1, -(s - 1), 2 * s, -2 * s, 1000003, -1000003, 1i64 << 40, -(1i64 << 40)];
  let mut x = lcg(t * 1000 + i + 12345);
  for _ in 0..6 { x = lcg(x); v.push(lcg_step(x)); }
  v
}

/// index window for from_index: negative, in-range and large values
pub fn kset(s: i64) -> Vec<i64> {
  let mut v = Vec::new();
  for k in -(2 * s + 2)..=(2 * s + 2) { v.push(k); }
  for k in [1000003i64, -1000003, 1i64 << 40, -(1i64 << 40), 999999999989, -999999999989] { v.push(k); v.push(k + 1); }
  v
}

/// first character of name i + the rest of name j, for i != j, both at least two characters long (tables up to 64 names)
pub fn recombinations(names: &[String]) -> Vec<(usize, usize, String)> {
  let mut out = Vec::new();
  if names.len() > 64 { return out; }
  for i in 0..names.len() { for j in 0..names.len() {
    if i == j { continue; }
    let a: Vec<char> = names[i].chars().collect(); let b: Vec<char> = names[j].chars().collect();
    if a.len() < 2 || b.len() < 2 { continue; }
    let probe: String = std::iter::once(a[0]).chain(b[1..].iter().cloned()).collect();
    out.push((i, j, probe));
  }}
  out
}

pub fn bogus(first: &str, k: usize) -> String {
  match k {
    0 => "".to_string(),
    1 => "?".to_string(),
    2 => format!("{}?", first),
    3 => format!("?{}", first),
    _ => format!("{}{}", first, first),
  }
}

fn g1<F: FnOnce() -> String + std::panic::UnwindSafe>(f: F) -> String {
  match std::panic::catch_unwind(f) { Ok(s) => s, Err(_) => REFUSED.to_string() }
}

// ---------- linear units ----------

fn half(y: i64, i: i64) -> Option<SolarHalfYear> { SolarHalfYear::new(y as isize, us(i)?).ok() }
fn season(y: i64, i: i64) -> Option<SolarSeason> { SolarSeason::new(y as isize, us(i)?).ok() }
fn month(y: i64, m: i64) -> Option<SolarMonth> { SolarMonth::new(y as isize, us(m)?).ok() }
fn term(y: i64, i: i64) -> SolarTerm { SolarTerm::from_index(y as isize, i as isize) }
fn scmonth(y: i64, k: i64) -> SixtyCycleMonth { SixtyCycleMonth::from_index(y as isize, k as isize) }
fn sweek(y: i64, m: i64, i: i64, s: i64) -> Option<SolarWeek> { SolarWeek::new(y as isize, us(m)?, us(i)?, us(s)?).ok() }
fn lweek(y: i64, m: i64, i: i64, s: i64) -> Option<LunarWeek> { LunarWeek::new(y as isize, m as isize, us(i)?, us(s)?).ok() }
fn lmonth(y: i64, m: i64) -> Option<LunarMonth> { LunarMonth::new(y as isize, m as isize).ok() }
fn lday(y: i64, m: i64, d: i64) -> Option<LunarDay> { LunarDay::new(y as isize, m as isize, us(d)?).ok() }
fn lhour(y: i64, m: i64, d: i64, h: i64, mi: i64, s: i64) -> Option<LunarHour> { LunarHour::new(y as isize, m as isize, us(d)?, us(h)?, us(mi)?, us(s)?).ok() }
fn stime(y: i64, m: i64, d: i64, h: i64, mi: i64, s: i64) -> Option<SolarTime> { SolarTime::new(y as isize, us(m)?, us(d)?, us(h)?, us(mi)?, us(s)?).ok() }

fn f_half(x: &SolarHalfYear) -> String { format!("{} {}", x.get_year(), x.get_index()) }
fn f_season(x: &SolarSeason) -> String { format!("{} {}", x.get_year(), x.get_index()) }
fn f_month(x: &SolarMonth) -> String { format!("{} {}", x.get_year(), x.get_month()) }
fn f_term(x: &SolarTerm) -> String { format!("{} {}", x.get_year(), x.get_index()) }
fn f_scmonth(x: &SixtyCycleMonth) -> String { format!("{} {} {}", x.get_sixty_cycle_year().get_year(), x.get_sixty_cycle().get_index(), x.get_index_in_year()) }
fn f_sweek(x: &SolarWeek) -> String { format!("{} s{}", fmt_day(&x.get_first_day()), x.get_start().get_index()) }
fn f_lday(x: &LunarDay) -> String { format!("{} {} {}", x.get_year(), x.get_month(), x.get_day()) }
fn f_lweek(x: &LunarWeek) -> String { format!("{} s{}", f_lday(&x.get_first_day()), x.get_start().get_index()) }
fn f_lmonth(x: &LunarMonth) -> String { format!("{} {}", x.get_year(), x.get_month_with_leap()) }
fn f_lhour(x: &LunarHour) -> String { format!("{} {} {} {} {} {}", x.get_year(), x.get_month(), x.get_day(), x.get_hour(), x.get_minute(), x.get_second()) }
fn f_stime(x: &SolarTime) -> String { format!("{} {} {} {} {} {}", x.get_year(), x.get_month(), x.get_day(), x.get_hour(), x.get_minute(), x.get_second()) }
fn f_sfest(x: &SolarFestival) -> String { format!("{} {}", x.get_day().get_year(), x.get_index()) }
fn f_lfest(x: &LunarFestival) -> String { format!("{} {}", x.get_day().get_year(), x.get_index()) }
fn f_scday(x: &SixtyCycleDay) -> String { format!("{} {}", fmt_day(&x.get_solar_day()), x.get_sixty_cycle().get_index()) }
fn f_schour(x: &SixtyCycleHour) -> String { format!("{} {}", f_stime(&x.get_solar_time()), x.get_sixty_cycle().get_index()) }

/// the three laws through the real API; a step that is refused (Err/panic) makes the law vacuous.
/// returns "ok" / "vac" / "fail ..."
fn laws<T, S: Fn(&T, isize) -> Option<T>, F: Fn(&T) -> String>(x: Option<T>, a: i64, b: i64, step: S, fmt: F) -> String {
  let x = match x { Some(x) => x, None => return "vac".to_string() };
  let st = |v: &T, n: i64| -> Option<T> {
    match std::panic::catch_unwind(std::panic::AssertUnwindSafe(|| step(v, n as isize))) { Ok(r) => r, Err(_) => None }
  };
  let sx = g1(std::panic::AssertUnwindSafe(|| fmt(&x)));
  let mut vac = false;
  let mut bad: Vec<String> = Vec::new();
  // step 0
  match st(&x, 0) {
    Some(z) => { let s = fmt(&z); if s != sx { bad.push(format!("next(0)=[{}] x=[{}]", s, sx)); } }
    None => { vac = true; }
  }
  match st(&x, a) {
    Some(xa) => {
      match (st(&xa, b), st(&x, a + b)) {
        (Some(p), Some(q)) => { let (s, t) = (fmt(&p), fmt(&q)); if s != t { bad.push(format!("next(a).next(b)=[{}] next(a+b)=[{}]", s, t)); } }
        _ => { vac = true; }
      }
      match st(&xa, -a) {
        Some(r) => { let s = fmt(&r); if s != sx { bad.push(format!("next(a).next(-a)=[{}] x=[{}]", s, sx)); } }
        None => { vac = true; }
      }
    }
    None => { vac = true; }
  }
  if !bad.is_empty() { format!("fail {}", bad.join("; ")) } else if vac { "vac".to_string() } else { "ok".to_string() }
}

fn child_limit(a: &[i64]) -> Option<ChildLimit> {
  let t = stime(a[0], a[1], a[2], a[3], a[4], a[5])?;
  let g = Gender::from_code(us(a[6])?).ok()?;
  Some(ChildLimit::from_solar_time(t, g))
}

fn law_unit(unit: &str, a: &[i64]) -> Option<String> {
  let n = a.len();
  if n < 3 { return None; }
  let (sa, sb) = (a[n - 2], a[n - 1]);
  let p = &a[..n - 2];
  let r = match (unit, p.len()) {
    ("syear", 1) => laws(SolarYear::new(p[0] as isize).ok(), sa, sb, |x, k| Some(x.next(k)), |x| format!("{}", x.get_year())),
    ("half", 2) => laws(half(p[0], p[1]), sa, sb, |x, k| Some(x.next(k)), f_half),
    ("season", 2) => laws(season(p[0], p[1]), sa, sb, |x, k| Some(x.next(k)), f_season),
    ("month", 2) => laws(month(p[0], p[1]), sa, sb, |x, k| Some(x.next(k)), f_month),
    ("sweek", 4) => laws(sweek(p[0], p[1], p[2], p[3]), sa, sb, |x, k| Some(x.next(k)), f_sweek),
    ("sday", 3) => laws(solar_day(p[0], p[1], p[2]), sa, sb, |x, k| Some(x.next(k)), |x| fmt_day(x)),
    ("stime", 6) => laws(stime(p[0], p[1], p[2], p[3], p[4], p[5]), sa, sb, |x, k| Some(x.next(k)), f_stime),
    ("jd", 1) => laws(Some(JulianDay::from_julian_day(p[0] as f64 + 0.5)), sa, sb, |x, k| Some(x.next(k)), |x| format!("{}", x.get_day())),
    ("term", 2) => laws(Some(term(p[0], p[1])), sa, sb, |x, k| { let r = x.next(k); if r.get_year() < 1 || r.get_year() > 9999 { None } else { Some(r) } }, f_term),
    ("lyear", 1) => laws(LunarYear::new(p[0] as isize).ok(), sa, sb, |x, k| Some(x.next(k)), |x| format!("{}", x.get_year())),
    ("lmonth", 2) => laws(lmonth(p[0], p[1]), sa, sb, |x, k| Some(x.next(k)), f_lmonth),
    ("lweek", 4) => laws(lweek(p[0], p[1], p[2], p[3]), sa, sb, |x, k| Some(x.next(k)), f_lweek),
    ("lday", 3) => laws(lday(p[0], p[1], p[2]), sa, sb, |x, k| Some(x.next(k)), f_lday),
    ("lhour", 6) => laws(lhour(p[0], p[1], p[2], p[3], p[4], p[5]), sa, sb, |x, k| Some(x.next(k)), f_lhour),
    ("scyear", 1) => laws(SixtyCycleYear::new(p[0] as isize).ok(), sa, sb, |x, k| Some(x.next(k)), |x| format!("{}", x.get_year())),
    ("scmonth", 2) => laws(Some(scmonth(p[0], p[1])), sa, sb, |x, k| Some(x.next(k)), f_scmonth),
    ("scday", 3) => laws(solar_day(p[0], p[1], p[2]).map(SixtyCycleDay::from_solar_day), sa, sb, |x, k| Some(x.next(k)), f_scday),
    ("schour", 6) => laws(stime(p[0], p[1], p[2], p[3], p[4], p[5]).map(SixtyCycleHour::from_solar_time), sa, sb, |x, k| Some(x.next(k)), f_schour),
    ("sfest", 2) => laws(SolarFestival::from_index(p[0] as isize, us(p[1])?), sa, sb, |x, k| x.next(k), f_sfest),
    ("lfest", 2) => laws(LunarFestival::from_index(p[0] as isize, us(p[1])?), sa, sb, |x, k| x.next(k), f_lfest),
    ("decade", 8) => laws(child_limit(p).map(|c| DecadeFortune::from_child_limit(c, p[7] as isize)), sa, sb, |x, k| Some(x.next(k)), |x| format!("{}", x.get_index())),
    ("fortune", 8) => laws(child_limit(p).map(|c| Fortune::from_child_limit(c, p[7] as isize)), sa, sb, |x, k| Some(x.next(k)), |x| format!("{}", x.get_index())),
    _ => return Some("bad-op".to_string()),
  };
  Some(r)
}

const OPS: &[&str] = &["cyc.next", "cyc.idx", "cyc.size", "syear.next", "lyear.next", "scyear.next", "half.next", "season.next", "month.next",
  "c11.term.next", "c11.term.idx", "scmonth.next", "scmonth.idx", "c08.scm", "c11.sfest.next", "c11.sfest.idx", "c11.lfest.next", "fortune.next", "decade.next"];

pub fn exec(op: &str, a: &[i64]) -> Option<Option<String>> {
  if OPS.contains(&op) { return Some(go(op, a)); }
  // a panic while constructing the start value is a refusal too: the law is vacuous
  let lawc = |u: &str| -> Option<String> {
    match std::panic::catch_unwind(std::panic::AssertUnwindSafe(|| law_unit(u, a))) { Ok(r) => r, Err(_) => Some("vac".to_string()) }
  };
  if let Some(u) = op.strip_prefix("law.") {
    // vacuous (a step refused) counts as held: the property only speaks about results in range
    return Some(lawc(u).map(|s| if s == "vac" { "ok".to_string() } else { s }));
  }
  if let Some(u) = op.strip_prefix("lawv.") { return Some(lawc(u)); }
  None
}

fn go(op: &str, a: &[i64]) -> Option<String> {
  match (op, a.len()) {
    ("cyc.size", 1) => { let t = cycs(); let c = t.get(us(a[0])?)?; Some(format!("{}", (c.size)())) }
    ("cyc.idx", 2) => { let t = cycs(); let c = t.get(us(a[0])?)?; Some(format!("{}", (c.idx)(a[1] as isize))) }
    ("cyc.next", 3) => { let t = cycs(); let c = t.get(us(a[0])?)?; Some(format!("{}", (c.next)(a[1] as isize, a[2] as isize))) }
    ("syear.next", 2) => { let x = SolarYear::new(a[0] as isize).ok()?; Some(format!("{}", x.next(a[1] as isize).get_year())) }
    ("lyear.next", 2) => { let x = LunarYear::new(a[0] as isize).ok()?; Some(format!("{}", x.next(a[1] as isize).get_year())) }
    ("scyear.next", 2) => { let x = SixtyCycleYear::new(a[0] as isize).ok()?; Some(format!("{}", x.next(a[1] as isize).get_year())) }
    ("half.next", 3) => { let x = half(a[0], a[1])?; Some(f_half(&x.next(a[2] as isize))) }
    ("season.next", 3) => { let x = season(a[0], a[1])?; Some(f_season(&x.next(a[2] as isize))) }
    ("month.next", 3) => { let x = month(a[0], a[1])?; Some(f_month(&x.next(a[2] as isize))) }
    // SolarTerm has no range check of its own: start and result are canonicalised to the supported years 1..9999
    // (below year 1 the property is silent; see notes/C11.md, D15)
    ("c11.term.idx", 2) => { let x = term(a[0], a[1]); if x.get_year() < 1 || x.get_year() > 9999 { None } else { Some(f_term(&x)) } }
    ("c11.term.next", 3) => {
      let x = term(a[0], a[1]);
      if x.get_year() < 1 || x.get_year() > 9999 { return None; }
      let r = x.next(a[2] as isize);
      if r.get_year() < 1 || r.get_year() > 9999 { None } else { Some(f_term(&r)) }
    }
    ("scmonth.idx", 2) => { Some(f_scmonth(&scmonth(a[0], a[1]))) }
    ("scmonth.next", 3) => { Some(f_scmonth(&scmonth(a[0], a[1]).next(a[2] as isize))) }
    // the same for C08 (which compares two response fields): "pillar/index-in-year year"
    ("c08.scm", 3) => { let x = scmonth(a[0], a[1]).next(a[2] as isize); Some(format!("{}/{} {}", x.get_sixty_cycle().get_index(), x.get_index_in_year(), x.get_sixty_cycle_year().get_year())) }
    ("c11.sfest.idx", 2) => { let x = SolarFestival::from_index(a[0] as isize, us(a[1])?)?; Some(f_sfest(&x)) }
    ("c11.sfest.next", 3) => { let x = SolarFestival::from_index(a[0] as isize, us(a[1])?)?; Some(f_sfest(&x.next(a[2] as isize)?)) }
    ("c11.lfest.next", 3) => { let x = LunarFestival::from_index(a[0] as isize, us(a[1])?)?; Some(f_lfest(&x.next(a[2] as isize)?)) }
    ("fortune.next", 9) => { let c = child_limit(a)?; Some(format!("{}", Fortune::from_child_limit(c, a[7] as isize).next(a[8] as isize).get_index())) }
    ("decade.next", 9) => { let c = child_limit(a)?; Some(format!("{}", DecadeFortune::from_child_limit(c, a[7] as isize).next(a[8] as isize).get_index())) }
    _ => Some("bad-op".to_string()),
  }
}

fn bytes_of(s: &str) -> String { s.as_bytes().iter().map(|b| b.to_string()).collect::<Vec<_>>().join(" ") }

/// years on which the linear-unit grids are evaluated: fixed boundary years plus every `step`-th year
pub fn grid_years(step: i64) -> Vec<i64> {
  let mut v: Vec<i64> = Vec::new();
  for y in [1i64, 2, 3, 4, 5, 9, 10, 59, 60, 61, 1581, 1582, 1583, 1932, 1933, 1934, 1940, 1941, 1942, 1949, 1950, 1951, 1978, 1979, 1980, 1984, 1985, 1986,
    1999, 2000, 2024, 9995, 9996, 9997, 9998, 9999] { v.push(y); }
  let mut y = 7; while y <= 9999 { v.push(y); y += step; }
  v.sort();
  v.dedup();
  v
}

fn step_arg(args: &[String], default: i64) -> i64 {
  for a in args { if let Some(r) = a.strip_prefix("step=") { if let Ok(k) = r.parse::<i64>() { if k >= 1 { return k; } } } }
  default
}

/// step counts for a linear unit with `size` parts per year at position (y, i)
pub fn lin_nset(size: i64, y: i64, i: i64, salt: u64) -> Vec<i64> {
  let p = size * y + i;
  let top = size * 9999 + size - 1;
  let mut v = vec![0, 1, -1, size, -size, size + 1, -(size + 1), size - 1, -(size - 1), 1000003, -1000003];
  for d in -(size + 2)..=(size + 2) { v.push(-p + d); v.push(size - p + d); }   // totals around 0 and around year 1
  for d in -2..=(size + 2) { v.push(top - p + d); }                               // the upper end
  let mut x = lcg(salt + (y as u64) * 64 + i as u64);
  for _ in 0..4 { x = lcg(x); v.push(lcg_step(x) % (2 * top)); }
  v
}

pub fn run_enum(name: &str, args: &[String], w: &mut dyn Write) -> bool {
  match name {
    // Gen source: every type's size and name list (UTF-8 bytes)
    "c11.namedump" => {
      for c in cycs() {
        let s = (c.size)();
        writeln!(w, "T {} {} {}", c.id, s, if c.from_name.is_some() { 1 } else { 0 }).unwrap();
        for i in 0..s { writeln!(w, "N {}", bytes_of(&(c.name)(i as isize))).unwrap(); }
      }
      for e in enums() {
        let mut names = Vec::new();
        let mut c = 0usize;
        while let Some(nm) = (e.name)(c) { names.push(nm); c += 1; if c > 1000 { break; } }
        writeln!(w, "E {} {} 1", e.id, names.len()).unwrap();
        for nm in names { writeln!(w, "N {}", bytes_of(&nm)).unwrap(); }
      }
    }
    // every element x boundary/large/pseudo-random n; from_index on a window of negative and large k
    "c11.cyc" => {
      for (t, c) in cycs().iter().enumerate() {
        let s = (c.size)() as i64;
        writeln!(w, "{} size {}", c.id, s).unwrap();
        for k in kset(s) {
          let r = g1(|| format!("{}", (c.idx)(k as isize)));
          writeln!(w, "{} idx {} {}", c.id, k, r).unwrap();
        }
        for i in 0..s {
          for n in nset(s, t as u64, i as u64) {
            let r = g1(|| format!("{}", (c.next)(i as isize, n as isize)));
            writeln!(w, "{} next {} {} {}", c.id, i, n, r).unwrap();
          }
        }
      }
    }
    // index <-> name: from_name(get_name(i)) for every element, unknown names, enum codes
    "c11.names" => {
      for c in cycs() {
        let s = (c.size)();
        if let Some(fnm) = c.from_name {
          for i in 0..s {
            let nm = (c.name)(i as isize);
            let r = g1(|| format!("{}", fnm(&nm)));
            writeln!(w, "{} name {} {}", c.id, i, r).unwrap();
          }
          let first = (c.name)(0);
          for k in 0..5 {
            let b = bogus(&first, k);
            let r = g1(|| format!("{}", fnm(&b)));
            writeln!(w, "{} unknown {} {}", c.id, k, r).unwrap();
          }
          // recombinations: first character of name i + the rest of name j (for two-part names such as stem+branch this
          // enumerates every pairing, most of which are NOT names and must be refused)
          let names: Vec<String> = (0..s).map(|i| (c.name)(i as isize)).collect();
          for (i, j, probe) in recombinations(&names) {
            let r = g1(|| format!("{}", fnm(&probe)));
            writeln!(w, "{} recomb {} {} {}", c.id, i, j, r).unwrap();
          }
        }
      }
      for e in enums() {
        let mut c = 0usize;
        let mut first = String::new();
        loop {
          match (e.name)(c) {
            Some(nm) => {
              if c == 0 { first = nm.clone(); }
              let r = match (e.from_name)(&nm) { Some(j) => format!("{}", j), None => REFUSED.to_string() };
              writeln!(w, "{} name {} {}", e.id, c, r).unwrap();
            }
            None => { writeln!(w, "{} code {} refused", e.id, c).unwrap(); break; }
          }
          c += 1;
        }
        for k in 0..5 {
          let b = bogus(&first, k);
          let r = match (e.from_name)(&b) { Some(j) => format!("{}", j), None => REFUSED.to_string() };
          writeln!(w, "{} unknown {} {}", e.id, k, r).unwrap();
        }
        let names: Vec<String> = (0..c).map(|i| (e.name)(i).unwrap()).collect();
        for (i, j, probe) in recombinations(&names) {
          let r = match (e.from_name)(&probe) { Some(x) => format!("{}", x), None => REFUSED.to_string() };
          writeln!(w, "{} recomb {} {} {}", e.id, i, j, r).unwrap();
        }
      }
    }
    // linear units with the carry pattern: grid of years x every index x boundary / pseudo-random n
    "c11.units" => {
      let years = grid_years(step_arg(args, 97));
      for &y in &years {
        for i in 0..2 { for n in lin_nset(2, y, i, 1) {
          let r = g1(|| match half(y, i) { Some(x) => f_half(&x.next(n as isize)), None => REFUSED.to_string() });
          writeln!(w, "half {} {} {} {}", y, i, n, r).unwrap();
        } }
        for i in 0..4 { for n in lin_nset(4, y, i, 2) {
          let r = g1(|| match season(y, i) { Some(x) => f_season(&x.next(n as isize)), None => REFUSED.to_string() });
          writeln!(w, "season {} {} {} {}", y, i, n, r).unwrap();
        } }
        for i in 0..12 { for n in lin_nset(12, y, i, 3) {
          let r = g1(|| match month(y, i + 1) { Some(x) => f_month(&x.next(n as isize)), None => REFUSED.to_string() });
          writeln!(w, "month {} {} {} {}", y, i + 1, n, r).unwrap();
        } }
        for n in lin_nset(1, y, 0, 4) {
          let r = g1(|| format!("{}", SolarYear::from_year(y as isize).next(n as isize).get_year()));
          writeln!(w, "syear {} {} {}", y, n, r).unwrap();
          let r = g1(|| format!("{}", LunarYear::from_year(y as isize).next(n as isize).get_year()));
          writeln!(w, "lyear {} {} {}", y, n, r).unwrap();
          let r = g1(|| format!("{}", SixtyCycleYear::from_year(y as isize).next(n as isize).get_year()));
          writeln!(w, "scyear {} {} {}", y, n, r).unwrap();
        }
      }
    }
    // SolarTerm (results canonicalised to years 1..9999) and SixtyCycleMonth: each construction costs a term computation
    "c11.units2" => {
      let years = grid_years(step_arg(args, 97));
      for &y in &years {
        for i in 0..24 { for (k, n) in lin_nset(24, y, i, 6).into_iter().enumerate() {
          if k % 3 != 0 && n.abs() > 30 && (24 * y + i + n).abs() > 60 { continue; }
          let r = g1(|| { let z = term(y, i).next(n as isize); if z.get_year() < 1 || z.get_year() > 9999 { REFUSED.to_string() } else { f_term(&z) } });
          writeln!(w, "term {} {} {} {}", y, i, n, r).unwrap();
        } }
        for i in 0..12 { for n in lin_nset(12, y, i, 7) {
          let r = g1(|| f_scmonth(&scmonth(y, i).next(n as isize)));
          writeln!(w, "scmonth {} {} {} {}", y, i, n, r).unwrap();
        } }
      }
      // sexagenary years 0 and -1 are accepted by the type
      for y in [-1i64, 0] { for i in 0..12 { for n in -40..=40 {
        let r = g1(|| f_scmonth(&scmonth(y, i).next(n as isize)));
        writeln!(w, "scmonth {} {} {} {}", y, i, n, r).unwrap();
      } } }
      // from_index with an index outside 0..23 (canonicalised to years 1..9999)
      for y in [-2i64, -1, 0, 1, 2, 3, 1582, 2024, 9998, 9999, 10000] { for i in -60..=60 {
        let r = g1(|| { let x = term(y, i); if x.get_year() < 1 || x.get_year() > 9999 { REFUSED.to_string() } else { f_term(&x) } });
        writeln!(w, "termidx {} {} {}", y, i, r).unwrap();
      } }
    }
    // festivals: existence of every (year, index) on the grid and steps from it
    "c11.fest" => {
      let step = step_arg(args, 97);
      let lall = args.iter().any(|a| a == "lall");
      let mut years = grid_years(step * 4);   // each SolarFestival construction compiles a regex
      for y in 1930..=1990 { years.push(y); }
      years.sort(); years.dedup();
      for &y in &years {
        for i in 0..10i64 {
          let r = g1(|| match SolarFestival::from_index(y as isize, i as usize) { Some(x) => f_sfest(&x), None => REFUSED.to_string() });
          writeln!(w, "sfestidx {} {} {}", y, i, r).unwrap();
          if r == REFUSED { continue; }
          let p = 10 * y + i;
          for n in [0i64, 1, -1, 9, -9, 10, -10, 11, -11, 1000003, -1000003, 19330 + 7 - p, 19330 + 6 - p, 19500 - p, 19499 - p, 19850 + 8 - p, 19850 + 7 - p, 99999 - p, 100000 - p, -p, -p - 1, 10 - p] {
            let r = g1(|| match SolarFestival::from_index(y as isize, i as usize) { Some(x) => match x.next(n as isize) { Some(z) => f_sfest(&z), None => REFUSED.to_string() }, None => REFUSED.to_string() });
            writeln!(w, "sfest {} {} {} {}", y, i, n, r).unwrap();
          }
        }
      }
      // lall: existence of every (lunar year, index) for all years; steps only from the grid years
      let gl = grid_years(step);
      let mut ly: Vec<i64> = if lall { (1..=9998).collect() } else { gl.clone() };
      for y in [-2i64, -1, 0, 9999, 10000] { ly.push(y); }
      ly.sort(); ly.dedup();
      for &y in &ly {
        let steps = y <= 0 || y >= 9999 || gl.contains(&y);
        for i in 0..13i64 {
          let r = g1(|| match LunarFestival::from_index(y as isize, i as usize) { Some(x) => f_lfest(&x), None => REFUSED.to_string() });
          writeln!(w, "lfestidx {} {} {}", y, i, r).unwrap();
          if r == REFUSED || !steps { continue; }
          let p = 13 * y + i;
          for n in [0i64, 1, -1, 12, -12, 13, -13, 14, -14, 1000, -1000, -p, -p - 1, -p - 2, -p - 13, -p - 14, -p + 4, -p + 10, 13 - p, 12 - p, 129999 - p, 129998 - p, 130000 - p, 129986 - p] {
            let r = g1(|| match LunarFestival::from_index(y as isize, i as usize) { Some(x) => match x.next(n as isize) { Some(z) => f_lfest(&z), None => REFUSED.to_string() }, None => REFUSED.to_string() });
            writeln!(w, "lfest {} {} {} {}", y, i, n, r).unwrap();
          }
        }
      }
    }
    _ => { return false; }
  }
  true
}
