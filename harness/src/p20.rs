// C20: festivals and legal holidays.
// The three data strings and the name arrays are `pub static`s of the crate: they are read
// through the crate (never from source text) and dumped as bytes for Lean (`enum c20.dump`).
use std::io::Write;
use tyme4rs::tyme::Tyme;
use tyme4rs::tyme::festival::{LunarFestival, SolarFestival, LUNAR_FESTIVAL_DATA, LUNAR_FESTIVAL_NAMES,
  SOLAR_FESTIVAL_DATA, SOLAR_FESTIVAL_NAMES};
use tyme4rs::tyme::holiday::{LegalHoliday, LEGAL_HOLIDAY_DATA, LEGAL_HOLIDAY_NAMES};
use tyme4rs::tyme::enums::FestivalType;
use tyme4rs::tyme::lunar::LunarDay;
use tyme4rs::tyme::solar::{SolarDay, SolarTerm};
use crate::util::*;

const OPS: &[&str] = &["sfest.ymd", "sfest.idx", "sfest.next", "sday.fest", "hol.ymd", "hol.next", "sday.hol",
  "lfest.ymd", "lfest.idx", "lfest.next", "lday.fest", "lfest.law"];

pub fn exec(op: &str, a: &[i64]) -> Option<Option<String>> {
  if OPS.contains(&op) { Some(go(op, a)) } else { None }
}

fn fmt_sf(f: &Option<SolarFestival>) -> String {
  match f {
    None => "none".to_string(),
    Some(f) => { let d = f.get_day(); format!("{} {} {} {} {}", f.get_index(), d.get_year(), d.get_month(), d.get_day(), f.get_start_year()) }
  }
}

fn fmt_hol(h: &Option<LegalHoliday>) -> String {
  match h {
    None => "none".to_string(),
    Some(h) => {
      let d = h.get_day();
      // the index field is private: it is observed through the name
      let name = tyme4rs::tyme::Culture::get_name(h);
      let idx = LEGAL_HOLIDAY_NAMES.iter().position(|x| *x == name).map(|x| x as i64).unwrap_or(-1);
      format!("{} {} {} {} {}", d.get_year(), d.get_month(), d.get_day(), idx, h.is_work() as u8)
    }
  }
}

fn type_code(t: FestivalType) -> i64 {
  match t { FestivalType::DAY => 0, FestivalType::TERM => 1, FestivalType::EVE => 2 }
}

fn fmt_lf(f: &Option<LunarFestival>) -> String {
  match f {
    None => "none".to_string(),
    Some(f) => {
      let d = f.get_day();
      let ti: i64 = match f.get_solar_term() { Some(t) => t.get_index() as i64, None => -1 };
      format!("{} {} {} {} {} {}", f.get_index(), type_code(f.get_type()), d.get_year(), d.get_month(), d.get_day(), ti)
    }
  }
}

/// None = refused
fn go(op: &str, a: &[i64]) -> Option<String> {
  let n = a.len();
  match op {
    "sfest.ymd" if n == 3 => Some(fmt_sf(&SolarFestival::from_ymd(a[0] as isize, us(a[1])?, us(a[2])?))),
    "sfest.idx" if n == 2 => Some(fmt_sf(&SolarFestival::from_index(a[0] as isize, us(a[1])?))),
    "sfest.next" if n == 3 => {
      match SolarFestival::from_index(a[0] as isize, us(a[1])?) {
        None => Some("nofest".into()),
        Some(f) => Some(fmt_sf(&f.next(a[2] as isize))),
      }
    }
    "sday.fest" if n == 3 => { let d = solar_day(a[0], a[1], a[2])?; Some(fmt_sf(&d.get_festival())) }
    "hol.ymd" if n == 3 => Some(fmt_hol(&LegalHoliday::from_ymd(a[0] as isize, us(a[1])?, us(a[2])?))),
    "hol.next" if n == 4 => {
      match LegalHoliday::from_ymd(a[0] as isize, us(a[1])?, us(a[2])?) {
        None => Some("nohol".into()),
        Some(h) => Some(fmt_hol(&h.next(a[3] as isize))),
      }
    }
    "sday.hol" if n == 3 => { let d = solar_day(a[0], a[1], a[2])?; Some(fmt_hol(&d.get_legal_holiday())) }
    // lunar ops: arguments after the first three are calendar observations for the model (ignored here)
    "lfest.ymd" if n >= 3 => Some(fmt_lf(&LunarFestival::from_ymd(a[0] as isize, a[1] as isize, us(a[2])?))),
    "lday.fest" if n >= 3 => { let d = LunarDay::new(a[0] as isize, a[1] as isize, us(a[2])?).ok()?; Some(fmt_lf(&d.get_festival())) }
    "lfest.idx" if n >= 3 => Some(fmt_lf(&LunarFestival::from_index(a[0] as isize, us(a[1])?))),
    "lfest.next" if n >= 3 => {
      match LunarFestival::from_index(a[0] as isize, us(a[1])?) {
        None => Some("nofest".into()),
        Some(f) => Some(fmt_lf(&f.next(a[2] as isize))),
      }
    }
    "lfest.law" if n == 2 => Some(law_line(a[0], a[1])),
    _ => Some("bad-op".to_string()),
  }
}

/// the round-trip law for one (year, index): `1` iff the festival found by index falls on a day whose own lookup
/// (LunarDay::get_festival) returns it, or an earlier-listed festival whose own day (by index, same lunar year) is that day
fn law_line(y: i64, i: i64) -> String {
  let r = guard(|| {
    let f = LunarFestival::from_index(y as isize, us(i)?)?;
    let d = f.get_day();
    let g = match d.get_festival() { Some(g) => g, None => return Some("0 none".to_string()) };
    let j = g.get_index();
    let same = |a: &LunarDay, b: &LunarDay| a.get_year() == b.get_year() && a.get_month() == b.get_month() && a.get_day() == b.get_day();
    if j == f.get_index() && same(&g.get_day(), &d) { return Some("1".to_string()); }
    if j < f.get_index() {
      let e = LunarFestival::from_index(d.get_year(), j)?;
      if same(&e.get_day(), &d) && same(&g.get_day(), &d) { return Some("1".to_string()); }
    }
    Some(format!("0 {}", j))
  });
  format!("{} {} {}", y, i, r)
}

fn bytes_line(w: &mut dyn Write, tag: &str, s: &str) {
  write!(w, "{}", tag).unwrap();
  for b in s.as_bytes() { write!(w, " {}", b).unwrap(); }
  writeln!(w).unwrap();
}

// ---- calendar observations for the abstract-calendar model (all through the public API)
fn lun3(d: &LunarDay) -> (i64, i64, i64) { (d.get_year() as i64, d.get_month() as i64, d.get_day() as i64) }

fn obs_valid(y: i64, m: i64, d: i64) -> String {
  let ok = guard(|| { LunarDay::new(y as isize, m as isize, us(d)?).ok()?; Some("ok".into()) }) == "ok";
  format!("1 {} {} {} {}", y, m, d, ok as u8)
}

fn obs_opt(r: String) -> String { if r == REFUSED { "0 0 0 0".to_string() } else { format!("1 {}", r) } }

fn obs_term(y: i64, t: i64) -> String {
  let r = guard(|| {
    let l = SolarTerm::from_index(y as isize, t as isize).get_julian_day().get_solar_day().get_lunar_day();
    let (a, b, c) = lun3(&l);
    Some(format!("{} {} {}", a, b, c))
  });
  format!("2 {} {} {}", y, t, obs_opt(r))
}

fn obs_step(tag: i64, y: i64, m: i64, d: i64, n: isize) -> String {
  let r = guard(|| {
    let l = LunarDay::new(y as isize, m as isize, us(d)?).ok()?.next(n);
    let (a, b, c) = lun3(&l);
    Some(format!("{} {} {}", a, b, c))
  });
  format!("{} {} {} {} {}", tag, y, m, d, obs_opt(r))
}

/// DAY records of the lunar festival table: (month, day), parsed from the pub static (harness-side, trivial split)
fn lunar_day_records() -> Vec<(i64, i64)> {
  let mut v = Vec::new();
  for r in LUNAR_FESTIVAL_DATA.split('@') {
    if r.len() == 7 && r.as_bytes()[2] == b'0' {
      v.push((r[3..5].parse::<i64>().unwrap(), r[5..7].parse::<i64>().unwrap()));
    }
  }
  v
}

fn term_records() -> Vec<i64> {
  let mut v = Vec::new();
  for r in LUNAR_FESTIVAL_DATA.split('@') {
    if r.len() == 5 && r.as_bytes()[2] == b'1' { v.push(r[3..5].parse::<i64>().unwrap()); }
  }
  v
}

fn obs_for_ymd(y: i64, m: i64, d: i64) -> String {
  let mut s = obs_valid(y, m, d);
  for t in term_records() { s.push(' '); s.push_str(&obs_term(y, t)); }
  s.push(' '); s.push_str(&obs_step(3, y, m, d, 1));
  s
}

fn obs_for_idx(y: i64) -> String {
  let mut s = String::new();
  for (m, d) in lunar_day_records() { s.push_str(&obs_valid(y, m, d)); s.push(' '); }
  for t in term_records() { s.push_str(&obs_term(y, t)); s.push(' '); }
  s.push_str(&obs_valid(y + 1, 1, 1)); s.push(' ');
  s.push_str(&obs_step(4, y + 1, 1, 1, -1));
  s
}

/// run `f(year)` for lo, lo+step, .. <= hi on 16 threads; output in year order
fn par_years<F: Fn(i64) -> String + Sync>(lo: i64, hi: i64, step: i64, w: &mut dyn Write, f: F) {
  let years: Vec<i64> = (0..).map(|k| lo + k * step).take_while(|y| *y <= hi).collect();
  let threads = 16usize;
  let chunk = (years.len() + threads - 1) / threads.max(1);
  if chunk == 0 { return; }
  let parts: Vec<String> = std::thread::scope(|sc| {
    let hs: Vec<_> = years.chunks(chunk).map(|ys| { let f = &f; sc.spawn(move || { let mut s = String::new(); for y in ys { s.push_str(&f(*y)); } s }) }).collect();
    hs.into_iter().map(|h| h.join().unwrap()).collect()
  });
  for p in parts { w.write_all(p.as_bytes()).unwrap(); }
}

fn arg_i64(args: &[String], k: usize, dflt: i64) -> i64 { args.get(k).and_then(|s| s.parse().ok()).unwrap_or(dflt) }

pub fn run_enum(name: &str, args: &[String], w: &mut dyn Write) -> bool {
  match name {
    "c20.dump" => {
      bytes_line(w, "solar", SOLAR_FESTIVAL_DATA);
      bytes_line(w, "lunar", LUNAR_FESTIVAL_DATA);
      bytes_line(w, "holiday", LEGAL_HOLIDAY_DATA);
      for s in SOLAR_FESTIVAL_NAMES.iter() { bytes_line(w, "solar_name", s); }
      for s in LUNAR_FESTIVAL_NAMES.iter() { bytes_line(w, "lunar_name", s); }
      for s in LEGAL_HOLIDAY_NAMES.iter() { bytes_line(w, "holiday_name", s); }
    }
    // every civil date lo..hi (default 1900..2100) through SolarDay::get_festival
    "c20.solar.days" => {
      let lo = arg_i64(args, 0, 1900); let hi = arg_i64(args, 1, 2100);
      for y in lo..=hi { for m in 1i64..=12 { for d in 1i64..=31 {
        let r = guard(|| { let x = solar_day(y, m, d)?; Some(fmt_sf(&x.get_festival())) });
        if r != REFUSED { writeln!(w, "{} {} {} {}", y, m, d, r).unwrap(); }
      } } }
    }
    // every (year, index 0..=size) : from_index and stepping by a fixed set of n
    "c20.solar.idx" => {
      let lo = arg_i64(args, 0, 1); let hi = arg_i64(args, 1, 9998); let step = arg_i64(args, 2, 1).max(1);
      let size = SOLAR_FESTIVAL_NAMES.len() as i64;
      par_years(lo, hi, step, w, |y| {
        let mut out = String::new();
        for i in 0..=size {
          let r = guard(|| {
            let f = SolarFestival::from_index(y as isize, i as usize);
            let mut s = fmt_sf(&f);
            if let Some(f) = f {
              for n in [1isize, -1, 10, -10, 7, -23, 20000, -20000] {
                let g = guard(|| Some(fmt_sf(&f.next(n))));
                s.push_str(" | "); s.push_str(&g);
              }
            }
            Some(s)
          });
          out.push_str(&format!("{} {} {}\n", y, i, r));
        }
        out
      });
    }
    // every record of the holiday table (parsed from the static: 13 characters each) and what the API says about it
    "c20.hol.recs" => {
      let data = LEGAL_HOLIDAY_DATA.as_bytes();
      let nrec = data.len() / 13;
      writeln!(w, "len {} {}", data.len(), data.len() % 13).unwrap();
      let mut prev: Option<SolarDay> = None;
      for k in 0..nrec {
        let r = &LEGAL_HOLIDAY_DATA[13 * k..13 * k + 13];
        let line = guard(|| {
          let y: i64 = r[0..4].parse().ok()?; let m: i64 = r[4..6].parse().ok()?; let d: i64 = r[6..8].parse().ok()?;
          let wk = (r.as_bytes()[8] == b'0') as u8; let idx = (r.as_bytes()[9] as i64) - 48;
          let sign: i64 = if r.as_bytes()[10] == b'-' { -1 } else { 1 };
          let off: i64 = sign * r[11..13].parse::<i64>().ok()?;
          let mut s = format!("{} {} {} {} {} {} {}", k, y, m, d, idx, wk, off);
          // real date
          let day = solar_day(y, m, d);
          s.push_str(&format!(" valid={}", day.is_some() as u8));
          if let Some(day) = day {
            // returned for that date, with these fields
            s.push_str(&format!(" own={}", (fmt_hol(&day.get_legal_holiday()) == format!("{} {} {} {} {}", y, m, d, idx, wk)) as u8));
            // strictly after the previous record
            let inc = match &prev { None => true, Some(p) => day.is_after(*p) };
            s.push_str(&format!(" inc={}", inc as u8));
            // the compensated festival day: a rest day in the table
            let t = guard(|| { let t = day.next(off as isize); match t.get_legal_holiday() { Some(h) => Some(format!("{}", (!h.is_work()) as u8)), None => Some("0".into()) } });
            s.push_str(&format!(" target={}", t));
          }
          Some(s)
        });
        writeln!(w, "{}", line).unwrap();
        if let Some(d) = guard_day(r) { prev = Some(d); }
      }
    }
    // every civil date lo..hi (default 2000..2030): membership
    "c20.hol.days" => {
      let lo = arg_i64(args, 0, 2000); let hi = arg_i64(args, 1, 2030);
      for y in lo..=hi { for m in 1i64..=12 { for d in 1i64..=31 {
        let r = guard(|| { let x = solar_day(y, m, d)?; Some(fmt_hol(&x.get_legal_holiday())) });
        if r != REFUSED { writeln!(w, "{} {} {} {}", y, m, d, r).unwrap(); }
      } } }
    }
    // stepping: for each record k (stride arg0) the step counts n = arg list relative to k: a fixed set, plus the two that
    // reach the first/last record and the two that leave the table
    "c20.hol.next" => {
      let stride = arg_i64(args, 0, 1).max(1) as usize;
      let nrec = LEGAL_HOLIDAY_DATA.len() / 13;
      let mut k = 0usize;
      while k < nrec {
        let r = &LEGAL_HOLIDAY_DATA[13 * k..13 * k + 13];
        let ki = k as i64; let last = nrec as i64 - 1;
        let ns: Vec<i64> = vec![0, 1, -1, 2, -2, 5, -5, 33, -33, 40, -40, 100, -100, -ki, last - ki, -ki - 1, last - ki + 1, 5000, -5000];
        for n in ns { writeln!(w, "{} {} {}", k, n, hol_next_line(r, n)).unwrap(); }
        k += stride;
      }
    }
    // every record k: all in-table step counts (and one step outside on each side) when k % stride == 0,
    // the step counts -40..=40 otherwise (stride 1 = complete enumeration); 16 threads
    "c20.hol.nextall" => {
      let stride = arg_i64(args, 0, 1).max(1) as usize;
      let nrec = LEGAL_HOLIDAY_DATA.len() / 13;
      let threads = 16usize;
      let mut handles = Vec::new();
      for t in 0..threads {
        handles.push(std::thread::spawn(move || {
          let mut out: Vec<(usize, String)> = Vec::new();
          let mut k = t;
          while k < nrec {
            let r = &LEGAL_HOLIDAY_DATA[13 * k..13 * k + 13];
            let mut s = String::new();
            let ki = k as i64;
            let (lo, hi) = if k % stride == 0 { (-ki - 1, nrec as i64 - ki) } else { (-40, 40) };
            for n in lo..=hi {
              s.push_str(&format!("{} {} {}\n", k, n, hol_next_line(r, n)));
            }
            out.push((k, s));
            k += threads;
          }
          out
        }));
      }
      let mut all: Vec<(usize, String)> = Vec::new();
      for h in handles { all.extend(h.join().unwrap()); }
      all.sort_by_key(|x| x.0);
      for (_, s) in all { w.write_all(s.as_bytes()).unwrap(); }
    }
    // the round-trip law of lunar festivals on (year lo..hi) x all indices
    "c20.lunar.law" => {
      let lo = arg_i64(args, 0, 1); let hi = arg_i64(args, 1, 9998); let step = arg_i64(args, 2, 1).max(1);
      let size = LUNAR_FESTIVAL_NAMES.len() as i64;
      par_years(lo, hi, step, w, |y| { let mut s = String::new(); for i in 0..size { s.push_str(&law_line(y, i)); s.push('\n'); } s });
    }
    // stepping law on (year lo..hi) x all indices: from_index(y, i).next(n) is the festival n places further along the
    // list counted from (y, i): from_index(floor((size*y + i + n) / size), (size*y + i + n) mod size), same index and day
    "c20.lunar.step" => {
      let lo = arg_i64(args, 0, 1); let hi = arg_i64(args, 1, 9998); let step = arg_i64(args, 2, 1).max(1);
      let size = LUNAR_FESTIVAL_NAMES.len() as i64;
      par_years(lo, hi, step, w, |y| {
        let mut s = String::new();
        for i in 0..size {
          let mut bad: Option<i64> = None;
          let f0 = guard(|| Some(fmt_lf(&LunarFestival::from_index(y as isize, i as usize))));
          if f0 != REFUSED && f0 != "none" {
            for n in [0i64, 1, -1, 13, -13, 5, -30, -i, -i - 1, size - i, size - i - 1, 26 - i, -26 - i] {
              let t = size * y + i + n;
              let (ty, ti) = (t.div_euclid(size), t.rem_euclid(size));
              if ty < 1 || ty > 9998 { continue; }
              let got = guard(|| { let f = LunarFestival::from_index(y as isize, i as usize)?; Some(fmt_lf(&f.next(n as isize))) });
              let want = guard(|| Some(fmt_lf(&LunarFestival::from_index(ty as isize, ti as usize))));
              if got != want { bad = Some(n); break; }
            }
          }
          match bad { None => s.push_str(&format!("{} {} 1\n", y, i)), Some(n) => s.push_str(&format!("{} {} 0 {}\n", y, i, n)) }
        }
        s
      });
    }
    // op lines for the abstract-calendar model: each line carries the calendar observations the model may query
    "c20.lunar.ops" => {
      let lo = arg_i64(args, 0, 1); let hi = arg_i64(args, 1, 9998); let step = arg_i64(args, 2, 1).max(1);
      let size = LUNAR_FESTIVAL_NAMES.len() as i64;
      let mut y = lo;
      while y <= hi {
        let oi = obs_for_idx(y);
        for i in 0..=size {
          writeln!(w, "lfest.idx {} {} 0 {}", y, i, oi).unwrap();
          // the day of the festival, looked up by date
          let day = guard(|| { let f = LunarFestival::from_index(y as isize, i as usize)?; let (a, b, c) = lun3(&f.get_day()); Some(format!("{} {} {}", a, b, c)) });
          if day != REFUSED {
            let p: Vec<i64> = day.split(' ').map(|x| x.parse().unwrap()).collect();
            writeln!(w, "lfest.ymd {} {} {} {}", p[0], p[1], p[2], obs_for_ymd(p[0], p[1], p[2])).unwrap();
            writeln!(w, "lday.fest {} {} {} {}", p[0], p[1], p[2], obs_for_ymd(p[0], p[1], p[2])).unwrap();
            // the day before and after (not a festival unless another one falls there)
            for dd in [-1i64, 1] {
              let d2 = p[2] + dd;
              writeln!(w, "lfest.ymd {} {} {} {}", p[0], p[1], d2, obs_for_ymd(p[0], p[1], d2)).unwrap();
            }
            // stepping: observations for the target year
            for n in [1i64, -1, 13, -13, 5, -30] {
              let tot = p[0] * size + i + n;
              let ty = tot.div_euclid(size); // LunarFestival::next carries the year with floor division (after the C11 repair)
              writeln!(w, "lfest.next {} {} {} {} {}", y, i, n, oi, obs_for_idx(ty)).unwrap();
            }
          }
        }
        y += step;
      }
    }
    _ => return false,
  }
  true
}

fn guard_day(r: &str) -> Option<SolarDay> {
  let y: i64 = r[0..4].parse().ok()?; let m: i64 = r[4..6].parse().ok()?; let d: i64 = r[6..8].parse().ok()?;
  std::panic::catch_unwind(|| solar_day(y, m, d)).ok()?
}

fn hol_next_line(r: &str, n: i64) -> String {
  guard(|| {
    let y: i64 = r[0..4].parse().ok()?; let m: i64 = r[4..6].parse().ok()?; let d: i64 = r[6..8].parse().ok()?;
    match LegalHoliday::from_ymd(y as isize, us(m)?, us(d)?) {
      None => Some("nohol".into()),
      Some(h) => Some(fmt_hol(&h.next(n as isize))),
    }
  })
}
