// further ops (added per property)
pub fn exec(_op: &str, _a: &[i64]) -> Option<String> {
  Some("bad-op".to_string())
}
