// C12: clock arithmetic to the second, Julian date <-> instant
use std::io::Write;
use tyme4rs::tyme::Tyme;
use tyme4rs::tyme::jd::JulianDay;
use tyme4rs::tyme::solar::{SolarTerm, SolarTime};
use crate::util::*;

const OPS: &[&str] = &["time.new", "time.next", "time.sub", "time.before", "time.after", "jd.time", "time.jd", "time.jdbits"];

pub fn exec(op: &str, a: &[i64]) -> Option<Option<String>> {
  if OPS.contains(&op) { Some(go(op, a)) } else { None }
}

fn time(a: &[i64]) -> Option<SolarTime> {
  SolarTime::new(a[0] as isize, us(a[1])?, us(a[2])?, us(a[3])?, us(a[4])?, us(a[5])?).ok()
}

fn fmt_time(t: &SolarTime) -> String {
  format!("{} {} {} {} {} {}", t.get_year(), t.get_month(), t.get_day(), t.get_hour(), t.get_minute(), t.get_second())
}

/// exact value of a finite f64 as (num, k): x = num / 2^k, k >= 0
pub fn decode(x: f64) -> (i128, u32) {
  let bits = x.to_bits();
  let neg = (bits >> 63) != 0;
  let e = ((bits >> 52) & 0x7ff) as i32;
  let frac = (bits & ((1u64 << 52) - 1)) as i128;
  let (mut m, mut ex) = if e == 0 { (frac, -1074) } else { (frac | (1i128 << 52), e - 1075) };
  if m == 0 { return (0, 0); }
  while m % 2 == 0 && ex < 0 { m /= 2; ex += 1; }
  if neg { m = -m; }
  if ex >= 0 { (m << ex, 0) } else { (m, (-ex) as u32) }
}

/// the f64 whose exact value is num / 2^k (None if that is not a normal f64 or zero):
/// an integer below 2^53 times a power of two is exact unless it underflows
pub fn encode(num: i64, k: i64) -> Option<f64> {
  if k < 0 || k > 1000 || num.abs() >= (1i64 << 53) { return None; }
  let x = (num as f64) * (2f64).powi(-(k as i32));
  if x != 0.0 && !x.is_normal() { return None; }
  Some(x)
}

/// |f64 Julian date of t  −  exact Julian date| as a fraction of a day: (numerator, log2 denominator·86400)
/// exact JD = (library day-level JD, an exact x.5 by C01) + seconds of day / 86400
fn jd_err(t: &SolarTime) -> (i128, u32) {
  let x = t.get_julian_day().get_day();
  let d0 = t.get_solar_day().get_julian_day().get_day();
  let sod = (t.get_hour() * 3600 + t.get_minute() * 60 + t.get_second()) as i128;
  let (n, k) = decode(x);
  let (n0, k0) = decode(d0);            // k0 <= 1
  // err * 86400 * 2^k = 86400*n − (86400*n0*2^(k−k0) + sod*2^k)
  let kk = k.max(k0);
  let e = 86400 * (n << (kk - k)) - (86400 * (n0 << (kk - k0)) + (sod << kk));
  (e.abs(), kk)
}

/// err ≤ 1e-7 day  ⇔  e · 10^7 ≤ 86400 · 2^kk
fn err_ok(e: (i128, u32)) -> bool { e.0 * 10_000_000 <= 86400i128 << e.1 }

/// None = refused
fn go(op: &str, a: &[i64]) -> Option<String> {
  match (op, a.len()) {
    ("time.new", 6) => { time(a)?; Some("ok".into()) }
    ("time.next", 7) => { let t = time(a)?; Some(fmt_time(&t.next(a[6] as isize))) }
    ("time.sub", 12) => { let t = time(&a[0..6])?; let u = time(&a[6..12])?; Some(format!("{}", t.subtract(u))) }
    ("time.before", 12) => { let t = time(&a[0..6])?; let u = time(&a[6..12])?; Some(format!("{}", t.is_before(u) as u8)) }
    ("time.after", 12) => { let t = time(&a[0..6])?; let u = time(&a[6..12])?; Some(format!("{}", t.is_after(u) as u8)) }
    ("jd.time", 2) => {
      let x = match encode(a[0], a[1]) { Some(x) => x, None => return Some("bad-op".into()) };
      let t = JulianDay::from_julian_day(x).get_solar_time();
      // get_solar_day must be the date part of the same answer
      let d = JulianDay::from_julian_day(x).get_solar_day();
      if d.get_year() != t.get_year() || d.get_month() != t.get_month() || d.get_day() != t.get_day() { return Some("day-mismatch".into()); }
      Some(fmt_time(&t))
    }
    ("time.jd", 6) => {
      let t = time(a)?;
      let r = t.get_julian_day().get_solar_time();
      Some(format!("{} {}", fmt_time(&r), err_ok(jd_err(&t)) as u8))
    }
    ("time.jdbits", 6) => {
      let t = time(a)?;
      let (n, k) = decode(t.get_julian_day().get_day());
      Some(format!("{} {}", n, k))
    }
    _ => Some("bad-op".to_string()),
  }
}

/// same list as `secsDates` in lean/Tyme/Driver/P12.lean
const SECS_DATES: &[(i64, i64, i64)] = &[
  (2023, 1, 31), (1582, 10, 4), (1582, 10, 15), (1, 1, 1), (9999, 12, 31), (1029, 9, 9), (6771, 7, 7), (2000, 2, 29),
  (1900, 2, 28), (1600, 2, 29), (1, 12, 31), (2, 1, 1), (100, 2, 29), (1581, 12, 31), (1582, 1, 1), (1582, 12, 31),
  (1583, 1, 1), (1999, 12, 31), (2000, 1, 1), (2024, 2, 29), (2024, 12, 31), (4000, 2, 29), (9999, 1, 1), (9998, 12, 31),
  (1029, 9, 8), (6771, 7, 6), (500, 6, 30), (1000, 4, 30), (1500, 9, 30), (2500, 11, 30), (3000, 3, 31), (5000, 5, 31),
  (7000, 7, 31), (8000, 8, 31), (9000, 10, 31), (1970, 1, 1), (2038, 1, 19), (1752, 9, 2), (1700, 2, 28), (2100, 2, 28)];

pub fn run_enum(name: &str, args: &[String], w: &mut dyn Write) -> bool {
  match name {
    // every second of the listed dates: JD round trip (+ error flag), next(1), next(-1)
    "c12.secs" => {
      let n: usize = args.get(0).and_then(|s| s.parse().ok()).unwrap_or(8);
      for &(y, m, d) in SECS_DATES.iter().take(n) {
        for sod in 0i64..86400 {
          let a = [y, m, d, sod / 3600, sod % 3600 / 60, sod % 60];
          let rt = guard(|| { let t = time(&a)?; Some(format!("{} {}", fmt_time(&t.get_julian_day().get_solar_time()), err_ok(jd_err(&t)) as u8)) });
          let n1 = guard(|| { let t = time(&a)?; Some(fmt_time(&t.next(1))) });
          let p1 = guard(|| { let t = time(&a)?; Some(fmt_time(&t.next(-1))) });
          writeln!(w, "{} {} {} {} | {} | {} | {}", y, m, d, sod, rt, n1, p1).unwrap();
        }
      }
    }
    // exact f64 value (num k) of solar-term instants for years y0..=y1 (fed back as `jd.time` ops)
    "c12.termjd" => {
      let y0: isize = args.get(0).and_then(|s| s.parse().ok()).unwrap_or(2000);
      let y1: isize = args.get(1).and_then(|s| s.parse().ok()).unwrap_or(2001);
      let step: usize = args.get(2).and_then(|s| s.parse().ok()).unwrap_or(1);
      for y in (y0..=y1).step_by(step) {
        for i in 0..24isize {
          let x = SolarTerm::from_index(y, i).get_julian_day().get_day();
          let (n, k) = decode(x);
          writeln!(w, "{} {}", n, k).unwrap();
        }
      }
    }
    // measured |f64 JD − exact JD| over a seeded sample + all seconds of the listed dates:
    // prints `count max_err_num max_err_log2den y m d h mi s` (error in days = num / (86400 · 2^log2den))
    "c12.jderr" => {
      let cnt: u64 = args.get(0).and_then(|s| s.parse().ok()).unwrap_or(100000);
      let mut seed: u64 = args.get(1).and_then(|s| s.parse().ok()).unwrap_or(1);
      let mut best: (i128, u32) = (0, 0);
      let mut arg = [0i64; 6];
      let mut total = 0u64;
      let mut consider = |a: [i64; 6], best: &mut (i128, u32), arg: &mut [i64; 6], total: &mut u64| {
        let r = std::panic::catch_unwind(|| time(&a).map(|t| jd_err(&t)));
        if let Ok(Some(e)) = r {
          *total += 1;
          // compare e.0/2^e.1 with best.0/2^best.1
          if (e.0 << best.1) > (best.0 << e.1) { *best = e; *arg = a; }
        }
      };
      for _ in 0..cnt {
        seed = seed.wrapping_mul(6364136223846793005).wrapping_add(1442695040888963407);
        let r = seed >> 11;
        let y = 1 + (r % 9999) as i64; let m = 1 + ((r / 9999) % 12) as i64; let d = 1 + ((r / 119988) % 31) as i64;
        let sod = ((r / 3719628) % 86400) as i64;
        consider([y, m, d, sod / 3600, sod % 3600 / 60, sod % 60], &mut best, &mut arg, &mut total);
      }
      for &(y, m, d) in SECS_DATES.iter() {
        for sod in 0i64..86400 { consider([y, m, d, sod / 3600, sod % 3600 / 60, sod % 60], &mut best, &mut arg, &mut total); }
      }
      writeln!(w, "{} {} {} {} {} {} {} {} {}", total, best.0, best.1, arg[0], arg[1], arg[2], arg[3], arg[4], arg[5]).unwrap();
    }
    _ => { return false; }
  }
  true
}
