// C17: daily and hourly almanac cycles (duty, twelve spirits, 28 mansions, six-day star, phase, minor Ren, nine stars)
use std::io::Write;
use tyme4rs::tyme::lunar::{LunarDay, LunarMonth, LunarYear};
use tyme4rs::tyme::sixtycycle::{SixtyCycleMonth, SixtyCycleYear};
use tyme4rs::tyme::solar::SolarTime;
use crate::util::*;

const OPS: &[&str] = &["alm.day", "alm.hour", "alm.year", "alm.lmonth", "alm.scmonth", "alm.lday"];

pub fn exec(op: &str, a: &[i64]) -> Option<Option<String>> {
  if OPS.contains(&op) { Some(go(op, a)) } else { None }
}

/// one output field whose getter may panic on its own
fn field<F: FnOnce() -> usize>(f: F) -> String {
  match std::panic::catch_unwind(std::panic::AssertUnwindSafe(f)) { Ok(v) => v.to_string(), Err(_) => "r".to_string() }
}

pub fn go(op: &str, a: &[i64]) -> Option<String> {
  match (op, a.len()) {
    // civil day -> sexagenary-day view: duty, twelve spirits, mansion, mansion's luminary, weekday, nine star;
    //              lunar-day view: six-day star, mansion, nine star, phase, minor Ren, duty, twelve spirits;
    //              nine star of the sexagenary month, nine star and minor Ren of the lunar month
    ("alm.day", 3) => {
      let d = solar_day(a[0], a[1], a[2])?;
      let v = d.get_sixty_cycle_day();
      let l = d.get_lunar_day();
      let ms = v.get_twenty_eight_star();
      // the nine-star getters construct neighbouring solstice days and may refuse on their own at the range edges: "r"
      let n1 = field(|| v.get_nine_star().get_index());
      let n2 = field(|| l.get_nine_star().get_index());
      Some(format!("{} {} {} {} {} {} {} {} {} {} {} {} {} {} {} {}",
        v.get_duty().get_index(), v.get_twelve_star().get_index(), ms.get_index(), ms.get_seven_star().get_index(),
        d.get_week().get_index(), n1,
        l.get_six_star().get_index(), l.get_twenty_eight_star().get_index(), n2,
        l.get_phase().get_index(), l.get_minor_ren().get_index(), l.get_duty().get_index(), l.get_twelve_star().get_index(),
        v.get_sixty_cycle_month().get_nine_star().get_index(),
        l.get_lunar_month().get_nine_star().get_index(), l.get_lunar_month().get_minor_ren().get_index()))
    }
    // instant -> sexagenary-hour view: nine star, twelve spirits; lunar-hour view: nine star, twelve spirits, minor Ren
    ("alm.hour", 6) => {
      let t = SolarTime::new(a[0] as isize, us(a[1])?, us(a[2])?, us(a[3])?, us(a[4])?, us(a[5])?).ok()?;
      let v = t.get_sixty_cycle_hour();
      let lh = t.get_lunar_hour();
      let n1 = field(|| v.get_nine_star().get_index());
      let n2 = field(|| lh.get_nine_star().get_index());
      Some(format!("{} {} {} {} {}", n1, v.get_twelve_star().get_index(),
        n2, lh.get_twelve_star().get_index(), lh.get_minor_ren().get_index()))
    }
    // year -> nine star of the lunar year, of the sexagenary year
    ("alm.year", 1) => {
      let ly = LunarYear::new(a[0] as isize).ok()?;
      let sy = SixtyCycleYear::new(a[0] as isize).ok()?;
      Some(format!("{} {}", ly.get_nine_star().get_index(), sy.get_nine_star().get_index()))
    }
    // lunar month (year, signed month) -> nine star, minor Ren
    ("alm.lmonth", 2) => {
      let m = LunarMonth::new(a[0] as isize, a[1] as isize).ok()?;
      Some(format!("{} {}", m.get_nine_star().get_index(), m.get_minor_ren().get_index()))
    }
    // sexagenary month (year, index 0..11 from the Yin month) -> nine star
    ("alm.scmonth", 2) => {
      SixtyCycleYear::new(a[0] as isize).ok()?;
      let m = SixtyCycleMonth::from_index(a[0] as isize, a[1] as isize);
      Some(format!("{}", m.get_nine_star().get_index()))
    }
    // lunar date (year, signed month, day) -> six-day star, phase, minor Ren
    ("alm.lday", 3) => {
      let d = LunarDay::new(a[0] as isize, a[1] as isize, us(a[2])?).ok()?;
      Some(format!("{} {} {}", d.get_six_star().get_index(), d.get_phase().get_index(), d.get_minor_ren().get_index()))
    }
    _ => Some("bad-op".to_string()),
  }
}

/// hours probed per day: both halves of the Zi hour and one instant in each other double-hour
const HOURS: [i64; 13] = [0, 1, 3, 5, 7, 9, 11, 13, 15, 17, 19, 21, 23];

/// days whose 13 hours are listed: every day of the sampled years
fn hour_year(y: i64, args: &[String]) -> bool {
  let all = args.get(0).map(|s| s == "all").unwrap_or(false);
  if all { y % 100 == 0 || (2019..=2027).contains(&y) || y <= 30 || y >= 9990 || (1580..=1584).contains(&y) }
  else { (2023..=2025).contains(&y) || y <= 2 || y == 1582 || y == 9998 || y == 600 }
}

pub fn run_enum(name: &str, args: &[String], w: &mut dyn Write) -> bool {
  match name {
    "c17.days" => {
      let years: Vec<i64> = (1..=9998).filter(|y| year_selected(*y, args)).collect();
      par_years(&years, w, |y| {
        let mut out = String::new();
        for m in 1i64..=12 { for d in 1i64..=31 {
          if solar_day(y, m, d).is_none() { continue; }
          let r = guard(|| go("alm.day", &[y, m, d]));
          out.push_str(&format!("{} {} {} {}\n", y, m, d, r));
        }}
        out
      });
    }
    // every day of every leap month of every lunar year (both tiers)
    "c17.leap" => {
      let years: Vec<i64> = (0..=9999).collect();
      par_years(&years, w, |y| {
        let mut out = String::new();
        let lp = match std::panic::catch_unwind(|| LunarYear::from_year(y as isize).get_leap_month()) { Ok(v) => v as i64, Err(_) => 0 };
        if lp > 0 {
          let n = match std::panic::catch_unwind(|| LunarMonth::new(y as isize, -(lp as isize)).map(|m| m.get_day_count() as i64).unwrap_or(0)) { Ok(v) => v, Err(_) => 0 };
          for d in 1..=n {
            let r = guard(|| go("alm.lday", &[y, -lp, d]));
            let r2 = guard(|| go("alm.lday", &[y, lp, d]));
            out.push_str(&format!("{} {} {} {} | {}\n", y, -lp, d, r, r2));
          }
        }
        out
      });
    }
    "c17.hours" => {
      // one work item per day so that few sampled years still spread over all cores
      let mut keys: Vec<i64> = Vec::new();
      for y in (1i64..=9998).filter(|y| hour_year(*y, args)) { for m in 1i64..=12 { for d in 1i64..=31 {
        if solar_day(y, m, d).is_some() { keys.push(y * 10000 + m * 100 + d); }
      }}}
      par_years(&keys, w, |k| {
        let (y, m, d) = (k / 10000, k / 100 % 100, k % 100);
        let mut out = String::new();
        for h in HOURS {
          let r = guard(|| go("alm.hour", &[y, m, d, h, 30, 0]));
          out.push_str(&format!("{} {} {} {} {}\n", y, m, d, h, r));
        }
        out
      });
    }
    "c17.years" => {
      for y in -2i64..=10000 {
        let r = guard(|| go("alm.year", &[y]));
        writeln!(w, "{} {}", y, r).unwrap();
      }
    }
    // every lunar month of the selected years + every sexagenary month of every year
    "c17.months" => {
      let years: Vec<i64> = (0..=9999).filter(|y| year_selected(*y, args)).collect();
      par_years(&years, w, |y| {
        let mut out = String::new();
        for m in 1i64..=12 {
          let r = guard(|| go("alm.lmonth", &[y, m]));
          out.push_str(&format!("L {} {} {}\n", y, m, r));
          let r = guard(|| go("alm.lmonth", &[y, -m]));
          if r != REFUSED { out.push_str(&format!("L {} {} {}\n", y, -m, r)); }
        }
        out
      });
      for y in 0i64..=9999 {
        for i in 0i64..12 {
          let r = guard(|| go("alm.scmonth", &[y, i]));
          writeln!(w, "S {} {} {}", y, i, r).unwrap();
        }
      }
    }
    _ => { return false; }
  }
  true
}
