// C03 / C10: lunar months (through the memo `from_ym` and uncached `new`)
use std::io::Write;
use tyme4rs::tyme::Tyme;
use tyme4rs::tyme::lunar::{LunarMonth, LunarYear};
use crate::util::*;

const OPS: &[&str] = &["lunar.month", "lunar.month.new", "lunar.month.next", "lunar.year", "solar.lunar", "lunar.solar", "lunar.new"];

pub fn exec(op: &str, a: &[i64]) -> Option<Option<String>> {
  if OPS.contains(&op) { Some(go(op, a)) } else { None }
}

/// noon-based integer day number of a month's first day
pub fn first_jdn(m: &LunarMonth) -> i64 { (m.get_first_julian_day().get_day() + 0.5).floor() as i64 }

pub fn fmt_month(m: &LunarMonth) -> String {
  format!("{} {} {} {} {}", m.get_year(), m.get_month_with_leap(), first_jdn(m), m.get_day_count(), m.get_index_in_year())
}

fn go(op: &str, a: &[i64]) -> Option<String> {
  match (op, a.len()) {
    // memoised constructor: year month(+/-) -> year month first len idx
    ("lunar.month", 2) => { let m = LunarMonth::from_ym(a[0] as isize, a[1] as isize); Some(fmt_month(&m)) }
    ("lunar.month.new", 2) => { let m = LunarMonth::new(a[0] as isize, a[1] as isize).ok()?; Some(fmt_month(&m)) }
    ("lunar.month.next", 3) => { let m = LunarMonth::from_ym(a[0] as isize, a[1] as isize).next(a[2] as isize); Some(fmt_month(&m)) }
    ("lunar.year", 1) => {
      let y = LunarYear::new(a[0] as isize).ok()?;
      Some(format!("{} {} {}", y.get_leap_month(), y.get_month_count(), y.get_day_count()))
    }
    // civil date -> lunar date (year, signed month, day)
    ("solar.lunar", 3) => {
      let d = solar_day(a[0], a[1], a[2])?;
      let l = d.get_lunar_day();
      Some(format!("{} {} {}", l.get_year(), l.get_month(), l.get_day()))
    }
    ("lunar.solar", 3) => {
      let l = tyme4rs::tyme::lunar::LunarDay::new(a[0] as isize, a[1] as isize, us(a[2])?).ok()?;
      Some(fmt_day(&l.get_solar_day()))
    }
    ("lunar.new", 3) => { tyme4rs::tyme::lunar::LunarDay::new(a[0] as isize, a[1] as isize, us(a[2])?).ok()?; Some("ok".into()) }
    _ => Some("bad-op".to_string()),
  }
}

pub fn run_enum(_name: &str, _args: &[String], _w: &mut dyn Write) -> bool { false }
