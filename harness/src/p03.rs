// C03 / C10: lunar months (through the memo `from_ym` and uncached `new`)
use std::io::Write;
use tyme4rs::tyme::Tyme;
use tyme4rs::tyme::lunar::{LunarMonth, LunarYear};
use crate::util::*;

const OPS: &[&str] = &["lunar.month", "lunar.month.new", "lunar.month.next", "lunar.year", "solar.lunar", "lunar.solar", "lunar.new", "lunar.before", "lunar.after", "lunar.next"];

pub fn exec(op: &str, a: &[i64]) -> Option<Option<String>> {
  if OPS.contains(&op) { Some(go(op, a)) } else { None }
}

/// noon-based integer day number of a month's first day
pub fn first_jdn(m: &LunarMonth) -> i64 { (m.get_first_julian_day().get_day() + 0.5).floor() as i64 }

pub fn fmt_month(m: &LunarMonth) -> String {
  format!("{} {} {} {} {}", m.get_year(), m.get_month_with_leap(), first_jdn(m), m.get_day_count(), m.get_index_in_year())
}

fn go(op: &str, a: &[i64]) -> Option<String> {
  match (op, a.len()) {
    // memoised constructor: year month(+/-) -> year month first len idx
    ("lunar.month", 2) => { let m = LunarMonth::from_ym(a[0] as isize, a[1] as isize); Some(fmt_month(&m)) }
    ("lunar.month.new", 2) => { let m = LunarMonth::new(a[0] as isize, a[1] as isize).ok()?; Some(fmt_month(&m)) }
    ("lunar.month.next", 3) => { let m = LunarMonth::from_ym(a[0] as isize, a[1] as isize).next(a[2] as isize); Some(fmt_month(&m)) }
    ("lunar.year", 1) => {
      let y = LunarYear::new(a[0] as isize).ok()?;
      Some(format!("{} {} {}", y.get_leap_month(), y.get_month_count(), y.get_day_count()))
    }
    // civil date -> lunar date (year, signed month, day)
    ("solar.lunar", 3) => {
      let d = solar_day(a[0], a[1], a[2])?;
      let l = d.get_lunar_day();
      Some(format!("{} {} {}", l.get_year(), l.get_month(), l.get_day()))
    }
    ("lunar.solar", 3) => {
      let l = tyme4rs::tyme::lunar::LunarDay::new(a[0] as isize, a[1] as isize, us(a[2])?).ok()?;
      Some(fmt_day(&l.get_solar_day()))
    }
    ("lunar.before", 6) | ("lunar.after", 6) => {
      let x = tyme4rs::tyme::lunar::LunarDay::new(a[0] as isize, a[1] as isize, us(a[2])?).ok()?;
      let y = tyme4rs::tyme::lunar::LunarDay::new(a[3] as isize, a[4] as isize, us(a[5])?).ok()?;
      Some(format!("{}", (if op == "lunar.before" { x.is_before(y) } else { x.is_after(y) }) as u8))
    }
    // LunarDay::next
    ("lunar.next", 4) => {
      let x = tyme4rs::tyme::lunar::LunarDay::new(a[0] as isize, a[1] as isize, us(a[2])?).ok()?;
      let r = x.next(a[3] as isize);
      Some(format!("{} {} {}", r.get_year(), r.get_month(), r.get_day()))
    }
    ("lunar.new", 3) => { tyme4rs::tyme::lunar::LunarDay::new(a[0] as isize, a[1] as isize, us(a[2])?).ok()?; Some("ok".into()) }
    _ => Some("bad-op".to_string()),
  }
}


/// years visited by the sampled tiers: quick = 0..=300, every 10th year, and the last 3; thorough = all
pub fn year_selected_old(y: i64, args: &[String]) -> bool {
  let all = args.get(0).map(|s| s == "all").unwrap_or(false);
  all || y <= 300 || y % 10 == 0 || y >= 9997 || (1575..=1590).contains(&y)
}

pub fn run_enum(name: &str, args: &[String], w: &mut dyn Write) -> bool {
  match name {
    // acceptance: per year -2..=10000 the bitmask over month -13..=13 (bit m+13) of from_ym acceptance
    "c03.grid" => {
      for y in -2i64..=10000 {
        let mut mask: u64 = 0;
        for m in -13i64..=13 {
          let ok = guard(|| { LunarMonth::new(y as isize, m as isize).ok()?; Some("ok".into()) }) == "ok";
          if ok { mask |= 1u64 << (m + 13); }
        }
        writeln!(w, "{} {}", y, mask).unwrap();
      }
    }
    // every listed month through the memoised constructor + year data
    "c03.months" => {
      for y in 0i64..=9999 {
        let ly = LunarYear::from_year(y as isize);
        let line = guard(|| Some(format!("{} year {} {} {}", y, ly.get_leap_month(), ly.get_month_count(), ly.get_day_count())));
        writeln!(w, "{}", if line == REFUSED { format!("{} year refused", y) } else { line }).unwrap();
        for m in crate::peph::months_of_year(y) {
          let c = LunarMonth::from_ym(y as isize, m.get_month_with_leap());
          writeln!(w, "{}", fmt_month(&c)).unwrap();
        }
      }
    }
    // the property itself evaluated on the implementation: per listed month `y m abut len_ok`, per year
    // `y year count_ok yearlen_ok dist_ok` (1 = holds). Months are stepped with next(1) through the API.
    "c03.tiles" => {
      for y in 0i64..=9998 {
        let ly = LunarYear::from_year(y as isize);
        let ms = ly.get_months();
        let leap = ly.get_leap_month();
        let mut sum: i64 = 0;
        for (i, m) in ms.iter().enumerate() {
          let nx = m.next(1);
          let abut = first_jdn(&nx) == first_jdn(m) + m.get_day_count() as i64;
          let lok = m.get_day_count() == 29 || m.get_day_count() == 30;
          // numbering: 1.., leap right after its twin
          let exp_m: i64 = if leap == 0 || i < leap { i as i64 + 1 } else if i == leap { -(leap as i64) } else { i as i64 };
          let nok = m.get_month_with_leap() as i64 == exp_m && m.get_index_in_year() == i;
          sum += m.get_day_count() as i64;
          writeln!(w, "{} {} {} {} {}", y, m.get_month_with_leap(), abut as u8, lok as u8, nok as u8).unwrap();
        }
        let cnt_ok = ms.len() == ly.get_month_count() && ms.len() == (if leap > 0 { 13 } else { 12 }) && leap <= 12;
        let dc = ly.get_day_count() as i64;
        let ylen_ok = (353..=355).contains(&dc) || (383..=385).contains(&dc);
        let dist = first_jdn(&LunarMonth::from_ym(y as isize + 1, 1)) - first_jdn(&LunarMonth::from_ym(y as isize, 1));
        writeln!(w, "{} year {} {} {}", y, cnt_ok as u8, ylen_ok as u8, (dist == dc && sum == dc) as u8).unwrap();
      }
    }
    // stepping: from every listed month of the selected years, n in a fixed list
    "c03.next" => {
      let ns: [i64; 15] = [0, 1, -1, 2, -2, 12, -12, 13, -13, 25, -25, 37, -37, 130, -130];
      for y in 0i64..=9999 {
        if !year_selected(y, args) { continue; }
        for m in crate::peph::months_of_year(y) {
          let mm = m.get_month_with_leap() as i64;
          for n in ns.iter() {
            let r = guard(|| { let x = LunarMonth::from_ym(y as isize, mm as isize).next(*n as isize); Some(format!("{} {}", x.get_year(), x.get_month_with_leap())) });
            writeln!(w, "{} {} {} {}", y, mm, n, r).unwrap();
          }
        }
      }
    }
    // civil day -> lunar day -> civil day
    "c02.days" => {
      for y in 1i64..=9999 {
        if !year_selected(y, args) { continue; }
        for m in 1i64..=12 {
          for d in 1i64..=31 {
            let sd = match solar_day(y, m, d) { Some(x) => x, None => continue };
            let r = guard(|| {
              let l = sd.get_lunar_day();
              let back = guard(|| Some(fmt_day(&l.get_solar_day())));
              Some(format!("{} {} {} {}", l.get_year(), l.get_month(), l.get_day(), back))
            });
            writeln!(w, "{} {} {} {}", y, m, d, r).unwrap();
          }
        }
      }
    }
    // accepted lunar day -> civil day -> lunar day
    "c02.lunar" => {
      for y in 0i64..=9999 {
        if !year_selected(y, args) { continue; }
        for m in crate::peph::months_of_year(y) {
          let mm = m.get_month_with_leap() as i64;
          for d in 0i64..=31 {
            let r = guard(|| {
              let l = tyme4rs::tyme::lunar::LunarDay::new(y as isize, mm as isize, us(d)?).ok()?;
              let s = guard(|| {
                let sd = l.get_solar_day();
                let back = guard(|| { let b = sd.get_lunar_day(); Some(format!("{} {} {}", b.get_year(), b.get_month(), b.get_day())) });
                Some(format!("{} {}", fmt_day(&sd), back))
              });
              Some(s)
            });
            if d == 0 || d >= 29 || r != REFUSED { writeln!(w, "{} {} {} {}", y, mm, d, r).unwrap(); }
          }
        }
      }
    }
    _ => { return false; }
  }
  true
}
