use std::io::Write;
pub fn run<W: Write>(name: &str, _args: &[String], _w: &mut W) {
  eprintln!("unknown stream {}", name);
  std::process::exit(2);
}
