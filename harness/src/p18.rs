// C18: almanac lookup tables (day spirits, day/hour recommends & avoids, luck class, kitchen-god numbers)
//
// streams (complete finite domains, canonical text; the Lean driver prints the same text from the model):
//   c18.gods       : every (month pillar 0..59, day pillar 0..59)       -> indices of God::get_day_gods
//   c18.daytaboo   : every (month pillar, day pillar)                   -> recommends | avoids
//   c18.hourtaboo  : every (day pillar, hour pillar)                    -> recommends | avoids
//   c18.luck       : every spirit 0..150                                -> index after from_index, luck index, size
//   c18.names      : God / Taboo names as UTF-8 bytes (hex), list sizes
//   c18.kitchen    : every lunar year -1..9999                          -> New Year day pillar + the 16 numbers of the 14 getters
//   c18.wf         : behavioural verdict per pair / spirit / year (ok | refused | empty | overlap | range), the S stream
// ops: wiring of the day/hour level getters to the table look-ups.
use std::io::Write;
use tyme4rs::tyme::Culture;
use tyme4rs::tyme::culture::{God, KitchenGodSteed, Taboo};
use tyme4rs::tyme::lunar::LunarDay;
use tyme4rs::tyme::sixtycycle::SixtyCycle;
use tyme4rs::tyme::solar::SolarTime;
use crate::util::*;

const OPS: &[&str] = &["c18.wire.day", "c18.wire.hour", "c18.god.from", "c18.taboo.from"];

fn sc(i: i64) -> SixtyCycle { SixtyCycle::from_index(i as isize) }

fn join(v: &[usize]) -> String { v.iter().map(|x| x.to_string()).collect::<Vec<_>>().join(" ") }

/// None = the call panicked
fn gods(mp: i64, dp: i64) -> Option<Vec<usize>> {
  std::panic::catch_unwind(|| God::get_day_gods(sc(mp), sc(dp)).iter().map(|g| g.get_index()).collect::<Vec<usize>>()).ok()
}

/// kind: 0 day recommends, 1 day avoids (a = month pillar, b = day pillar); 2 hour recommends, 3 hour avoids (a = day pillar, b = hour pillar)
fn taboos(kind: usize, a: i64, b: i64) -> Option<Vec<usize>> {
  std::panic::catch_unwind(|| {
    let l = match kind {
      0 => Taboo::get_day_recommends(sc(a), sc(b)),
      1 => Taboo::get_day_avoids(sc(a), sc(b)),
      2 => Taboo::get_hour_recommends(sc(a), sc(b)),
      _ => Taboo::get_hour_avoids(sc(a), sc(b)),
    };
    l.iter().map(|t| t.get_index()).collect::<Vec<usize>>()
  }).ok()
}

fn show(v: &Option<Vec<usize>>) -> String {
  match v { None => REFUSED.to_string(), Some(l) => join(l) }
}

/// numerals as the harness understands them (independent of the library's NUMBERS table)
const NUMERALS: [&str; 12] = ["一", "二", "三", "四", "五", "六", "七", "八", "九", "十", "十一", "十二"];

fn numeral(s: &str) -> usize {
  for (i, n) in NUMERALS.iter().enumerate() { if *n == s { return i + 1; } }
  0
}

/// "<pre><N><suf>" -> N (0 = unreadable)
fn one(s: &str, pre: &str, suf: &str) -> usize {
  match s.strip_prefix(pre).and_then(|t| t.strip_suffix(suf)) { Some(n) => numeral(n), None => 0 }
}

/// "<N>人<M><suf>" -> (N, M)
fn two(s: &str, suf: &str) -> (usize, usize) {
  match s.strip_suffix(suf) {
    None => (0, 0),
    Some(t) => match t.find("人") {
      None => (0, 0),
      Some(k) => (numeral(&t[..k]), numeral(&t[k + "人".len()..])),
    },
  }
}

/// New Year day pillar and the 16 numbers, in the order of the getters in the source
fn kitchen(y: i64) -> Option<(usize, Vec<usize>)> {
  std::panic::catch_unwind(|| {
    let k = KitchenGodSteed::from_lunar_year(y as isize);
    let p = LunarDay::from_ymd(y as isize, 1, 1).get_sixty_cycle().get_index();
    let pc = two(&k.get_people_cakes(), "丙");
    let ph = two(&k.get_people_hoes(), "锄");
    let v = vec![
      one(&k.get_mouse(), "", "鼠偷粮"),
      one(&k.get_grass(), "草子", "分"),
      one(&k.get_cattle(), "", "牛耕田"),
      one(&k.get_flower(), "花收", "分"),
      one(&k.get_dragon(), "", "龙治水"),
      one(&k.get_horse(), "", "马驮谷"),
      one(&k.get_chicken(), "", "鸡抢米"),
      one(&k.get_silkworm(), "", "姑看蚕"),
      one(&k.get_pig(), "", "屠共猪"),
      one(&k.get_field(), "甲田", "分"),
      one(&k.get_cake(), "", "人分饼"),
      one(&k.get_gold(), "", "日得金"),
      pc.0, pc.1, ph.0, ph.1,
    ];
    (p, v)
  }).ok()
}

fn hexbytes(s: &str) -> String { s.bytes().map(|b| format!("{:02X}", b)).collect::<Vec<_>>().join("") }

fn overlap(a: &[usize], b: &[usize]) -> bool { a.iter().any(|x| b.contains(x)) }

fn taboo_status(r: &Option<Vec<usize>>, a: &Option<Vec<usize>>) -> &'static str {
  match (r, a) {
    (Some(r), Some(a)) => if overlap(r, a) { "overlap" } else { "ok" },
    _ => "refused",
  }
}

pub fn exec(op: &str, a: &[i64]) -> Option<Option<String>> {
  if OPS.contains(&op) { Some(go(op, a)) } else { None }
}

fn go(op: &str, a: &[i64]) -> Option<String> {
  match (op, a.len()) {
    // the day-level getters of SixtyCycleDay and LunarDay consult the tables with this day's month and day pillar
    ("c18.wire.day", 3) => {
      if a[0] < 2 || a[0] > 9998 { return None; }   // calendar edges (term of year 0 / 10000) are C06/C08's subject, not the tables'
      let d = solar_day(a[0], a[1], a[2])?;
      let s = d.get_sixty_cycle_day();
      let l = d.get_lunar_day();
      let (mp, dp) = (s.get_month(), s.get_sixty_cycle());
      let ix = |v: Vec<God>| v.iter().map(|g| g.get_index()).collect::<Vec<usize>>();
      let tx = |v: Vec<Taboo>| v.iter().map(|g| g.get_index()).collect::<Vec<usize>>();
      let ok = ix(s.get_gods()) == ix(God::get_day_gods(mp.clone(), dp.clone()))
        && ix(l.get_gods()) == ix(s.get_gods())
        && tx(s.get_recommends()) == tx(Taboo::get_day_recommends(mp.clone(), dp.clone()))
        && tx(s.get_avoids()) == tx(Taboo::get_day_avoids(mp.clone(), dp.clone()))
        && tx(l.get_recommends()) == tx(s.get_recommends())
        && tx(l.get_avoids()) == tx(s.get_avoids());
      Some(format!("{}", ok as u8))
    }
    ("c18.wire.hour", 4) => {
      if a[0] < 2 || a[0] > 9998 { return None; }
      solar_day(a[0], a[1], a[2])?;
      if a[3] < 0 || a[3] > 23 { return None; }
      let t = SolarTime::new(a[0] as isize, us(a[1])?, us(a[2])?, us(a[3])?, 0, 0).ok()?;
      let s = t.get_sixty_cycle_hour();
      let l = t.get_lunar_hour();
      let tx = |v: Vec<Taboo>| v.iter().map(|g| g.get_index()).collect::<Vec<usize>>();
      let (dp, hp) = (s.get_day(), s.get_sixty_cycle());
      let ok = tx(s.get_recommends()) == tx(Taboo::get_hour_recommends(dp.clone(), hp.clone()))
        && tx(s.get_avoids()) == tx(Taboo::get_hour_avoids(dp.clone(), hp.clone()))
        && tx(l.get_recommends()) == tx(s.get_recommends())
        && tx(l.get_avoids()) == tx(s.get_avoids());
      Some(format!("{}", ok as u8))
    }
    // from_index wraps any integer into the list
    ("c18.god.from", 1) => { let g = God::from_index(a[0] as isize); Some(format!("{} {}", g.get_index(), g.get_luck().get_index())) }
    ("c18.taboo.from", 1) => { let g = Taboo::from_index(a[0] as isize); Some(format!("{}", g.get_index())) }
    _ => Some("bad-op".to_string()),
  }
}

pub fn run_enum(name: &str, _args: &[String], w: &mut dyn Write) -> bool {
  match name {
    "c18.gods" => {
      for mp in 0..60 { for dp in 0..60 {
        writeln!(w, "{} {} : {}", mp, dp, show(&gods(mp, dp))).unwrap();
      } }
    }
    "c18.daytaboo" | "c18.hourtaboo" => {
      let k = if name == "c18.daytaboo" { 0 } else { 2 };
      for a in 0..60 { for b in 0..60 {
        writeln!(w, "{} {} : {} | {}", a, b, show(&taboos(k, a, b)), show(&taboos(k + 1, a, b))).unwrap();
      } }
    }
    // day and hour look-ups INTERLEAVED in one thread, same-kind look-ups with the same branch and day pillar back to back
    // (month pillar a / hour pillar a, day pillar b): what a cache shared between the tables would confuse
    "c18.mixed" => {
      for a in 0..60 { for b in 0..60 {
        let dg = show(&gods(a, b));
        let dr = show(&taboos(0, a, b)); let hr = show(&taboos(2, b, a));
        let da = show(&taboos(1, a, b)); let ha = show(&taboos(3, b, a));
        writeln!(w, "{} {} : {} | {} | {} | {} | {}", a, b, dg, dr, da, hr, ha).unwrap();
      } }
    }
    "c18.luck" => {
      for i in 0..151i64 {
        let r = guard(|| { let g = God::from_index(i as isize); Some(format!("{} {} {}", g.get_index(), g.get_luck().get_index(), g.get_size())) });
        writeln!(w, "{} {}", i, r).unwrap();
      }
    }
    "c18.names" => {
      let n = God::from_index(0).get_size();
      writeln!(w, "god size {}", n).unwrap();
      for i in 0..n { writeln!(w, "god {} {}", i, hexbytes(&God::from_index(i as isize).get_name())).unwrap(); }
      let n = Taboo::from_index(0).get_size();
      writeln!(w, "taboo size {}", n).unwrap();
      for i in 0..n { writeln!(w, "taboo {} {}", i, hexbytes(&Taboo::from_index(i as isize).get_name())).unwrap(); }
    }
    "c18.kitchen" => {
      for y in -1i64..=9999 {
        match kitchen(y) {
          None => writeln!(w, "{} {}", y, REFUSED).unwrap(),
          Some((p, v)) => writeln!(w, "{} {} {}", y, p, join(&v)).unwrap(),
        }
      }
    }
    // behavioural verdicts: what a user of the API can observe going wrong
    "c18.wf" => {
      for mb in 0..12 { for dp in 0..60 {
        let st = match gods(mb, dp) { None => "refused", Some(l) => if l.is_empty() { "empty" } else { "ok" } };
        writeln!(w, "gods {} {} {}", mb, dp, st).unwrap();
      } }
      for mb in 0..12 { for dp in 0..60 {
        writeln!(w, "day {} {} {}", mb, dp, taboo_status(&taboos(0, mb, dp), &taboos(1, mb, dp))).unwrap();
      } }
      for dp in 0..60 { for hb in 0..12 {
        writeln!(w, "hour {} {} {}", dp, hb, taboo_status(&taboos(2, dp, hb), &taboos(3, dp, hb))).unwrap();
      } }
      for i in 0..151i64 {
        let r = guard(|| Some(format!("{}", God::from_index(i as isize).get_luck().get_index())));
        writeln!(w, "luck {} {}", i, r).unwrap();
      }
      for y in -1i64..=9999 {
        match kitchen(y) {
          None => writeln!(w, "kitchen {} {}", y, REFUSED).unwrap(),
          Some((_, v)) => writeln!(w, "kitchen {} {}", y, join(&v)).unwrap(),
        }
      }
    }
    _ => return false,
  }
  true
}
