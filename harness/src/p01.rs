// C01: civil calendar <-> day count
use std::io::Write;
use tyme4rs::tyme::Tyme;
use tyme4rs::tyme::solar::{SolarMonth, SolarYear};
use crate::util::*;

const OPS: &[&str] = &["solar.new", "solar.jdn", "jd.day", "solar.next", "solar.sub", "solar.before", "solar.after",
  "solar.idx", "solar.week", "month.len", "year.len"];

pub fn exec(op: &str, a: &[i64]) -> Option<Option<String>> {
  if OPS.contains(&op) { Some(go(op, a)) } else { None }
}

/// None = refused
fn go(op: &str, a: &[i64]) -> Option<String> {
  match (op, a.len()) {
    ("solar.new", 3) => { solar_day(a[0], a[1], a[2])?; Some("ok".into()) }
    ("solar.jdn", 3) => { let d = solar_day(a[0], a[1], a[2])?; Some(format!("{}", jdn_of(&d))) }
    ("jd.day", 1) => {
      let d = tyme4rs::tyme::jd::JulianDay::from_julian_day(a[0] as f64 - 0.5).get_solar_day();
      Some(fmt_day(&d))
    }
    ("solar.next", 4) => { let d = solar_day(a[0], a[1], a[2])?; Some(fmt_day(&d.next(a[3] as isize))) }
    ("solar.sub", 6) => {
      let x = solar_day(a[0], a[1], a[2])?; let y = solar_day(a[3], a[4], a[5])?;
      Some(format!("{}", x.subtract(y)))
    }
    ("solar.before", 6) => {
      let x = solar_day(a[0], a[1], a[2])?; let y = solar_day(a[3], a[4], a[5])?;
      Some(format!("{}", x.is_before(y) as u8))
    }
    ("solar.after", 6) => {
      let x = solar_day(a[0], a[1], a[2])?; let y = solar_day(a[3], a[4], a[5])?;
      Some(format!("{}", x.is_after(y) as u8))
    }
    ("solar.idx", 3) => { let d = solar_day(a[0], a[1], a[2])?; Some(format!("{}", d.get_index_in_year())) }
    ("solar.week", 3) => { let d = solar_day(a[0], a[1], a[2])?; Some(format!("{}", d.get_week().get_index())) }
    ("month.len", 2) => { let m = SolarMonth::new(a[0] as isize, us(a[1])?).ok()?; Some(format!("{}", m.get_day_count())) }
    ("year.len", 1) => { let y = SolarYear::new(a[0] as isize).ok()?; Some(format!("{} {}", y.get_day_count(), y.is_leap() as u8)) }
    _ => Some("bad-op".to_string()),
  }
}

pub fn run_enum(name: &str, _args: &[String], w: &mut dyn Write) -> bool {
  match name {
    // acceptance grid: per (y, m) the bitmask of accepted days 0..=32
    "c01.grid" => {
      for y in -1i64..=10000 {
        for m in 0i64..=13 {
          let mut mask: u64 = 0;
          for d in 0i64..=32 {
            let ok = guard(|| { solar_day(y, m, d)?; Some("ok".into()) }) == "ok";
            if ok { mask |= 1u64 << d; }
          }
          writeln!(w, "{} {} {}", y, m, mask).unwrap();
        }
      }
    }
    // every accepted day in lexicographic order: y m d jdn week idx back(y m d)
    "c01.days" => {
      for y in 1i64..=9999 {
        for m in 1i64..=12 {
          for d in 1i64..=31 {
            let line = guard(|| {
              let x = solar_day(y, m, d)?;
              let j = jdn_of(&x);
              let frac_ok = x.get_julian_day().get_day() + 0.5 == j as f64;
              let b = tyme4rs::tyme::jd::JulianDay::from_julian_day(j as f64 - 0.5).get_solar_day();
              // order against the successor day and against itself: before(d,d+1) after(d,d+1) before(d+1,d) after(d+1,d) before(d,d) after(d,d)
              let ord = if (y, m, d) == (9999, 12, 31) { "-".to_string() } else {
                let n = x.next(1);
                format!("{}{}{}{}{}{}", x.is_before(n) as u8, x.is_after(n) as u8, n.is_before(x) as u8, n.is_after(x) as u8, x.is_before(x) as u8, x.is_after(x) as u8)
              };
              Some(format!("{} {} {} {} {} {} {} {} {}", y, m, d, j, x.get_week().get_index(), x.get_index_in_year(), fmt_day(&b), frac_ok as u8, ord))
            });
            if line != REFUSED { writeln!(w, "{}", line).unwrap(); }
          }
        }
      }
    }
    // month and year lengths, leap flags
    "c01.lens" => {
      for y in 1i64..=9999 {
        let yy = tyme4rs::tyme::solar::SolarYear::from_year(y as isize);
        write!(w, "{} {} {}", y, yy.get_day_count(), yy.is_leap() as u8).unwrap();
        for m in 1..=12usize {
          write!(w, " {}", tyme4rs::tyme::solar::SolarMonth::from_ym(y as isize, m).get_day_count()).unwrap();
        }
        writeln!(w).unwrap();
      }
    }
    _ => { return false; }
  }
  true
}
