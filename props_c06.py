"""C06 configuration: solar terms."""
import os
import sys
from props_common import *

sys.path.insert(0, os.path.join(os.path.dirname(os.path.abspath(__file__)), "tools"))
from gen_eph import gen_eph


def c06_ops(rng, tier):
    n = 4000 if tier == "quick" else 50000
    L = []
    for _ in range(n):
        k = rng.random()
        y, m, d = rand_date(rng)
        if k < 0.2:
            L.append("term.of %d %d %d" % (y, m, d))
        elif k < 0.35:
            L.append("term.ofd %d %d %d" % (y, m, d))
        elif k < 0.7:
            L.append("term.oftime %d %d %d %d %d %d" % (y, m, d, rng.choice([0, 23, rng.randint(0, 23)]), rng.randint(0, 59), rng.randint(0, 59)))
        elif k < 0.8:
            L.append("term.day %d %d" % (rng.randint(0, 10001), rng.randint(0, 23)))
        elif k < 0.9:
            L.append("term.next %d %d %d" % (rng.randint(1, 10000), rng.randint(0, 23), rng.choice([0, 1, -1, 24, -24, rng.randint(-100, 100), rng.randint(-300000, 300000)])))
        elif k < 0.95:
            L.append("term.new %d %d" % (rng.randint(-5, 10005), rng.randint(-60, 60)))
        else:
            L.append("term.byname %d %d" % (rng.randint(1, 9998), rng.choice([rng.randint(0, 23), rng.randint(-30, 50)])))
    return L


def c06_instants(tier, seed, tmp, broken, k_fail, s_fail, ev_cov):
    """the second before / at / after term instants: instant -> term through the real API vs model and spec"""
    import random
    import subprocess
    from checklib import TYMEH, TYMED, ROOT
    rng = random.Random(seed + 6)
    rows = [l.split() for l in open(os.path.join(ROOT, "build", "dump", "terms.tsv"))]
    rows = [r for r in rows if r[3] != "0"]
    pick = rows if tier == "thorough" else rng.sample(rows, 6000) + rows[:50] + rows[-50:]
    # civil date of each term instant through the harness (term.day), then ±1 s probes
    ops = ["term.day %s %s" % (r[0], r[1]) for r in pick]
    p = subprocess.run([TYMEH, "exec"], input=("\n".join(ops) + "\n").encode(), stdout=subprocess.PIPE)
    res = p.stdout.decode().split("\n")
    probes = []
    for r, line in zip(pick, res):
        f = line.split()
        if len(f) != 4:
            continue
        y, m, d, sod = map(int, f)
        for ds in (-1, 0, 1):
            t = sod + ds
            if 0 <= t < 86400:
                probes.append("term.oftime %d %d %d %d %d %d" % (y, m, d, t // 3600, t % 3600 // 60, t % 60))
        # the day-level views ON the first day of the term (where a look-up that only walks one way is wrong): both getters
        probes.append("term.of %d %d %d" % (y, m, d))
        probes.append("term.ofd %d %d %d" % (y, m, d))
    inp = ("\n".join(probes) + "\n").encode()
    H = subprocess.run([TYMEH, "exec"], input=inp, stdout=subprocess.PIPE).stdout.decode().split("\n")
    M = subprocess.run([TYMED, "exec"], input=inp, stdout=subprocess.PIPE).stdout.decode().split("\n")
    S = subprocess.run([TYMED, "specexec"], input=inp, stdout=subprocess.PIPE).stdout.decode().split("\n")
    nk = ns = 0
    for i, op in enumerate(probes):
        if H[i] != M[i]:
            k_fail.append(("op", i + 1, op + " => " + H[i], op + " => " + M[i])); nk += 1
        if H[i] != S[i]:
            s_fail.append(("op", op + " => " + H[i], op + " => " + S[i])); ns += 1
    ev_cov["term_instant_probes"] = {"cases": len(probes), "k_div": nk, "s_fail": ns, "exhaustive": tier == "thorough",
                                      "sample": probes[:3]}
    print("[C06] instant probes (second before/at/after term instants): %d cases, K div %d, S failing %d" % (len(probes), nk, ns), flush=True)


PROP = {
    "id": "C06",
    "thm_module": "Tyme.Thm.C06",
    "thm_file": "Tyme/Thm/C06.lean",
    "lean_targets": ["Tyme.Thm.C06", "Tyme.Thm.Total", "Tyme.Thm.C08c"],
    "fact_files": [("Tyme/Thm/Total.lean", "Tyme.Thm.Total"), ("Tyme/Thm/C08c.lean", "Tyme.Thm.C08c")],
    "audit_files": ["Tyme/Model/Term.lean", "Tyme/Model/Eph.lean", "Tyme/Model/RealEph.lean", "Tyme/Facts/Terms.lean",
                    "Tyme/Facts/TermsFact.lean", "Tyme/Facts/Preds.lean", "Tyme/Basic/Packed.lean"],
    "gen": [gen_eph],
    "streams": [
        {"name": "c06.days", "args_thorough": ["all"], "extra_years": True},   # every civil day -> (term, day index)
        {"name": "c06.inc", "model": False},              # the spacing clause evaluated on the implementation, all 239,976 adjacent pairs
        {"name": "c06.next", "args_thorough": ["all"]},   # stepping from every (year, index), construction with wrapped indices
    ],
    "ops": c06_ops,
    "extra_checks": [c06_instants],
    "exhaustive": False,
    "rule": "c06.days: every civil date of the selected years (quick ~470k days, thorough all 3,652,061) -> term year/index/day index; "
            "c06.next: 13 step counts from every (year, index) + constructions with out-of-range indices; ops: seeded day/instant look-ups; "
            "extra: the second before/at/after real term instants (quick 6,100 terms, thorough all 239,977). Spec = binary search for the latest "
            "term on or before the day/instant over the re-extracted table; table fact C06_inc_fact kernel-checked over all 240,000 terms.",
}
