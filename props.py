"""Registry: every props_cNN.py in this directory defines PROP = {...} (see BUILDING.md)."""
import glob
import importlib
import os
import sys

sys.path.insert(0, os.path.dirname(os.path.abspath(__file__)))
from props_common import *  # noqa

PROPS = {}
for _p in sorted(glob.glob(os.path.join(os.path.dirname(os.path.abspath(__file__)), "props_c*.py"))):
    _name = os.path.basename(_p)[:-3]
    if _name == "props_common":
        continue
    _m = importlib.import_module(_name)
    PROPS[_m.PROP["id"]] = _m.PROP
